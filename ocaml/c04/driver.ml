(* include: gqlread *)
(* C04 driver.  Case lines (harness/cmd/c04):
     (c04schema N <schema> "SDL")                remembered, no verdict
     (c04 N (meta valid|mutant "op" (feat ...)) <doc> <opname> (go t|f "stage" "family" "msg"))
        the extracted spec_valid_b is evaluated on the ORIGINAL document; it must agree with Go's
        accept/reject:  specfail accept_iff_valid (go=.. spec=.. rules=.. op=.. family=..)
     (c04merge N <doc-before> <doc-after>|(fail ...))
        the merge model (Model.merge_fields) applied to doc-before must equal Go's normalised
        document:  mismatch corr:C04/merge ... *)
let schemas : (string, schema) Hashtbl.t = Hashtbl.create 16

(* the C04 extension carried by the last item of the schema form *)
let dd_of = function
  | L [A "dd"; S n; L (A "args" :: a); L (A "locs" :: locs); rep] ->
    { dd_name = b n; dd_args = List.map iv_of a; dd_locations = List.map (fun x -> b (str x)) locs; dd_repeatable = sbool rep }
  | x -> raise (Sexp_error ("dirdef: " ^ print_sexp x))
let schema_ext (x : sexp) : schema =
  let base = schema_of x in
  match x with
  | L [_; _; _; _; _; L (A "directives" :: items)] ->
    let dds = List.filter_map (function L (A "dd" :: _) as d -> Some (dd_of d) | _ -> None) items in
    let oneofs = List.concat_map (function L (A "oneof" :: l) -> List.map (fun x -> b (str x)) l | _ -> []) items in
    let oneof_dir = { d_name = b "oneOf"; d_args = [] } in
    let types = List.map (fun t -> if List.mem t.td_name oneofs then { t with td_dirs = [oneof_dir] } else t) base.s_types in
    { base with s_types = types; s_directives = dds }
  | _ -> base

let rule_name = function
  | R_operation -> "operation" | R_field_exists -> "field-exists" | R_leaf_shape -> "leaf-shape"
  | R_arg_known -> "arg-known" | R_arg_unique -> "arg-unique" | R_arg_required -> "arg-required"
  | R_dir_arg_required -> "dir-arg-required"
  | R_value -> "value" | R_var_position -> "var-position" | R_frag_known -> "frag-known"
  | R_frag_unique -> "frag-unique" | R_frag_type -> "frag-type" | R_frag_cycle -> "frag-cycle"
  | R_spread_possible -> "spread-possible" | R_merge -> "merge" | R_var_unique -> "var-unique"
  | R_var_input_type -> "var-input-type" | R_var_default_const -> "var-default-const"
  | R_var_default_value -> "var-default-value" | R_var_defined -> "var-defined"
  | R_var_used -> "var-used" | R_dir_known -> "dir-known" | R_dir_location -> "dir-location"
  | R_dir_unique -> "dir-unique" | R_subscription_single -> "subscription-single"
  | R_subscription_introspection -> "subscription-introspection"

let rec sel_has_abstract_or_var (s : schema) (sel : selection) : bool =
  let abstract n = match find_type n s.s_types with
    | Some t -> (match t.td_kind with KInterface | KUnion -> true | _ -> false) | None -> false in
  let rec val_has_var = function
    | VVar _ -> true | VList l -> List.exists val_has_var l | VObj fs -> List.exists (fun (_, v) -> val_has_var v) fs | _ -> false in
  let args_var a = List.exists (fun (_, v) -> val_has_var v) a in
  let dirs_var ds = List.exists (fun d -> args_var d.d_args) ds in
  match sel with
  | SField (_, _, args, dirs, ss) -> args_var args || dirs_var dirs || List.exists (sel_has_abstract_or_var s) ss
  | SInline (c, dirs, ss) -> (match c with Some n -> abstract n | None -> false) || dirs_var dirs || List.exists (sel_has_abstract_or_var s) ss
  | SSpread (_, dirs) -> dirs_var dirs

let nontrivial (s : schema) (d : document) : bool =
  List.exists (function
      | DOp o -> o.op_vars <> [] || List.exists (sel_has_abstract_or_var s) o.op_sels
      | DFrag f ->
        (match find_type f.fr_type s.s_types with
         | Some t -> (match t.td_kind with KInterface | KUnion -> true | _ -> false) | None -> false)
        || List.exists (sel_has_abstract_or_var s) f.fr_sels) d

(* what the normaliser's directivesIncludeSkip stage does before validation: selections that are
   statically excluded (@skip(if: true) / @include(if: false) with a literal) are removed, a
   selection set emptied that way gets a __typename, and variables used only there are dropped *)
(* static value of a @skip/@include directive: Some true = the node is removed, Some false = only
   the directive is removed, None = not static.  A variable counts as static when its definition
   has a (Boolean) default and the request supplies no value (the harness supplies none). *)
let garbage = ref false
let static_dir (vds : vardef list) (d : directive) : bool option =
  let n = string_of_bytes d.d_name in
  if n <> "skip" && n <> "include" then None else
  match d.d_args with
  | [(k, v)] when string_of_bytes k = "if" ->
    let bv = match v with
      | VBool x -> Some x
      | VVar x -> (match List.find_opt (fun vd -> vd.vd_name = x) vds with
          | Some { vd_default = Some (VBool y); _ } -> Some y
          | _ -> None)
      | _ -> None in
    (match bv with Some x -> Some (if n = "skip" then x else not x) | None -> None)
  | _ -> None
let rec prune_sels vds (l : selection list) : selection list =
  let dirs_of = function SField (_, _, _, d, _) -> d | SInline (_, d, _) -> d | SSpread (_, d) -> d in
  let keep = List.filter (fun s -> not (List.exists (fun d -> static_dir vds d = Some true) (dirs_of s))) l in
  let strip ds = List.filter (fun d -> static_dir vds d = None) ds in
  let keep = List.map (function
      | SField (a, n, args, d, ss) -> SField (a, n, args, strip d, prune_sels vds ss)
      | SInline (c, d, ss) -> SInline (c, strip d, prune_sels vds ss)
      | SSpread (n, d) -> SSpread (n, strip d)) keep in
  if keep = [] && l <> [] then [SField (None, b "__typename", [], [], [])] else keep
let rec value_vars_ml = function
  | VVar n -> [n] | VList l -> List.concat_map value_vars_ml l
  | VObj fs -> List.concat_map (fun (_, v) -> value_vars_ml v) fs | _ -> []
let dirs_vars_ml ds = List.concat_map (fun d -> List.concat_map (fun (_, v) -> value_vars_ml v) d.d_args) ds
let rec sel_vars_ml = function
  | SField (_, _, args, d, ss) -> List.concat_map (fun (_, v) -> value_vars_ml v) args @ dirs_vars_ml d @ List.concat_map sel_vars_ml ss
  | SInline (_, d, ss) -> dirs_vars_ml d @ List.concat_map sel_vars_ml ss
  | SSpread (_, d) -> dirs_vars_ml d
let rec sel_spreads_ml = function
  | SField (_, _, _, _, ss) | SInline (_, _, ss) -> List.concat_map sel_spreads_ml ss
  | SSpread (n, _) -> [n]
(* variables used by the operations and the fragments reachable from them *)
let doc_vars_ml (d : document) =
  let frags = List.filter_map (function DFrag f -> Some f | _ -> None) d in
  let rec close seen = function
    | [] -> seen
    | n :: rest ->
      if List.mem n seen then close seen rest
      else match List.find_opt (fun f -> f.fr_name = n) frags with
        | Some f -> close (n :: seen) (List.concat_map sel_spreads_ml f.fr_sels @ rest)
        | None -> close (n :: seen) rest in
  let roots = List.concat_map (function DOp o -> List.concat_map sel_spreads_ml o.op_sels | _ -> []) d in
  let reached = close [] roots in
  List.concat_map (function
      | DOp o -> dirs_vars_ml o.op_dirs @ List.concat_map sel_vars_ml o.op_sels
      | DFrag f -> if List.mem f.fr_name reached then dirs_vars_ml f.fr_dirs @ List.concat_map sel_vars_ml f.fr_sels else []) d
let prune_doc (strip_fragdef_dirs : bool) (d : document) : document =
  let vds = List.concat_map (function DOp o -> o.op_vars | DFrag _ -> []) d in
  let d' = List.map (function
      | DOp o -> DOp { o with op_sels = prune_sels vds o.op_sels }
      | DFrag f -> DFrag { f with fr_sels = prune_sels vds f.fr_sels;
                                  fr_dirs = if strip_fragdef_dirs then [] else f.fr_dirs }) d in
  let before = doc_vars_ml d and after = doc_vars_ml d' in
  List.map (function
      | DOp o -> DOp { o with op_vars = List.filter (fun vd -> not (List.mem vd.vd_name before) || List.mem vd.vd_name after) o.op_vars }
      | x -> x) d'

(* two occurrences of one field (same response key and name) whose argument lists are equal as
   sets but written in a different order *)
let rec all_fields_ml = function
  | SField (a, n, args, _, ss) as f -> f :: List.concat_map all_fields_ml ss
  | SInline (_, _, ss) -> List.concat_map all_fields_ml ss
  | SSpread _ -> []
let has_reordered_args (d : document) : bool =
  let fs = List.concat_map (function DOp o -> List.concat_map all_fields_ml o.op_sels
                                   | DFrag f -> List.concat_map all_fields_ml f.fr_sels) d in
  let sorted a = List.sort compare a in
  List.exists (fun x -> List.exists (fun y ->
      match x, y with
      | SField (a, n, args, _, _), SField (a', n', args', _, _) ->
        a = a' && n = n' && args <> args' && sorted args = sorted args'
      | _ -> false) fs) fs

(* two fields with sub-selections under one response key that differ in name or arguments *)
let has_composite_conflict (d : document) : bool =
  let fs = List.concat_map (function DOp o -> List.concat_map all_fields_ml o.op_sels
                                   | DFrag f -> List.concat_map all_fields_ml f.fr_sels) d in
  let key a n = match a with Some x -> x | None -> n in
  let sorted a = List.sort compare a in
  List.exists (fun x -> List.exists (fun y ->
      match x, y with
      | SField (a, n, args, _, (_ :: _)), SField (a', n', args', _, (_ :: _)) ->
        key a n = key a' n' && (n <> n' || sorted args <> sorted args')
      | _ -> false) fs) fs

(* Go's message "objects of type X can never be of type Y" on a spec-valid document: true when X is
   an object type that does not overlap Y although one of the interfaces X implements does -- the
   signature of an inline fragment on that interface having been flattened into X, whose field has
   a narrower (covariant) type *)
let possible_ml (s : schema) (n : name) : name list =
  match find_type n s.s_types with
  | Some t -> (match t.td_kind with
      | KObject -> [n]
      | KUnion -> t.td_members
      | KInterface -> List.filter_map (fun o -> if o.td_kind = KObject && List.mem n o.td_implements then Some o.td_name else None) s.s_types
      | _ -> [])
  | None -> []
let overlap_ml s a b = List.exists (fun x -> List.mem x (possible_ml s b)) (possible_ml s a)
let narrowing_flag (s : schema) (msg : string) : bool =
  let re = Str.regexp "objects of type \"\\([A-Za-z0-9_]+\\)\" can never be of type \"\\([A-Za-z0-9_]+\\)\"" in
  try
    ignore (Str.search_forward re msg 0);
    let x = b (Str.matched_group 1 msg) and y = b (Str.matched_group 2 msg) in
    (match find_type x s.s_types with
     | Some t -> t.td_kind = KObject && not (overlap_ml s x y) && List.exists (fun i -> overlap_ml s i y) t.td_implements
     | None -> false)
  with Not_found -> false

let rec show_sel = function
  | SField (a, n, args, _, ss) ->
    (match a with Some x -> string_of_bytes x ^ ":" | None -> "") ^ string_of_bytes n ^
    (if args = [] then "" else "(" ^ String.concat "," (List.map (fun (k, _) -> string_of_bytes k) args) ^ ")") ^
    (if ss = [] then "" else "{" ^ String.concat " " (List.map show_sel ss) ^ "}")
  | SInline (c, _, ss) -> "...on " ^ (match c with Some x -> string_of_bytes x | None -> "") ^ "{" ^ String.concat " " (List.map show_sel ss) ^ "}"
  | SSpread (n, _) -> "..." ^ string_of_bytes n

let handle (x : sexp) : (string * string) list =
  match x with
  | L (A "c04schema" :: A id :: sch :: _) -> Hashtbl.replace schemas id (schema_ext sch); []
  | L [A "c04"; _; _; _; _; L [A "go"; _; S "panic"; _; S msg]] ->
    [("specfail", "total: the admission sequence panicked: " ^ msg)]
  | L [A "c04"; A id; L (A "meta" :: A kind :: S op :: _); doc; opname; L [A "go"; acc; S stage; S fam; S gomsg]] ->
    let s = try Hashtbl.find schemas id with Not_found -> raise (Failure ("unknown schema " ^ id)) in
    let d = doc_of doc in
    let opn = opt_name opname in
    let go = sbool acc in
    let spec = spec_valid_b s d opn in
    if go = spec then [("ok", if kind = "mutant" || nontrivial s d then "nt" else "tr")]
    else
      let show_rules doc = String.concat "," (List.map rule_name (spec_report s doc opn)) in
      (* what Go effectively validates: statically skipped selections are gone, static
         @skip/@include directives are removed, fragment definitions (and with them their own
         directives) are dissolved *)
      let effective g = garbage := g; (prune_doc false d, prune_doc true d) in
      let (pd, ed) = effective false in
      let (pd, ed) = if spec_valid_b s ed opn = go then (pd, ed) else
          let (pd', ed') = effective true in if spec_valid_b s ed' opn = go then (pd', ed') else (pd, ed) in
      let eff =
        if not go || spec then "n/a"
        else if ed = d then "same"
        else if spec_valid_b s ed opn then
          (if spec_valid_b s pd opn then "explains:static-skip"
           (* the directives of fragment definitions are dissolved before validation.  The engine's
              prevalidation list checks them for being defined, located and unique (repaired); what
              it cannot see is the validity of their ARGUMENTS *)
           else if List.exists (fun r -> r = R_dir_known || r = R_dir_location || r = R_dir_unique) (spec_report s pd opn)
           then "fragdef-dirs-prevalidated"
           else "explains:fragdef-dir-args")
        else "differs" in
      let ed = if not go || spec then d else ed in
      [("specfail", Printf.sprintf "accept_iff_valid (go=%s spec=%s rules=[%s] kind=%s op=%s stage=%s family=%s eff=%s erules=[%s])%s"
          (if go then "accept" else "reject") (if spec then "valid" else "invalid") (show_rules d) kind op stage fam eff (show_rules ed)
          ((if has_reordered_args d then " reordered-arguments" else "") ^
           (if has_composite_conflict d then " composite-conflict" else "") ^
           (if narrowing_flag s gomsg then " covariant-narrowing" else "")))]
  | L [A "c04merge"; A id; before; after] ->
    let d = doc_of before in
    (match after with
     | L (A "fail" :: _) -> [("ok", "tr")]
     | _ ->
       let go_doc = doc_of after in
       let m = merge_fields d in
       if m = go_doc then [("ok", (if m <> d then "nt" else "tr") ^ (if merge_fields_ignoring_args d <> m then " discriminates-prefix-model" else ""))]
       else
         let show dd = String.concat " | " (List.map (function DOp o -> String.concat " " (List.map show_sel o.op_sels) | DFrag _ -> "frag") dd) in
         [("mismatch", Printf.sprintf "corr:C04/merge model={%s} go={%s}" (show m) (show go_doc))])
  | L [A "c04overlap"; A id; doc; verdict] ->
    let s = try Hashtbl.find schemas id with Not_found -> raise (Failure ("unknown schema " ^ id)) in
    let d = doc_of doc in
    let go = sbool verdict in
    let m = go_overlap_ok s d in
    if m = go then [("ok", if not go then "nt overlap-reject" else "tr")]
    else [("mismatch", Printf.sprintf "corr:C04/overlap model=%b go=%b doc={%s}" m go
             (String.concat " | " (List.map (function DOp o -> String.concat " " (List.map show_sel o.op_sels) | DFrag _ -> "frag") d)))]
  | _ -> [("error", "unrecognised case")]

let () = run_lines Sys.argv.(1) Sys.argv.(2) handle
