(* C19 driver: reads harness lines
     (c19 tws|gws CFG (steps (INPUT (outs OUT...) (live (TOK ID s|q)...) [(stuck "..")] [(w "..")])...) (exit t|f))
   replays the recorded input/event sequence on the extracted model, compares outputs and live
   operation goroutines step by step (corr:C19/<protocol>), and runs the reference monitor on the
   IMPLEMENTATION's outputs.  A monitor failure is attributed to listed causes only if the
   monitor accepts the implementation's trace once steps that are instances of those causes
   (Causes.offending on the model state) are taken out. *)
exception Bad of string

let proto_of = function "tws" -> TWS | "gws" -> GWS | s -> raise (Bad ("protocol " ^ s))
let n_of_atom a = n_of_decimal a
let payload_of = function
  | "s" -> PSub | "q" -> PQuery | "nopayload" -> PNoPayload | "getfail" -> PGetFail
  | s -> raise (Bad ("payload " ^ s))
let input_of (x : sexp) : input =
  match x with
  | L [A "init"; A "none"] -> CInit INone
  | L [A "init"; A "accept"] -> CInit IAccept
  | L [A "init"; A "reject"] -> CInit IReject
  | L [A "ping"] -> CPing
  | L [A "pong"] -> CPong
  | L [A "sub"; A i; A p] -> CSubscribe (n_of_atom i, payload_of p)
  | L [A "complete"; A i] -> CComplete (n_of_atom i)
  | L [A "start"; A i; A p] -> CStart (n_of_atom i, payload_of p)
  | L [A "stop"; A i] -> CStop (n_of_atom i)
  | L [A "terminate"] -> CTerminate
  | L [A "badjson"] -> CBadJson
  | L [A "wrongshape"] -> CWrongShape
  | L [A "unknown"] -> CUnknown
  | L [A "flush"; A t] -> EFlush (n_of_atom t)
  | L [A "ret"; A t; A r; A g] ->
    let r = (match r with "ok" -> ROk | "data" -> RData | "err" -> RErr | s -> raise (Bad ("ret " ^ s))) in
    ERet (n_of_atom t, r, (match g with "go" -> true | "end" -> false | s -> raise (Bad ("ret " ^ s))))
  | L [A "inittimeout"] -> EInitTimeout
  | L [A "tick"] -> ETick
  | L [A "clientclose"] -> EClientClose
  | _ -> raise (Bad ("input " ^ print_sexp x))

let server_types = function TWS -> tws_server_types | GWS -> gws_server_types
(* wire type string -> message type, through the model's own name table *)
let mtype_of pr (name : string) (hb : bool) : mtype =
  match List.find_opt (fun t -> string_of_bytes (wire_name pr t) = name) (server_types pr) with
  | Some MPong when hb -> MPongHb
  | Some t -> t
  | None ->
    (* a type string of the other protocol is still a message; anything else is not *)
    let other = match pr with TWS -> GWS | GWS -> TWS in
    (match List.find_opt (fun t -> string_of_bytes (wire_name other t) = name) (server_types other) with
     | Some t -> t
     | None -> raise (Bad ("server message type " ^ name)))
let output_of pr (x : sexp) : output =
  match x with
  | L [A "m"; S name; A i] -> OMsg (mtype_of pr name false, n_of_atom i)
  | L [A "m"; S name; A i; A "hb"] -> OMsg (mtype_of pr name true, n_of_atom i)
  | L [A "c"; A code] -> OClose (n_of_atom code)
  | _ -> raise (Bad ("output " ^ print_sexp x))

let show_mtype pr t = (match t with MPongHb -> "pong/hb" | _ -> string_of_bytes (wire_name pr t))
let show_out pr = function
  | OMsg (t, i) -> "(" ^ show_mtype pr t ^ " " ^ decimal_of_n i ^ ")"
  | OClose c -> "(close " ^ decimal_of_n c ^ ")"
let show_outs pr l = "[" ^ String.concat " " (List.map (show_out pr) l) ^ "]"
let show_live l =
  "[" ^ String.concat " " (List.map (fun ((t, i), sub) ->
    "(" ^ decimal_of_n t ^ " " ^ decimal_of_n i ^ (if sub then " s)" else " q)")) l) ^ "]"
let live_of (x : sexp) =
  match x with
  | L [A t; A i; A k] -> ((n_of_atom t, n_of_atom i), k = "s")
  | _ -> raise (Bad ("live " ^ print_sexp x))

let clause_name = function
  | VAfterClose -> "after_close" | VForeignType -> "foreign_type" | VAck -> "ack" | VPong -> "pong"
  | VHeartbeat -> "heartbeat" | VConnError -> "connection_error" | VDataNoOp -> "data_without_operation"
  | VTerminalNoOp -> "terminal_without_operation" | VCloseCode -> "close_code" | VMustClose -> "must_close"
  | VMissingReply -> "missing_reply" | VLength -> "length"
let cause_key = function
  | KStopUnknown -> "stop-unknown-id" | KEmitAfterCancel -> "emit-after-cancel" | KSubErrorGoesOn -> "sub-error-goes-on"

let rec subsets_of_size k l =
  if k = 0 then [[]] else
  match l with [] -> [] | x :: r -> List.map (fun s -> x :: s) (subsets_of_size (k - 1) r) @ subsets_of_size k r

let handle (x : sexp) : (string * string) list =
  match x with
  | L [A "c19"; A proto; A cfg; L (A "steps" :: steps); L [A "exit"; A ex]] ->
    (try
      let pr = proto_of proto in
      let parsed = List.map (fun s ->
        match s with
        | L (i :: L (A "outs" :: outs) :: L (A "live" :: lv) :: rest) ->
          let stuck = List.exists (function L (A "stuck" :: _) -> true | _ -> false) rest in
          (input_of i, List.map (output_of pr) outs, List.map live_of lv, stuck, print_sexp i)
        | _ -> raise (Bad ("step " ^ print_sexp s))) steps in
      let res = ref [] in
      let add st d = res := (st, d) :: !res in
      (* --- correspondence, step by step; remember which steps are instances of a listed cause *)
      let st = ref (init_state pr) in
      let offs = ref [] in
      let mism = ref false in
      List.iteri (fun k (inp, outs, lv, stuck, shown) ->
        (match offending pr !st inp with Some c -> offs := (k, c) :: !offs | None -> ());
        let (st', mouts) = step pr !st inp in
        st := st';
        if not !mism then begin
          if mouts <> outs then begin
            mism := true;
            add "mismatch" (Printf.sprintf "corr:C19/%s step=%d input=%s impl=%s model=%s" proto k shown (show_outs pr outs) (show_outs pr mouts)) end
          else if live st' <> lv then begin
            mism := true;
            add "mismatch" (Printf.sprintf "corr:C19/%s step=%d input=%s live goroutines impl=%s model=%s" proto k shown (show_live lv) (show_live (live st'))) end
        end;
        if stuck then add "specfail" (Printf.sprintf "never_wedged step=%d input=%s" k shown)) parsed;
      if ex <> "t" then add "specfail" "never_wedged the handler did not return / operation goroutines did not drain after the client left";
      let offs = List.rev !offs in
      (* --- the reference monitor on the implementation's own outputs *)
      let ins = List.map (fun (i, _, _, _, _) -> i) parsed and outs = List.map (fun (_, o, _, _, _) -> o) parsed in
      (match monitor_check pr ins outs with
       | Inl _ -> ()
       | Inr (k, cl) ->
         let k = int_of_nat k in
         let without drop =
           let keep = List.filteri (fun j _ -> not (List.mem j drop)) parsed in
           match monitor_check pr (List.map (fun (i, _, _, _, _) -> i) keep) (List.map (fun (_, o, _, _, _) -> o) keep) with
           | Inl _ -> true | Inr _ -> false in
         let idx = List.map fst offs in
         let found = ref None in
         if List.length idx <= 14 then begin
           let size = ref 1 in
           while !found = None && !size <= List.length idx do
             (match List.find_opt without (subsets_of_size !size idx) with
              | Some d -> found := Some d | None -> ());
             incr size
           done end
         else if without idx then found := Some idx;
         let shown = (match List.nth_opt parsed k with Some (_, _, _, _, s) -> s | None -> "?") in
         (match !found with
          | None -> add "specfail" (Printf.sprintf "trace_accepted/%s step=%d input=%s cause=none" (clause_name cl) k shown)
          | Some d ->
            let causes = List.sort_uniq compare (List.map (fun j -> cause_key (List.assoc j offs)) d) in
            List.iter (fun c -> add "specfail" (Printf.sprintf "trace_accepted/%s step=%d input=%s cause=%s" (clause_name cl) k shown c)) causes));
      (* --- non-trivial: an operation was started and the sequence holds a protocol violation
             (a close) or a terminal message *)
      let started = List.exists (fun (_, _, lv, _, _) -> lv <> []) parsed in
      let terminal = List.exists (fun (_, o, _, _, _) ->
        List.exists (function OClose _ -> true | OMsg ((MError | MComplete), _) -> true | _ -> false) o) parsed in
      ignore cfg;
      if !res = [] then [("ok", if started && terminal then "nt" else "tr")] else List.rev !res
    with Bad m -> [("mismatch", "corr:C19/" ^ proto ^ " unreadable observable: " ^ m);
                   ("specfail", "trace_accepted/foreign_type unreadable observable: " ^ m ^ " cause=none")])
  | _ -> [("error", "unrecognised case")]

let () = run_lines Sys.argv.(1) Sys.argv.(2) handle
