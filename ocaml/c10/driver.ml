(* C10 driver.
   (c10spec ...)  frames written by the real engine: the extracted stream checker runs on the frame
                  summaries; the harness-side clauses (frames_whole, reconstruct, ...) are passed through.
   (c10corr ...)  a hand-built deferred plan run through the real Resolver: frame bytes of the model
                  against the implementation for the observed completion order, the stream checker
                  and the reconstruction spec on the implementation's own frames.
   (c10desc ...)  plan level: the ancestor chains of the deferred fragments of the normalised document and the
                  DeferDescriptors of the real planner: the model's defer_path against the descriptor path, and
                  the extracted checker desc_path_ok_b on the implementation's path. *)
let strs x = List.map sbytes (lst x)

let rec node_of (x : sexp) : node =
  match x with
  | L [A "str"; p; nl] -> NStr (strs p, sbool nl)
  | L [A "bool"; p; nl] -> NBool (strs p, sbool nl)
  | L [A "int"; p; nl] -> NInt (strs p, sbool nl)
  | L [A "float"; p; nl] -> NFloat (strs p, sbool nl)
  | L [A "bigint"; p; nl] -> NBigInt (strs p, sbool nl)
  | L [A "scalar"; p; nl] -> NScalar (strs p, sbool nl)
  | L [A "enum"; p; nl; S ty; vals; inacc] -> NEnum (strs p, sbool nl, bytes_of_string ty, strs vals, strs inacc)
  | L [A "null"] -> NNull
  | L [A "static"; S v] -> NStatic (bytes_of_string v)
  | L [A "emptyobj"] -> NEmptyObj
  | L [A "emptyarr"] -> NEmptyArr
  | _ -> raise (Sexp_error ("leaf: " ^ print_sexp x))

let rec dnode_of (x : sexp) : dnode =
  match x with
  | L [A "obj"; p; nl; S ty; poss; L (A "fields" :: fs)] ->
    DObj (strs p, sbool nl, bytes_of_string ty, strs poss, List.map dfield_of fs)
  | L [A "arr"; p; nl; item] -> DArr (strs p, sbool nl, dnode_of item)
  | L [A "leaf"; l] -> DLeaf (node_of l)
  | _ -> raise (Sexp_error ("dnode: " ^ print_sexp x))
and dfield_of (x : sexp) : dfield =
  match x with
  | L [A "fld"; S name; on; pon; df; v] ->
    let on' = match on with L [A "none"] -> None | L [A "some"; l] -> Some (strs l) | _ -> raise (Sexp_error "on") in
    let pon' = match pon with
      | L [A "none"] -> None
      | L (A "some" :: l) -> Some (List.map (function L [A d; names] -> (nat_of_int (int_of_string d), strs names) | _ -> raise (Sexp_error "pon")) l)
      | _ -> raise (Sexp_error "pon") in
    let df' = match df with L [A "none"] -> None | L [A "some"; A i] -> Some (n_of_int (int_of_string i)) | _ -> raise (Sexp_error "defer") in
    DFld (bytes_of_string name, on', pon', df', dnode_of v)
  | _ -> raise (Sexp_error "dfield")

let rec json_of (x : sexp) : json =
  match x with
  | L [A "n"] -> JNull
  | L [A "t"] -> JBool true
  | L [A "f"] -> JBool false
  | L [A "num"; S r] -> JNum (bytes_of_string r)
  | L [A "s"; S s] -> JStr (bytes_of_string s)
  | L (A "a" :: items) -> JArr (List.map json_of items)
  | L (A "o" :: ms) -> JObj (List.map (function L [S k; v] -> (bytes_of_string k, json_of v) | _ -> raise (Sexp_error "member")) ms)
  | _ -> raise (Sexp_error ("json: " ^ print_sexp x))

let desc_of = function
  | L [A "d"; A id; A parent; S label; path] ->
    { dd_id = n_of_int (int_of_string id); dd_parent = n_of_int (int_of_string parent);
      dd_label = bytes_of_string label; dd_path = strs path }
  | x -> raise (Sexp_error ("desc: " ^ print_sexp x))

let rec dtree_of = function
  | L [A "single"; A g] -> TSingle (n_of_int (int_of_string g))
  | L (A "seq" :: l) -> TSeq (List.map dtree_of l)
  | L (A "par" :: l) -> TPar (List.map dtree_of l)
  | x -> raise (Sexp_error ("dtree: " ^ print_sexp x))

let ids l = List.map (fun x -> n_of_int (int_of_string (atom x))) l

(* frame summaries; hasNext n (absent) is reported separately *)
let sums_of (x : sexp) : (fsum * string) list * bool =
  match x with
  | L (A "frames" :: frs) ->
    let bad = ref false in
    let l = List.filter_map (function
      | L [A "fr"; L (A "p" :: p); L (A "i" :: i); L (A "c" :: c); L [A "hn"; A hn]] ->
        Some ({ f_pending = ids p; f_incr = ids i; f_completed = ids c; f_hasnext = (hn = "t") }, hn)
      | L [A "bad"] -> bad := true; None
      | x -> raise (Sexp_error ("frame summary: " ^ print_sexp x))) frs in
    (l, !bad)
  | _ -> raise (Sexp_error "frames")

(* the protocol verdict of the extracted checker on the implementation's frames *)
let protocol_ok (sums : (fsum * string) list) (bad : bool) : bool =
  if bad then false else
  match sums with
  | [ (f, "n") ] -> f.f_pending = [] && f.f_incr = [] && f.f_completed = []     (* a plain, non-incremental response *)
  | _ -> List.for_all (fun (_, hn) -> hn <> "n") sums && stream_ok_b (List.map fst sums)

(* Flush boundaries: (flushes (fl FR...)... (foreign n)) -> per Flush the frame summaries it handed over *)
let flushes_of (x : sexp) : fsum list list * bool * int =
  match x with
  | L (A "flushes" :: l) ->
    let bad = ref false and foreign = ref 0 in
    let fl = List.filter_map (function
      | L (A "fl" :: frs) ->
        Some (List.filter_map (function
          | L [A "fr"; L (A "p" :: p); L (A "i" :: i); L (A "c" :: c); L [A "hn"; A hn]] ->
            (* an absent hasNext (a plain response) is never the final frame of a stream *)
            Some { f_pending = ids p; f_incr = ids i; f_completed = ids c; f_hasnext = (hn <> "f") }
          | L [A "bad"] -> bad := true; None
          | x -> raise (Sexp_error ("flush frame: " ^ print_sexp x))) frs)
      | L [A "foreign"; A n] -> foreign := int_of_string n; None
      | x -> raise (Sexp_error ("flush: " ^ print_sexp x))) l in
    (fl, !bad, !foreign)
  | _ -> raise (Sexp_error "flushes")

(* the verdict of the extracted checker flushes_ok_b on the implementation's Flush boundaries *)
let flushes_verdict (x : sexp) : string option =
  let (fl, bad, foreign) = flushes_of x in
  if foreign > 0 then Some (Printf.sprintf "%d writer call(s) arrived while a Flush was in progress" foreign)
  else if bad then None   (* bytes that are no JSON document: frames_whole reports them *)
  else if flushes_ok_b fl then None
  else Some (Printf.sprintf "flushes_ok_b rejects the Flush boundaries: frames per Flush [%s]"
               (String.concat ";" (List.map (fun l -> string_of_int (List.length l)) fl)))

let go_fails = function
  | L (A "go" :: l) -> List.map (function L [A clause; S detail] -> (clause, detail) | x -> raise (Sexp_error ("go: " ^ print_sexp x))) l
  | _ -> raise (Sexp_error "go")

let handle_spec (rest : sexp list) : (string * string) list =
  match rest with
  | [ _cfg; _useed; _op; _vars; _picks; frames; flushes; L [A "term"; term]; L [A "compl"; A _]; L [A "ndefer"; A _]; go; L [A "nt"; nt] ] ->
    let (sums, bad) = sums_of frames in
    let res = ref [] in
    let add s d = res := (s, d) :: !res in
    let fails = go_fails go in
    let go_protocol_failed = List.exists (fun (c, _) -> c = "stream_protocol") fails in
    let no_frames = sums = [] && not bad in
    let coq_ok = if no_frames then not go_protocol_failed else protocol_ok sums bad && sbool term in
    List.iter (fun (c, d) -> add "specfail" (c ^ " " ^ d)) fails;
    let go_flush_failed = List.exists (fun (c, _) -> c = "flush_atomic") fails in
    (match flushes_verdict flushes with
     | Some why when not go_flush_failed -> add "specfail" ("flush_atomic " ^ why)
     | None when go_flush_failed -> add "error" "the harness-side Flush check fails but flushes_ok_b accepts"
     | _ -> ());
    if (not coq_ok) && not go_protocol_failed && not go_flush_failed && not (List.exists (fun (c, _) -> c = "frames_whole") fails) then
      add "specfail" "stream_protocol the extracted checker stream_ok_b rejects the frame sequence";
    if coq_ok && go_protocol_failed then
      add "error" "the harness-side protocol check fails but stream_ok_b accepts";
    if !res = [] then [("ok", if sbool nt then "nt" else "tr")] else List.rev !res
  | _ -> [("error", "unrecognised c10spec case")]

let show_frames l = String.concat " | " l

let handle_corr (rest : sexp list) : (string * string) list =
  match rest with
  | [ L (A "descs" :: ds); L [A "tree"; tree]; L [A "root"; root]; L [A "data"; data]; L (A "trace" :: tr);
      L (A "frames" :: gframes); sums; flushes; L (A "fail" :: hardfail); L [A "window"; _window]; L [A "mode"; A _mode]; L [A "valid"; valid]; L [A "status"; A status];
      L [A "compl"; A compl]; L (A "nofetch" :: nofetch); go; L [A "recon"; recon]; L [A "mut"; S _]; L [A "panic"; S pmsg] ] ->
    let descs = List.map desc_of ds in
    let t = match tree with L [A "none"] -> None | L [A "some"; x] -> Some (dtree_of x) | _ -> raise (Sexp_error "tree") in
    let r = dnode_of root and j = json_of data in
    (* (x g): the fetch phase of g failed hard (ResolveDeferError, outside the model): such runs are not compared
       with the model; the specification still runs on the implementation's frames and Flush boundaries *)
    let failing = hardfail <> [] in
    let trace = List.filter_map (function
      | L [A "f"; A g] -> Some (AFetch (n_of_int (int_of_string g)))
      | L [A "r"; A g] -> Some (ARender (n_of_int (int_of_string g)))
      | L [A "x"; A _] -> None
      | x -> raise (Sexp_error ("action: " ^ print_sexp x))) tr in
    let res = ref [] in
    let add s d = res := (s, d) :: !res in
    let wf = defer_plan_wf descs r t in
    if sbool valid && nofetch = [] && not wf then add "error" "generator produced a plan outside defer_plan_wf";
    let gfr = List.map str gframes in
    let torn = ref false in
    (if status = "panic" then add "mismatch" ("corr:C10/panic implementation panicked: " ^ pmsg)
     else if failing then ()
     else match exec descs r t j trace with
       | None -> add "mismatch" ("corr:C10/order the observed completion order is not a run of the model LTS: " ^ print_sexp (L tr))
       | Some mframes ->
         let mfr = List.map (fun f -> if f.fr_torn then torn := true; string_of_bytes (frame_bytes f)) mframes in
         if not !torn && mfr <> gfr then
           add "mismatch" (Printf.sprintf "corr:C10/frames model=[%s] impl=[%s]" (show_frames mfr) (show_frames gfr)));
    (* on data that needs no completion the straight-line renderer of Spec.v (the one the
       reconstruction theorems are about) must give the same frames, and the client-side merge of
       its frames must give the completion of the erased plan *)
    let clean = wf && not failing && clean_b r j && strict_clean r j [] in
    (if clean && status = "ok" then begin
       let order = List.filter_map (function ARender g -> find_desc descs g | _ -> None) trace in
       let cfr = List.map (fun f -> string_of_bytes (frame_bytes f)) (c_stream descs r j order) in
       if cfr <> gfr then
         add "mismatch" (Printf.sprintf "corr:C10/clean clean=[%s] impl=[%s]" (show_frames cfr) (show_frames gfr));
       match client_result descs r j order, complete_root (fun _ _ -> false) (erase r) j with
       | Some merged, (Some expected, []) ->
         if not (jequiv_b merged expected) then
           add "mismatch" (Printf.sprintf "corr:C10/clean-merge merged=%s expected=%s"
                             (quote_string (string_of_bytes (marshal merged))) (quote_string (string_of_bytes (marshal expected))))
       | None, _ -> add "mismatch" "corr:C10/clean-merge the merge of the clean frames fails (path addresses no object)"
       | _ -> ()
     end);
    (* the specification on the implementation's own frames *)
    let (s, bad) = sums_of sums in
    let fails = go_fails go in
    let pok = protocol_ok s bad && status = "ok" && compl = "1" in
    if wf then begin
      List.iter (fun (c, d) -> add "specfail" (c ^ " " ^ d)) fails;
      let go_flush_failed = List.exists (fun (c, _) -> c = "flush_atomic") fails in
      (match flushes_verdict flushes with
       | Some why when not go_flush_failed -> add "specfail" ("flush_atomic " ^ why)
       | None when go_flush_failed -> add "error" "the harness-side Flush check fails but flushes_ok_b accepts"
       | _ -> ());
      if (not pok) && fails = [] then add "specfail" "stream_protocol stream_ok_b rejects the frame sequence";
      (* reconstruction: merge of the implementation's frames against the completion of the erased plan *)
      (* on data that needs no completion (strict_clean; __skipErrors markers suppress errors but not
         the null bubbling, so "no error reported" alone is not enough) *)
      (match (if strict_clean r j [] && not failing then complete_root (fun _ _ -> false) (erase r) j else (None, [])) with
       | (Some expected, []) ->
         (match recon with
          | L [A "some"; rj] ->
            if not (jequiv_b (json_of rj) expected) then
              add "specfail" (Printf.sprintf "reconstruct merged frames differ from the completion of the plan without defer marks: expected %s"
                                (quote_string (string_of_bytes (marshal expected))))
          | L [A "none"; S why] -> add "specfail" ("reconstruct " ^ why)
          | _ -> raise (Sexp_error "recon"))
       | _ -> ())
    end;
    let ndefer = List.length descs in
    let detail = (if ndefer >= 2 then "nt" else "tr") ^ (if wf then "" else " malformed") ^ (if !torn then " torn" else "")
                 ^ (if failing then " hardfail" else "")
                 ^ (if clean then " clean" else "") in
    if !res = [] then [("ok", detail)] else List.rev !res
  | _ -> [("error", "unrecognised c10corr case")]

(* ---- plan level: descriptor paths ---- *)
let schema_of = function
  | L (A "schema" :: tys) ->
    List.map (function
      | L (A "ty" :: S name :: fs) ->
        { td_name = bytes_of_string name;
          td_fields = List.map (function
            | L [A "f"; S n; l; S b] -> { fd_name = bytes_of_string n; fd_list = sbool l; fd_base = bytes_of_string b }
            | x -> raise (Sexp_error ("field def: " ^ print_sexp x))) fs }
      | x -> raise (Sexp_error ("type def: " ^ print_sexp x))) tys
  | x -> raise (Sexp_error ("schema: " ^ print_sexp x))

let chain_of = function
  | L (A "chain" :: l) ->
    AOther :: List.map (function
      | L [A "fld"; L [A "none"]; S n] -> AField (None, bytes_of_string n)
      | L [A "fld"; L [A "some"; S a]; S n] -> AField (Some (bytes_of_string a), bytes_of_string n)
      | L [A "frag"; S c] -> AFrag (bytes_of_string c)
      | x -> raise (Sexp_error ("ancestor: " ^ print_sexp x))) l
  | x -> raise (Sexp_error ("chain: " ^ print_sexp x))

let show_path (p : n list list) = "[" ^ String.concat "," (List.map string_of_bytes p) ^ "]"

let handle_desc (rest : sexp list) : (string * string) list =
  match rest with
  | [ _cfg; _op; _vars; schema; L [A "root"; S root]; L [A "kind"; A kind]; L (A "defers" :: ds); L (A "real" :: rs); L [A "nt"; nt] ] ->
    let sch = schema_of schema and root = bytes_of_string root in
    let res = ref [] in
    let add s d = res := (s, d) :: !res in
    let real = List.map (function
      | L [A "r"; A id; A parent; S label; L path] -> (int_of_string id, (int_of_string parent, label, List.map sbytes path))
      | x -> raise (Sexp_error ("real: " ^ print_sexp x))) rs in
    let chains = List.map (function
      | L [A "d"; A id; A parent; S label; chain; L (A "more" :: more)] ->
        (int_of_string id, (int_of_string parent, label, chain_of chain, List.map chain_of more))
      | x -> raise (Sexp_error ("defer: " ^ print_sexp x))) ds in
    if kind = "defer" then begin
      List.iter (fun (id, (parent, label, chain, more)) ->
        if not (List.for_all (chain_typed sch root) (chain :: more)) then add "error" (Printf.sprintf "descriptor %d: the ancestor chain read off the normalised document is not typed by the schema dump" id);
        match List.assoc_opt id real with
        | None -> add "mismatch" (Printf.sprintf "corr:C10/descpath no DeferDescriptor for defer id %d of the normalised document" id)
        | Some (rparent, rlabel, rpath) ->
          let all = chain :: more in
          let mpath = collector_path sch root all in
          if mpath <> rpath then
            add "mismatch" (Printf.sprintf "corr:C10/descpath id %d: model path %s, DeferDescriptor path %s" id (show_path mpath) (show_path rpath));
          if rparent <> parent || rlabel <> label then
            add "mismatch" (Printf.sprintf "corr:C10/descmeta id %d: parent/label (%d,%s) in the document, (%d,%s) in the descriptor" id parent label rparent rlabel);
          if not (desc_paths_ok_b sch root all rpath) then
            add "specfail" (Printf.sprintf "descriptor_path id %d: DeferDescriptor path %s is not the response keys up to the outermost list field %s [quirk=%s]"
                              id (show_path rpath) (show_path (spec_collector_path sch root all))
                              (if List.exists (static_gives_up sch root) all && mpath = rpath then "typed-list" else "none"));
          if not (anchor_ok_b rpath all) then begin
            let bad = List.find (fun c -> not (prefix_b rpath (candidate c))) all in
            add "specfail" (Printf.sprintf "descriptor_anchor id %d: DeferDescriptor path %s is not a prefix of the response position %s of a selection set holding fields of this defer (the subPath of its items does not compose with the pending path) [v0=%s]"
                              id (show_path rpath) (show_path (candidate bad))
                              (if collector_path_v0 sch root all = rpath then "first-occurrence" else "none"))
          end) chains;
      (* a nested defer is mounted at or below its parent: the parent's path must be a prefix of the child's
         (otherwise a dead parent anchor cancels a child that is mounted above it) *)
      List.iter (fun (id, (parent, _, chain, more)) ->
        match List.assoc_opt id real, List.assoc_opt parent real, List.assoc_opt parent chains with
        | Some (_, _, rpath), Some (_, _, ppath), Some (_, _, pchain, pmore) when parent <> 0 && parent <> id ->
          if not (prefix_b ppath rpath) then
            add "specfail" (Printf.sprintf "descriptor_parent id %d: the DeferDescriptor path %s of its parent %d is not a prefix of its own path %s (a dead parent anchor cancels this defer although it is mounted above it) [quirk=%s]"
                              id (show_path ppath) parent (show_path rpath)
                              (if collector_path sch root (chain :: more) = rpath && collector_path sch root (pchain :: pmore) = ppath then "below-mount" else "none"))
        | _ -> ()) chains;
      List.iter (fun (id, _) ->
        if not (List.mem_assoc id chains) then
          add "mismatch" (Printf.sprintf "corr:C10/descpath DeferDescriptor %d has no defer id in the normalised document" id)) real
    end;
    if !res = [] then [("ok", if sbool nt && kind = "defer" then "nt" else "tr")] else List.rev !res
  | _ -> [("error", "unrecognised c10desc case")]

let handle (x : sexp) : (string * string) list =
  match x with
  | L (A "c10spec" :: rest) -> handle_spec rest
  | L (A "c10corr" :: rest) -> handle_corr rest
  | L (A "c10desc" :: rest) -> handle_desc rest
  | _ -> [("error", "unrecognised case")]

let () = run_lines Sys.argv.(1) Sys.argv.(2) handle
