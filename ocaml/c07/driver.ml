(* C07 driver.  One case line per plan:
     (c07 (meta ..) (plan <root> (fetches (fetch id kind "ds" (path (pe (names) (types))..) (deps ..) <rep> "hdr" "ftr" (datapath (..)) (mergepath ..))..) (tree <t>))
          (prov <ptree>) (ref <json>) (oracle (root fid <json> nerr).. (ans fid "rep" <json> nerr)..)
          (runs (run (faults (fid kind)..) (st s "detail") (out "..") (valid b) (env b) (nerr n) (errs e..) (data (some j)|(none)) (draw "..") (reqs (rq fid "ds" hdr ftr (reps ..))..) (us n))..))
   The first run is the fault-free one.  Per run: the C07 spec clauses on the implementation's own
   observables, then the loader model's requests / response against them. *)
let strs x = List.map sbytes (lst x)

let rec node_of (x : sexp) : node =
  match x with
  | L [A "obj"; p; nl; S ty; poss; inacc; unres; L (A "fields" :: fs)] ->
    NObj (strs p, sbool nl, bytes_of_string ty, strs poss, strs inacc, sbool unres, List.map field_of fs)
  | L [A "arr"; p; nl; item] -> NArr (strs p, sbool nl, node_of item)
  | L [A "str"; p; nl] -> NStr (strs p, sbool nl)
  | L [A "bool"; p; nl] -> NBool (strs p, sbool nl)
  | L [A "int"; p; nl] -> NInt (strs p, sbool nl)
  | L [A "float"; p; nl] -> NFloat (strs p, sbool nl)
  | L [A "bigint"; p; nl] -> NBigInt (strs p, sbool nl)
  | L [A "scalar"; p; nl] -> NScalar (strs p, sbool nl)
  | L [A "enum"; p; nl; S ty; vals; inacc] -> NEnum (strs p, sbool nl, bytes_of_string ty, strs vals, strs inacc)
  | L [A "null"] -> NNull
  | L [A "static"; S v] -> NStatic (bytes_of_string v)
  | L [A "emptyobj"] -> NEmptyObj
  | L [A "emptyarr"] -> NEmptyArr
  | _ -> raise (Sexp_error ("node: " ^ print_sexp x))
and field_of (x : sexp) : field =
  match x with
  | L [A "fld"; S name; on; pon; auth; v] ->
    let on' = match on with L [A "none"] -> None | L [A "some"; l] -> Some (strs l) | _ -> raise (Sexp_error "on") in
    let pon' = match pon with
      | L [A "none"] -> None
      | L (A "some" :: l) -> Some (List.map (function L [A d; names] -> (nat_of_int (int_of_string d), strs names) | _ -> raise (Sexp_error "pon")) l)
      | _ -> raise (Sexp_error "pon") in
    let auth' = match auth with
      | L [A "none"] -> None
      | L [A "some"; S t; S f] -> Some { au_parent_type = bytes_of_string t; au_field = bytes_of_string f }
      | _ -> raise (Sexp_error "auth") in
    Fld (bytes_of_string name, on', pon', auth', node_of v)
  | _ -> raise (Sexp_error "field")

let rec json_of (x : sexp) : json =
  match x with
  | L [A "n"] -> JNull
  | L [A "t"] -> JBool true
  | L [A "f"] -> JBool false
  | L [A "num"; S r] -> JNum (bytes_of_string r)
  | L [A "s"; S s] -> JStr (bytes_of_string s)
  | L (A "a" :: items) -> JArr (List.map json_of items)
  | L (A "o" :: ms) -> JObj (List.map (function L [S k; v] -> (bytes_of_string k, json_of v) | _ -> raise (Sexp_error "member")) ms)
  | _ -> raise (Sexp_error ("json: " ^ print_sexp x))

let pelem_of = function
  | L [A "n"; S k] -> PName (bytes_of_string k)
  | L [A "i"; A i] -> PIdx (n_of_int (int_of_string i))
  | x -> raise (Sexp_error ("pelem: " ^ print_sexp x))

let kind_of_s = function "single" -> FSingle | "entity" -> FEntity | "batch" -> FBatch | k -> raise (Sexp_error ("kind " ^ k))

let fetch_of (x : sexp) : fetch =
  match x with
  | L [A "fetch"; A id; A kind; S ds; L (A "path" :: pes); L (A "deps" :: deps); rep; S hdr; S ftr; L [A "datapath"; L dp]; L (A "mergepath" :: mp)] ->
    { f_id = n_of_int (int_of_string id); f_kind = kind_of_s kind; f_ds = bytes_of_string ds;
      f_path = List.map (function L [A "pe"; names; types] -> { pe_path = strs names; pe_types = strs types } | _ -> raise (Sexp_error "pe")) pes;
      f_deps = List.map (fun d -> n_of_int (int_of_string (atom d))) deps;
      f_rep = node_of rep; f_header = bytes_of_string hdr; f_footer = bytes_of_string ftr;
      f_datapath = List.map pelem_of dp; f_mergepath = List.map sbytes mp }
  | _ -> raise (Sexp_error "fetch")

let rec tree_of (fs : fetch list) (x : sexp) : ftree =
  match x with
  | L [A "single"; A id] -> FTSingle (List.find (fun f -> int_of_n f.f_id = int_of_string id) fs)
  | L (A "seq" :: l) -> FTSeq (List.map (tree_of fs) l)
  | L (A "par" :: l) -> FTPar (List.map (tree_of fs) l)
  | _ -> raise (Sexp_error "tree")

let rec ptree_of (x : sexp) : ptree =
  match x with
  | L [A "pleaf"] -> PLeaf
  | L [A "parr"; t] -> PArr (ptree_of t)
  | L (A "pobj" :: fs) ->
    PObj (List.map (function L [A "pf"; S k; A fid; sub] -> ((bytes_of_string k, n_of_int (int_of_string fid)), ptree_of sub) | _ -> raise (Sexp_error "pf")) fs)
  | _ -> raise (Sexp_error "ptree")

let fault_of = function
  | "transport" -> FtTransport | "status_empty" -> FtStatusEmpty | "status_text" -> FtStatusText
  | "status_errors" -> FtStatusErrors | "empty" -> FtEmpty | "nonjson" -> FtNonJSON | "truncated" -> FtTruncated
  | "nan_body" -> FtNaNBody | "errors_nodata" -> FtErrorsNoData | "errors_nulldata" -> FtErrorsNullData
  | "nulldata" -> FtNullData | "count_less" -> FtCountLess | "count_more" -> FtCountMore
  | "status_with_data" -> FtStatusWithData | "null_entities" -> FtNullEntities | "nan_data" -> FtNaNData
  | k ->
    (* sh_<shape>[_e|_5|_e5] / it_<itemkind>[_e|_5|_e5]: the data path holds null / a wrong kind (coq/C07/Model.v FtShape, FtItems) *)
    (match String.split_on_char '_' k with
     | pre :: name :: rest when pre = "sh" || pre = "it" ->
       let (we, s5) = match rest with [] -> (false, false) | ["e"] -> (true, false) | ["5"] -> (false, true) | ["e5"] -> (true, true)
                                    | _ -> raise (Sexp_error ("fault " ^ k)) in
       if pre = "sh" then
         FtShape ((match name with "entnull" -> ShEntNull | "entobj" -> ShEntObj | "entstr" -> ShEntStr | "dataempty" -> ShDataEmpty
                                 | "datastr" -> ShDataStr | "datanum" -> ShDataNum | "dataarr" -> ShDataArr
                                 | _ -> raise (Sexp_error ("fault " ^ k))), we, s5)
       else
         FtItems ((match name with "num" -> IkNum | "str" -> IkStr | "list" -> IkList | _ -> raise (Sexp_error ("fault " ^ k))), we, s5)
     | _ -> raise (Sexp_error ("fault " ^ k)))
let is_partial (k : string) = String.length k > 8 && String.sub k 0 8 = "partial/"
(* the failure kinds after which an error must be reported: the Coq predicate [loud] of the theorems (coq/C07/Spec.v),
   on the kind of the fetch the fault hits; NaN inside data / count faults on root fetches are never generated *)
let hard_kind (fk : fkind) (k : string) =
  if is_partial k then false else
  match k with
  | "status_with_data" | "null_entities" -> false
  | "count_less" | "count_more" | "nan_data" -> true
  | _ -> loud fk (fault_of k)
(* `_entities` items / root `data` of a wrong kind: MergeValues used to fail and the resolve returned an error (repaired eb6ed70) *)
let _abort_kind (fk : fkind) (k : string) =
  (String.length k > 3 && String.sub k 0 3 = "it_") ||
  (fk = FSingle && List.exists (fun p -> String.length k >= String.length p && String.sub k 0 (String.length p) = p) ["sh_datastr"; "sh_datanum"; "sh_dataarr"])

exception Oracle_miss of string

let show_pelem = function PName n -> "(n " ^ quote_string (string_of_bytes n) ^ ")" | PIdx i -> "(i " ^ decimal_of_n i ^ ")"

(* Loader errors are compared as a multiset.  Value-completion errors are compared as a set with the
   array indices erased: batch de-duplication makes the Go data a DAG (one response entity is
   merged by pointer into several targets), so the pre-walk nulls a shared subtree once and reports
   the error for the first path only. *)
let erase_idx (s : string) : string = Str.global_replace (Str.regexp "(i [0-9]+)") "(i _)" s
let norm_errs (l : string list) : string list =
  let lo = List.filter (fun e -> String.length e > 2 && e.[1] = 'l') l in
  let v = List.sort_uniq compare (List.map erase_idx (List.filter (fun e -> String.length e > 2 && e.[1] = 'v') l)) in
  List.sort compare lo @ v
(* what a partial-data fault did: the nulled field, whether the error paths are proper, the model's fault, the failed objects *)
type pinfo = { px : string; proper : bool; pfault : pfault; failed : pelem list list }
type run = { faults : (int * string) list; status : string; detail : string; valid : bool; env : bool; nerr : int;
             errs : string list; data : json option; draw : string; reqs : request list; partials : (int * pinfo) list }

let pinfo_of (x : sexp) : int * pinfo =
  match x with
  | L [A fid; L [A "x"; S fld]; L [A "proper"; pr]; L (A "nulls" :: ns); L (A "errs" :: es); L (A "failed" :: fl)] ->
    (int_of_string fid,
     { px = fld; proper = sbool pr;
       pfault = { pf_nulls = List.map (fun k -> (n_of_int (int_of_string (atom k)), bytes_of_string fld)) ns; pf_errors = List.map json_of es };
       failed = List.map (fun l -> List.map pelem_of (lst l)) fl })
  | _ -> raise (Sexp_error "partials")

let run_of (fetches : fetch list) (x : sexp) : run =
  match x with
  | L (A "run" :: L (A "faults" :: fl) :: L [A "st"; A status; S detail] :: L [A "out"; _] :: L [A "valid"; valid] :: L [A "env"; env] ::
       L [A "nerr"; A nerr] :: L (A "errs" :: errs) :: L [A "data"; data] :: L [A "draw"; S draw] :: L (A "reqs" :: reqs) :: L [A "us"; _] :: more) ->
    let find id = List.find (fun f -> int_of_n f.f_id = id) fetches in
    { faults = List.map (function L [A fid; A k] -> (int_of_string fid, k) | _ -> raise (Sexp_error "fault")) fl;
      status; detail; valid = sbool valid; env = sbool env; nerr = int_of_string nerr;
      errs = norm_errs (List.map print_sexp errs);
      data = (match data with L [A "some"; j] -> Some (json_of j) | _ -> None);
      draw;
      partials = (match more with [L (A "partials" :: ps)] -> List.map pinfo_of ps | _ -> []);
      reqs = List.map (function
        | L [A "rq"; A fid; S ds; hdr; ftr; L (A "reps" :: reps)] ->
          let f = find (int_of_string fid) in
          { rq_fetch = f.f_id; rq_ds = bytes_of_string ds;
            rq_header = (match hdr with A "=" -> f.f_header | S h -> bytes_of_string h | _ -> []);
            rq_footer = (match ftr with A "=" -> f.f_footer | S h -> bytes_of_string h | _ -> []);
            rq_reps = List.map sbytes reps }
        | _ -> raise (Sexp_error "rq")) reqs }
  | _ -> raise (Sexp_error ("run: " ^ String.sub (print_sexp x) 0 (min 200 (String.length (print_sexp x)))))

let show_req (r : request) =
  Printf.sprintf "(rq %s %s %s)" (decimal_of_n r.rq_fetch) (quote_string (string_of_bytes r.rq_ds))
    (String.concat " " (List.map (fun b -> quote_string (string_of_bytes b)) r.rq_reps))
let req_key (r : request) =
  (int_of_n r.rq_fetch, string_of_bytes r.rq_ds, string_of_bytes r.rq_header, string_of_bytes r.rq_footer, List.map string_of_bytes r.rq_reps)

let handle (x : sexp) : (string * string) list =
  match x with
  | L (A "c07" :: L (A "meta" :: _) :: L [A "plan"; rootx; L (A "fetches" :: fxs); L [A "tree"; tx]] :: L [A "prov"; px] :: L [A "ref"; refx] ::
       L (A "oracle" :: ox) :: L (A "runs" :: rxs) :: topt) ->
    (* ResolverOptions.ValidateRequiredExternalFields and the FetchReasons (nullable @requires inputs) per fetch *)
    let (vre, coord_tab) =
      match topt with
      | [L [A "taint"; L [A "vre"; v]; L (A "coords" :: cs)]] ->
        (sbool v, List.map (function
           | L (A fid :: l) -> (int_of_string fid, List.map (function L [S t; S f] -> (bytes_of_string t, bytes_of_string f) | _ -> raise (Sexp_error "coord")) l)
           | _ -> raise (Sexp_error "coords")) cs)
      | _ -> (false, []) in
    let coords fid = match List.assoc_opt (int_of_n fid) coord_tab with Some l -> l | None -> [] in
    let root = node_of rootx in
    let fetches = List.map fetch_of fxs in
    let tree = tree_of fetches tx in
    let pt = ptree_of px in
    let ref0 = json_of refx in
    let roots = Hashtbl.create 8 and answers = Hashtbl.create 64 in
    let nerrs n = List.init (int_of_string n) (fun _ -> JObj []) in
    List.iter (function
      | L [A "root"; A fid; j; A n] -> Hashtbl.replace roots (int_of_string fid) (json_of j, nerrs n)
      | L [A "ans"; A fid; S rep; j; A n] -> Hashtbl.replace answers (int_of_string fid, rep) (json_of j, nerrs n)
      | _ -> raise (Sexp_error "oracle")) ox;
    let answer fid rep =
      match Hashtbl.find_opt answers (int_of_n fid, string_of_bytes rep) with
      | Some a -> a
      | None -> raise (Oracle_miss (Printf.sprintf "fetch %d rep %s" (int_of_n fid) (string_of_bytes rep))) in
    let root_answer fid =
      match Hashtbl.find_opt roots (int_of_n fid) with
      | Some a -> a
      | None -> raise (Oracle_miss (Printf.sprintf "root fetch %d" (int_of_n fid))) in
    let kind_of fid = (List.find (fun f -> f.f_id = fid) fetches).f_kind in
    (* a loader error names the subgraph and the path only: two fetches to one subgraph at one path are told apart by neither side *)
    let canon fid =
      match List.find_opt (fun f -> f.f_id = fid) fetches with
      | None -> fid
      | Some g -> List.fold_left (fun m f -> if f.f_ds = g.f_ds && f.f_path = g.f_path && int_of_n f.f_id < int_of_n m then f.f_id else m) fid fetches in
    let runs = List.map (run_of fetches) rxs in
    let base = List.hd runs in
    let base_fids = List.map (fun r -> int_of_n r.rq_fetch) base.reqs in
    let res = ref [] in
    let nt = ref 0 in
    (* known root causes present in a run (used by tools/props/c07.py to match KNOWN_FINDINGS keys) *)
    let contains (s : string) (sub : string) =
      let n = String.length s and m = String.length sub in
      let rec go i = i + m <= n && (String.sub s i m = sub || go (i + 1)) in go 0 in
    let causes (r : run) : string list =
      (if List.exists (fun (_, k) -> k = "status_with_data") r.faults then ["status-ignored-with-data"] else []) @
      (* a root fetch answered {"data":{..}} with status 500 and no errors entry: the same cause *)
      (if List.exists (fun (f, k) -> kind_of (n_of_int f) = FSingle && List.mem k ["sh_entnull_5"; "sh_entobj_5"; "sh_entstr_5"; "sh_dataempty_5"]) r.faults
       then ["status-ignored-with-data"] else []) @
      [] in   (* wrong-kind-data-aborts-response is repaired (eb6ed70): a return of the abort is a plain valid_response VIOLATION *)
    let add i (r : run) s d =
      let fl = String.concat "," (List.map (fun (f, k) -> Printf.sprintf "%d:%s" f k) r.faults) in
      res := (s, Printf.sprintf "%s run=%d faults=[%s] causes=[%s] %s" (List.hd (String.split_on_char ' ' d)) i fl
                   (if s = "specfail" then String.concat "," (causes r) else "")
                   (String.concat " " (List.tl (String.split_on_char ' ' d)))) :: !res in
    if not (root_wf root) then res := ("error", "generator produced a response plan outside C02 plan_wf") :: !res;
    List.iteri (fun i (r : run) ->
      let fids = List.map (fun (f, _) -> n_of_int f) r.faults in
      let aff = affected fetches fids in
      (* ---------------- spec clauses on the implementation's observables *)
      (match r.status with
       | "timeout" -> add i r "specfail" "returns no response within the time bound"
       | "panic" -> add i r "specfail" ("valid_response the resolver panicked: " ^ r.detail)
       | "error" -> add i r "specfail" ("valid_response no response, ResolveGraphQLResponse returned an error: " ^ r.detail)
       | _ ->
         if not r.valid then add i r "specfail" "valid_response the response is not valid JSON"
         else if not r.env then add i r "specfail" "valid_response the envelope is not {errors?,data}";
         let sent_fids = List.map (fun (rq : request) -> int_of_n rq.rq_fetch) r.reqs in
         let nhard = List.length (List.filter (fun (f, k) -> hard_kind (kind_of (n_of_int f)) k && List.mem f sent_fids) r.faults) in
         if r.valid && not (errors_nonempty_b (n_of_int nhard) (n_of_int r.nerr)) then
           add i r "specfail" "errors_nonempty a request failed but the response reports no error";
         (match r.data with
          | None -> if r.valid then add i r "specfail" "valid_response no data member"
          | Some dF ->
            if i = 0 then begin
              if not (affected_null_b root [] pt ref0 dF) then
                add i r "specfail" ("base_ref the fault-free response differs from the lab's reference: expected " ^
                                    quote_string (string_of_bytes (marshal (expected_data root [] pt ref0))))
            end else if r.partials = [] then begin
              (match base.data with
               | Some d0 -> if not (agree_b aff pt d0 dF) then add i r "specfail" "unaffected_equal data that depends on no failed request changed"
               | None -> ());
              if not (affected_null_b root aff pt ref0 dF) then
                add i r "specfail" ("affected_null expected " ^ quote_string (string_of_bytes (marshal (expected_data root aff pt ref0))));
              (match base.data with Some d0 -> if not (json_eqb d0 dF) then incr nt | None -> ())
            end else begin
              (* "errors with partial data": with the option on and a properly named entity, isolation at entity granularity *)
              (match r.partials, r.faults with
               | [(fid, pi)], [_] when vre && pi.proper ->
                 let order = fetches_of tree in
                 let pos g = let rec go i = function [] -> max_int | h :: t -> if h.f_id = g.f_id then i else go (i + 1) t in go 0 order in
                 let f = List.find (fun g -> int_of_n g.f_id = fid) fetches in
                 let rec prefix a b = match a, b with [], _ -> true | x :: a', y :: b' -> x = y && prefix a' b' | _ -> false in
                 let affd = affected fetches [f.f_id] in
                 let dreq = List.filter_map (fun g -> if g.f_id <> f.f_id && List.mem g.f_id affd && g.f_path = f.f_path then Some g.f_id else None) fetches in
                 let later = List.filter_map (fun g -> if not (List.mem g.f_id affd) && pos g > pos f && prefix g.f_path f.f_path then Some g.f_id else None) fetches in
                 let x = bytes_of_string pi.px in
                 if not (taint_isolated_b root pi.failed x dreq [] pt ref0 dF) then begin
                   if taint_isolated_b root pi.failed x dreq later pt ref0 dF then
                     add i r "specfail" ("taint_isolated [taint-filters-independent-fetches] expected " ^
                                         quote_string (string_of_bytes (marshal (expected_taint root pi.failed x dreq [] pt ref0))))
                   else
                     add i r "specfail" ("taint_isolated expected " ^
                                         quote_string (string_of_bytes (marshal (expected_taint root pi.failed x dreq [] pt ref0))))
                 end
               | _ -> ());
              (match base.data with Some d0 -> if not (json_eqb d0 dF) then incr nt | None -> ())
            end));
      if i > 0 && (r.partials = [] || (vre && List.for_all (fun (_, pi) -> pi.proper) r.partials)) && not (requests_subset_b base.reqs r.reqs) then
        add i r "specfail" ("requests_subset a request under the faults is not covered by a fault-free request: " ^
                            String.concat " " (List.map show_req r.reqs));
      (* ---------------- the loader model on the same plan, oracle and faults *)
      let faults fid = match List.assoc_opt (int_of_n fid) r.faults with Some k when not (is_partial k) -> Some (fault_of k) | _ -> None in
      let partials fid = match List.assoc_opt (int_of_n fid) r.partials with Some pi -> Some pi.pfault | None -> None in
      (try
        let ((s, _), _) = load_t (partial_exchange answer root_answer kind_of faults partials) (tainted_indices vre) coords tree () in
        let o = finish root s in
        let mreqs = List.sort compare (List.map req_key s.ls_reqs) and ireqs = List.sort compare (List.map req_key r.reqs) in
        if mreqs <> ireqs then
          add i r "mismatch" (Printf.sprintf "corr:C07/requests model=[%s] impl=[%s]"
                                (String.concat " " (List.map show_req s.ls_reqs)) (String.concat " " (List.map show_req r.reqs)));
        if o.o_failed then begin
          if r.status <> "error" then add i r "mismatch" ("corr:C07/response model=failed impl=" ^ r.status)
        end else if r.status <> "ok" then add i r "mismatch" ("corr:C07/response model=ok impl=" ^ r.status ^ " " ^ r.detail)
        else begin
          let mdata = string_of_bytes o.o_resolved.r_data in
          if mdata <> r.draw then
            add i r "mismatch" (Printf.sprintf "corr:C07/response data model=%s impl=%s" (quote_string mdata) (quote_string r.draw));
          let merrs =
            List.map (fun e -> if int_of_n e.le_kind = 6 then "(l 6 -1)" else Printf.sprintf "(l %s %s)" (decimal_of_n e.le_kind) (decimal_of_n (canon e.le_fetch))) o.o_lerrors
            @ List.map (fun e -> Printf.sprintf "(v %s (%s))" (decimal_of_n e.ge_kind) (String.concat " " ("path" :: List.map show_pelem e.ge_path))) o.o_resolved.r_errors in
          let merrs = norm_errs merrs in
          if r.valid && merrs <> r.errs then
            add i r "mismatch" (Printf.sprintf "corr:C07/response errors model=[%s] impl=[%s]" (String.concat " " merrs) (String.concat " " r.errs))
        end
      with Oracle_miss m -> add i r "mismatch" ("corr:C07/requests the model asks the oracle for something the implementation never asked: " ^ m))
    ) runs;
    let total = List.length runs in
    (* the theorems' hypotheses, evaluated on this plan and oracle (coverage only) *)
    let wf = (try fplan_wf kind_of tree with _ -> false) in
    let cons = (try consistent answer root_answer kind_of tree with Oracle_miss _ -> false) in
    ("ok", Printf.sprintf "%s %d %d wf=%d cons=%d" (if !nt > 0 then "nt" else "tr") !nt total (if wf then 1 else 0) (if cons then 1 else 0)) :: List.rev !res
  | _ -> [("error", "unrecognised case")]

let () = run_lines Sys.argv.(1) Sys.argv.(2) handle
