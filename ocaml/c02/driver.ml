(* C02 driver: (c02 <node> <json> (deny "T.f"...) (out raw) (data raw) (errs (e kind (path ..))..)
                 (valid b) (env b) (status s) (mut labels)) *)
let strs x = List.map sbytes (lst x)

let rec node_of (x : sexp) : node =
  match x with
  | L [A "obj"; p; nl; S ty; poss; inacc; unres; L (A "fields" :: fs)] ->
    NObj (strs p, sbool nl, bytes_of_string ty, strs poss, strs inacc, sbool unres, List.map field_of fs)
  | L [A "arr"; p; nl; item] -> NArr (strs p, sbool nl, node_of item)
  | L [A "str"; p; nl] -> NStr (strs p, sbool nl)
  (* resolve.String{IsTypeName:true}: with default options (no type renames) walkString treats it exactly like
     any String -- null test, TypeString kind test, value printed as is -- so it is the same model node *)
  | L [A "str"; p; nl; L [A "tn"]] -> NStr (strs p, sbool nl)
  | L [A "bool"; p; nl] -> NBool (strs p, sbool nl)
  | L [A "int"; p; nl] -> NInt (strs p, sbool nl)
  | L [A "float"; p; nl] -> NFloat (strs p, sbool nl)
  | L [A "bigint"; p; nl] -> NBigInt (strs p, sbool nl)
  | L [A "scalar"; p; nl] -> NScalar (strs p, sbool nl)
  | L [A "enum"; p; nl; S ty; vals; inacc] -> NEnum (strs p, sbool nl, bytes_of_string ty, strs vals, strs inacc)
  | L [A "null"] -> NNull
  | L [A "static"; S v] -> NStatic (bytes_of_string v)
  | L [A "emptyobj"] -> NEmptyObj
  | L [A "emptyarr"] -> NEmptyArr
  | _ -> raise (Sexp_error ("node: " ^ print_sexp x))
and field_of (x : sexp) : field =
  match x with
  | L [A "fld"; S name; on; pon; auth; v] ->
    let on' = match on with L [A "none"] -> None | L [A "some"; l] -> Some (strs l) | _ -> raise (Sexp_error "on") in
    let pon' = match pon with
      | L [A "none"] -> None
      | L (A "some" :: l) -> Some (List.map (function L [A d; names] -> (nat_of_int (int_of_string d), strs names) | _ -> raise (Sexp_error "pon")) l)
      | _ -> raise (Sexp_error "pon") in
    let auth' = match auth with
      | L [A "none"] -> None
      | L [A "some"; S t; S f] -> Some { au_parent_type = bytes_of_string t; au_field = bytes_of_string f }
      | _ -> raise (Sexp_error "auth") in
    Fld (bytes_of_string name, on', pon', auth', node_of v)
  | _ -> raise (Sexp_error "field")

let rec json_of (x : sexp) : json =
  match x with
  | L [A "n"] -> JNull
  | L [A "t"] -> JBool true
  | L [A "f"] -> JBool false
  | L [A "num"; S r] -> JNum (bytes_of_string r)
  | L [A "s"; S s] -> JStr (bytes_of_string s)
  | L (A "a" :: items) -> JArr (List.map json_of items)
  | L (A "o" :: ms) -> JObj (List.map (function L [S k; v] -> (bytes_of_string k, json_of v) | _ -> raise (Sexp_error "member")) ms)
  | _ -> raise (Sexp_error ("json: " ^ print_sexp x))

let show_pelem = function PName n -> "(n " ^ quote_string (string_of_bytes n) ^ ")" | PIdx i -> "(i " ^ decimal_of_n i ^ ")"
let show_err e = Printf.sprintf "(e %s (%s))" (decimal_of_n e.ge_kind) (String.concat " " ("path" :: List.map show_pelem e.ge_path))

let handle (x : sexp) : (string * string) list =
  match x with
  | L [A "c02"; tree; data; L (A "deny" :: denies); L [A "out"; S out]; L [A "data"; S idata]; L (A "errs" :: ierrs);
       L [A "valid"; valid]; L [A "env"; env]; L [A "status"; A status]; L [A "dtree"; dtree]; L [A "mut"; S mut]] ->
    let root = node_of tree and j = json_of data in
    let dl = List.map str denies in
    let deny t f = List.mem (string_of_bytes t ^ "." ^ string_of_bytes f) dl in
    let r = resolve deny root j in
    let res = ref [] in
    let add s d = res := (s, d) :: !res in
    if r.r_panic then begin
      if status <> "panic" then add "mismatch" ("corr:C02/panic model=panic impl=" ^ status)
    end else begin
      if status = "panic" then add "mismatch" "corr:C02/panic model=ok impl=panic"
      else begin
        let mdata = string_of_bytes r.r_data in
        (* After a print-walk error (unreachable inside plan_wf by resolve_refines_complete) the real walkArray
           also writes a null into the data while printing; the model's print walk is pure, so past that point
           the bytes are not tied.  Only plans outside plan_wf (overlap stream) get there, and the output is
           not JSON then (reported as render_valid_json). *)
        let untied = (not (sbool valid)) && not (root_wf root) in
        if (not untied) && mdata <> idata then add "mismatch" (Printf.sprintf "corr:C02/data model=%s impl=%s" (quote_string mdata) (quote_string idata));
        let merrs = String.concat " " (List.map show_err r.r_errors) in
        let ierrs' = String.concat " " (List.map print_sexp ierrs) in
        if merrs <> ierrs' then add "mismatch" (Printf.sprintf "corr:C02/errors model=[%s] impl=[%s]" merrs ierrs')
      end
    end;
    (* Which theorem hypotheses does the plan meet?  Inside plan_wf everything is checked.  A plan that
       violates exactly one of the two path clauses (separate streams of the harness) is still held to the
       unconditional clauses of the property -- no panic, valid JSON, envelope, type-safe data -- and a
       failure there carries a tag naming the clause, so that it is reported under its own finding key. *)
    let wf = root_wf root in
    let tag =
      if wf then ""
      else if root_wf_upto true false root then " [outside plan_wf: sibling data paths overlap]"
      else if root_wf_upto false true root then " [outside plan_wf: authorization rule on a field without a data key]"
      else "" in
    if (not wf) && tag = "" then add "error" "generator produced a plan outside plan_wf";
    (* spec on the implementation's own output *)
    if status = "panic" then add "specfail" ("no_panic renderer panicked" ^ tag);
    if status <> "panic" && not (sbool valid) then add "specfail" ("render_valid_json output is not valid JSON" ^ tag);
    if status <> "panic" && sbool valid && not (sbool env) then add "specfail" ("envelope_shape" ^ tag);
    (* the one-pass completion semantics and the independent type-safety checker, on the implementation's output *)
    let (ctree, cerrs) = complete_root deny root j in
    (match dtree with
     | L [A "some"; dt] when status <> "panic" ->
       let it = json_of dt in
       let expected = match ctree with Some t -> t | None -> JNull in
       if wf && not (json_eqb it expected) then
         add "specfail" (Printf.sprintf "complete_eq data differs from the completion semantics: expected %s" (quote_string (string_of_bytes (data_bytes ctree))));
       (match it with
        | JNull -> ()
        | _ -> if not (conforms_b root j [] it) then add "specfail" ("typesafe rendered data does not conform to the plan (kinds / exact keys)" ^ tag));
       let cerrs' = String.concat " " (List.map show_err cerrs) in
       let ierrs' = String.concat " " (List.map print_sexp ierrs) in
       if wf && cerrs' <> ierrs' then add "specfail" (Printf.sprintf "errors_eq expected [%s] got [%s]" cerrs' ierrs')
     | _ -> ());
    let nontrivial = (mut <> "" && mut <> "none") && cerrs <> [] in
    if !res = [] then [("ok", if nontrivial then "nt" else "tr")] else List.rev !res
  | _ -> [("error", "unrecognised case")]

let () = run_lines Sys.argv.(1) Sys.argv.(2) handle
