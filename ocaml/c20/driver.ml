(* C20 driver.  One input line per group:
     (c20 nt (enums ..) (resps (id M)..) (runs RUN..) (ops ".."))
   RUN = (run label raw (q ..) (vars ..) (shape SH) (out J) (svcerr b) (calls CALL..)) or a failure form.
   Verdicts:
     corr:C20/build   the model's [load] on the dumped plans + protobuf trees differs from Go's JSON
     shape/...        S1 on the implementation's JSON (spec checker conf_b)
     consistency/...  S2 between the base run and a reformulation (project + consistent_b) *)
let b s = bytes_of_string s

let rec json_of (x : sexp) : json =
  match x with
  | A "n" -> JNull | A "t" -> JBool true | A "f" -> JBool false
  | L [A "num"; S r] -> JNum (b r)
  | L [A "s"; S s] -> JStr (b s)
  | L (A "a" :: items) -> JArr (List.map json_of items)
  | L (A "o" :: members) -> JObj (List.map (function L [S k; v] -> (b k, json_of v) | y -> raise (Sexp_error ("member: " ^ print_sexp y))) members)
  | y -> raise (Sexp_error ("json: " ^ print_sexp y))

let rec show_json (j : json) : string =
  match j with
  | JNull -> "null" | JBool true -> "true" | JBool false -> "false"
  | JNum r -> string_of_bytes r
  | JStr s -> quote_string (string_of_bytes s)
  | JArr l -> "[" ^ String.concat "," (List.map show_json l) ^ "]"
  | JObj m -> "{" ^ String.concat "," (List.map (fun (k, v) -> quote_string (string_of_bytes k) ^ ":" ^ show_json v) m) ^ "}"

let scalar_of (x : sexp) : pscalar =
  match x with
  | L [A "b"; v] -> SBool (sbool v)
  | L [A "str"; S s] -> SStr (b s)
  | L [A "i32"; S s] -> SI32 (b s)
  | L [A "i64"; S s] -> SI64 (b s)
  | L [A "u"; S s] -> SUint (b s)
  | L [A "fl"; S s] -> SFloat (b s)
  | L [A "by"; S s] -> SBytes (b s)
  | L [A "en"; S e; A "none"] -> SEnum (b e, None)
  | L [A "en"; S e; S v] -> SEnum (b e, Some (b v))
  | A "other" -> SOther
  | y -> raise (Sexp_error ("scalar: " ^ print_sexp y))

let rec pmsg_of (x : sexp) : pmsg =
  match x with
  | L (A "m" :: S tn :: L oneofs :: fields) ->
    let oo = List.map (function
        | L [S n; A "none"] -> (b n, None)
        | L [S n; S f] -> (b n, Some (b f))
        | y -> raise (Sexp_error ("oneof: " ^ print_sexp y))) oneofs in
    PMsg (b tn, oo, List.map pfe_of fields)
  | y -> raise (Sexp_error ("pmsg: " ^ print_sexp y))
and pfe_of (x : sexp) : pfe =
  match x with
  | L [A "fe"; S n; A num; v] -> PFE (b n, n_of_int (int_of_string num), pfld_of v)
  | y -> raise (Sexp_error ("pfe: " ^ print_sexp y))
and pfld_of (x : sexp) : pfld =
  match x with
  | A "absent" -> FAbsent
  | L [A "sc"; s] -> FScalar (scalar_of s)
  | L [A "pm"; m] -> FMsg (pmsg_of m)
  | L (A "ls" :: items) -> FListS (List.map scalar_of items)
  | L (A "lm" :: items) -> FListM (List.map pmsg_of items)
  | y -> raise (Sexp_error ("pfld: " ^ print_sexp y))

let rec pmessage_of (x : sexp) : pmessage =
  match x with
  | L [A "msg"; S name; A oneof; L members; L (A "fields" :: fs); L (A "frags" :: frs)] ->
    let oo = (match oneof with "none" -> OneNone | "iface" -> OneIface | "union" -> OneUnion | o -> raise (Sexp_error ("oneof type " ^ o))) in
    PMessage (b name, List.map pfield_of fs,
              List.map (function L (S k :: fl) -> (b k, List.map pfield_of fl) | y -> raise (Sexp_error ("frag: " ^ print_sexp y))) frs,
              oo, List.map (fun m -> b (str m)) members)
  | y -> raise (Sexp_error ("pmessage: " ^ print_sexp y))
and pfield_of (x : sexp) : pfield =
  match x with
  | L [A "f"; S name; S alias; S jp; S st; opt; ismsg; islt; rep; md; sub] ->
    let md' = (match md with
        | A "none" -> None
        | L [A "md"; A n; L lv] -> Some (nat_of_int (int_of_string n), List.map sbool lv)
        | y -> raise (Sexp_error ("md: " ^ print_sexp y))) in
    let sub' = (match sub with A "none" -> None | m -> Some (pmessage_of m)) in
    PField ({ f_name = b name; f_alias = b alias; f_jsonpath = b jp; f_static = b st; f_optional = sbool opt;
              f_is_msg = sbool ismsg; f_is_list_type = sbool islt; f_repeated = sbool rep; f_md = md' }, sub')
  | y -> raise (Sexp_error ("pfield: " ^ print_sexp y))

let rec gtype_of (x : sexp) : gtype =
  match x with
  | L [A "nn"; t] -> GNonNull (gtype_of t)
  | L [A "l"; t] -> GList (gtype_of t)
  | L [A "ents"; L names; t] -> GEntities (List.map (fun n -> b (str n)) names, gtype_of t)
  | L [A "sc"; A n] -> GScalar (b n)
  | L (A "en" :: vs) -> GEnum (List.map (fun v -> b (str v)) vs)
  | L [A "tn"] -> GTypename
  | L [A "ob"; s] -> gsel_of s
  | y -> raise (Sexp_error ("gtype: " ^ print_sexp y))
and gsel_of (x : sexp) : gtype =
  match x with
  | L (A "sel" :: vs) ->
    GObj (List.map (function
        | L (A "v" :: L names :: fields) ->
          (List.map (fun n -> b (str n)) names,
           List.map (function
               | L (A "k" :: S k :: A uid :: t :: _) -> ((b k, n_of_int (int_of_string uid)), gtype_of t)
               | y -> raise (Sexp_error ("gfield: " ^ print_sexp y))) fields)
        | y -> raise (Sexp_error ("variant: " ^ print_sexp y))) vs)
  | y -> raise (Sexp_error ("gsel: " ^ print_sexp y))

(* S3: the projection skeleton of a shape.  Keys whose value stems from another call (field resolvers,
   @requires fields) and keys without a protobuf name are left out (not examined). *)
let examined tag = String.length tag >= 5 && String.sub tag 0 5 = "plain"
let rec ptype_of (x : sexp) : ptype =
  match x with
  | L [A "nn"; t] -> ptype_of t
  | L [A "l"; t] -> PList (ptype_of t)
  | L [A "sc"; _] | L (A "en" :: _) -> PScalar
  | L [A "ob"; s] -> psel_of s
  | _ -> PSkip
and psel_of (x : sexp) : ptype =
  match x with
  | L (A "sel" :: vs) ->
    PObj (List.map (function
        | L (A "v" :: L names :: fields) ->
          (List.map (fun n -> b (str n)) names,
           List.filter_map (function
               | L [A "k"; S k; _; t; A tag; S proto; _] when examined tag && proto <> "" -> Some ((b k, b proto), ptype_of t)
               | _ -> None) fields)
        | y -> raise (Sexp_error ("variant: " ^ print_sexp y))) vs)
  | y -> raise (Sexp_error ("psel: " ^ print_sexp y))

let show_pfail ((path, why) : (pstep list * n)) : string =
  let p = String.concat "" (List.map (function SKey k -> "." ^ string_of_bytes k | SIdx i -> "[" ^ string_of_int (int_of_nat i) ^ "]") path) in
  let w = (match int_of_n why with
      | 1 -> "service-sent-no-value-but-answer-not-null" | 2 -> "service-sent-a-value-but-answer-null"
      | 3 -> "not-a-list" | 4 -> "list-length-differs-from-service-data" | 5 -> "leaf-differs-from-service-data"
      | 6 -> "not-an-object" | _ -> "?") in
  p ^ " why=" ^ w

(* untrusted diagnosis for the detail text of an S1 failure: where and why conf_b is false *)
let rec diagnose (path : string) (t : sexp) (j : json) : string option =
  let sub t' = diagnose path t' j in
  match t, j with
  | L [A "nn"; _], JNull -> Some (path ^ " why=null-at-non-null")
  | L [A "nn"; t'], _ -> sub t'
  | _, JNull -> None
  | L [A "l"; t'], JArr items ->
    let rec go i = function [] -> None | x :: r -> (match diagnose (path ^ "[" ^ string_of_int i ^ "]") t' x with Some d -> Some d | None -> go (i + 1) r) in
    go 0 items
  | L [A "l"; _], _ -> Some (path ^ " why=not-a-list")
  | L [A "ents"; L names; t'], JArr items ->
    if List.length names <> List.length items then Some (path ^ " why=entity-count") else
    let rec go i ns is = (match ns, is with
        | S n :: ns', x :: is' ->
          let tn = (match x with JObj m -> (try (match List.assoc (bytes_of_string "__typename") m with JStr s -> string_of_bytes s | _ -> "?") with Not_found -> "?") | _ -> "?") in
          if tn <> n then Some (path ^ "[" ^ string_of_int i ^ "] why=entity-order:expected=" ^ n ^ ",got=" ^ tn)
          else (match diagnose (path ^ "[" ^ string_of_int i ^ "]") t' x with Some d -> Some d | None -> go (i + 1) ns' is')
        | _ -> None) in
    go 0 names items
  | L [A "ents"; _; _], _ -> Some (path ^ " why=not-a-list")
  | L [A "ob"; L (A "sel" :: variants)], JObj members
  | L (A "sel" :: variants), JObj members ->
    let keys = List.map (fun (k, _) -> string_of_bytes k) members in
    (* the variant sharing most keys explains the failure best *)
    (* the concrete type the object claims to be, through whatever key carries __typename *)
    let tn_keys = List.concat_map (function L (A "v" :: _ :: fields) ->
        List.filter_map (function L (A "k" :: S k :: _ :: L [A "tn"] :: _) -> Some k | _ -> None) fields | _ -> []) variants in
    let tnv = List.fold_left (fun acc k -> match acc with Some _ -> acc | None ->
        (try (match List.assoc (bytes_of_string k) members with JStr s -> Some (string_of_bytes s) | _ -> None) with Not_found -> None)) None tn_keys in
    let score v = (match v with L (A "v" :: L names :: fields) ->
        let fk = List.filter_map (function L (A "k" :: S k :: _) -> Some k | _ -> None) fields in
        let common = List.length (List.filter (fun k -> List.mem k keys) fk) in
        let missing = List.length fk - common and extra = List.length keys - common in
        let missing_calls = List.length (List.filter (function
            | L (A "k" :: S k :: _ :: _ :: A tag :: _) -> not (List.mem k keys) && String.length tag >= 5 && String.sub tag 0 5 <> "plain"
            | _ -> false) fields) in
        let tn_bonus = (match tnv with Some t when List.mem (S t) names -> 1000 | Some _ -> -1000 | None -> 0) in
        (* without a type name, a variant all of whose missing keys come from follow-up calls explains an
           object with dropped call results best *)
        let call_bonus = if extra = 0 && missing > 0 && missing_calls = missing then 100 else 0 in
        tn_bonus + call_bonus + 4 * common - missing - 2 * extra
                                | _ -> -100000) in
    let best = List.fold_left (fun acc v -> match acc with None -> Some v | Some a -> if score v > score a then Some v else acc) None variants in
    (match best with
     | Some (L (A "v" :: L names :: fields)) ->
       let fkeys = List.filter_map (function L (A "k" :: S k :: _) -> Some k | _ -> None) fields in
       let missing = List.filter_map (function L (A "k" :: S k :: _ :: _ :: rest) when not (List.mem k keys) ->
           Some (k ^ ":" ^ (match rest with A tag :: _ -> tag | _ -> "?")) | _ -> None) fields in
       let extra = List.filter (fun k -> not (List.mem k fkeys)) keys in
       let tname = String.concat "|" (List.map (function S n -> n | _ -> "?") names) in
       if missing <> [] then Some (path ^ " on=" ^ tname ^ " why=missing-key:" ^ String.concat "," missing)
       else if extra <> [] then Some (path ^ " on=" ^ tname ^ " why=extra-key:" ^ String.concat "," extra)
       else if List.length (List.sort_uniq compare keys) <> List.length keys then Some (path ^ " why=duplicate-key")
       else
         let rec go = function
           | [] -> None
           | L (A "k" :: S k :: _ :: ft :: _) :: r ->
             (match (try Some (List.assoc (bytes_of_string k) members) with Not_found -> None) with
              | Some v -> (match diagnose (path ^ "." ^ k) ft v with Some d -> Some d | None -> go r)
              | None -> go r)
           | _ :: r -> go r in
         go fields
     | _ -> Some (path ^ " why=no-variant"))
  | L [A "ob"; _], _ | L (A "sel" :: _), _ -> Some (path ^ " why=not-an-object")
  | L [A "tn"], JStr _ -> None
  | L [A "tn"], _ -> Some (path ^ " why=typename-kind")
  | L [A "sc"; A n], _ ->
    let ok = (match n, j with
        | "String", JStr _ | "ID", JStr _ | "ID", JNum _ | "Int", JNum _ | "Float", JNum _ | "Boolean", JBool _ -> true
        | ("String" | "ID" | "Int" | "Float" | "Boolean"), _ -> false
        | _ -> true) in
    if ok then None else Some (path ^ " why=scalar-kind:" ^ n)
  | L (A "en" :: _), JStr _ -> None
  | L (A "en" :: _), _ -> Some (path ^ " why=enum-kind")
  | _ -> None

let enums_of (x : sexp) : (n list * (n list * n list) list) list =
  match x with
  | L (A "enums" :: es) ->
    List.map (function
        | L (S name :: vs) -> (b name, List.map (function L [S g; S t] -> (b g, b t) | y -> raise (Sexp_error ("enum value: " ^ print_sexp y))) vs)
        | y -> raise (Sexp_error ("enum: " ^ print_sexp y))) es
  | y -> raise (Sexp_error ("enums: " ^ print_sexp y))

let find_field name items =
  let rec go = function
    | [] -> None
    | (L (A n :: rest)) :: _ when n = name -> Some rest
    | _ :: r -> go r in
  go items

let show_err = function
  | EOneofMissing -> "EOneofMissing" | EOneofUnset -> "EOneofUnset" | EListMeta -> "EListMeta" | EListLevels -> "EListLevels"
  | ENonNullList -> "ENonNullList" | EFieldNum1 -> "EFieldNum1" | ENotMessage -> "ENotMessage" | ENotList -> "ENotList"
  | EOptionalValue -> "EOptionalValue" | EMergeTypes -> "EMergeTypes" | EMergeLen -> "EMergeLen" | EPathEmpty -> "EPathEmpty"
  | ENotFound -> "ENotFound" | EExpected -> "EExpected" | ELenMismatch -> "ELenMismatch" | EEntityCount -> "EEntityCount"
  | EPanic -> "EPanic"

(* the wording json_builder.go / astjson use for the model's error classes *)
let err_text = function
  | EOneofMissing | EOneofUnset -> ["unable to build response JSON: oneof"]
  | EListMeta -> ["list metadata not found"] | EListLevels -> ["nesting level data does not match"]
  | ENonNullList -> ["cannot add null item to response for non nullable list"]
  | EFieldNum1 -> ["field with number"] | ENotMessage -> ["is not a message"] | ENotList -> ["is not a list"]
  | EOptionalValue -> ["unable to resolve optional field"]
  | EMergeTypes -> ["cannot merge different types"] | EMergeLen -> ["cannot merge arrays of differing lengths"]
  | EPathEmpty -> ["path is empty"] | ENotFound -> ["not found in object"] | EExpected -> ["expected array or object"]
  | ELenMismatch -> ["length of values doesn't match"]
  | EEntityCount -> ["entities in the subgraph response"; "validateEntityResponse"]
  | EPanic -> ["panic"]
let contains (s : string) (sub : string) : bool =
  let n = String.length s and m = String.length sub in
  let rec go i = i + m <= n && (String.sub s i m = sub || go (i + 1)) in go 0

let clip n s = if String.length s > n then String.sub s 0 n ^ "..." else s

let jdata (j : json) : json option =
  match j with JObj m -> (try Some (List.assoc (b "data") m) with Not_found -> None) | _ -> None
let jerrors (j : json) : string option =
  match j with
  | JObj m ->
    (match (try Some (List.assoc (b "errors") m) with Not_found -> None) with
     | Some (JArr (JObj e :: _)) ->
       (match (try Some (List.assoc (b "message") e) with Not_found -> None) with
        | Some (JStr s) -> Some (string_of_bytes s) | _ -> Some "?")
     | Some _ -> Some "?"
     | None -> None)
  | _ -> None

type runinfo = { label : string; q : string; shape : gtype option; data : json option }

let handle (x : sexp) : (string * string) list =
  match x with
  | L [A (("c20" | "c20m") as kind); nt; enums; L (A "resps" :: resps); L (A "runs" :: runs); _ops] ->
    (* c20m: the service's answers were perturbed; S1 is not applicable (absence is the service's data) *)
    let check_s1 = (kind = "c20") in
    let em = enums_of enums in
    let resp_tbl = Hashtbl.create 16 in
    List.iter (function
        | L [A id; m] -> Hashtbl.replace resp_tbl (int_of_string id) (lazy (pmsg_of m))
        | y -> raise (Sexp_error ("resp: " ^ print_sexp y))) resps;
    let res = ref [] in
    let s3n = ref 0 in   (* root keys / entities whose value was compared with the service's datum (S3) *)
    let add st d = res := (st, d) :: !res in
    let infos = List.map (fun run ->
        match run with
        | L (A "run" :: S label :: _raw :: rest) ->
          let q = (match find_field "q" rest with Some [S q] -> q | _ -> "?") in
          let shape_sx0 = (match find_field "shape" rest with Some [s] -> Some s | _ -> None) in
          (* position contexts of the field-resolver / @requires fields of this run (for classification) *)
          let tags = (match shape_sx0 with
              | None -> []
              | Some s ->
                let acc = ref [] in
                let rec walk = function
                  | L (A "k" :: _ :: _ :: t :: A tag :: _) ->
                    if String.length tag >= 8 && (String.sub tag 0 8 = "resolver" || String.sub tag 0 8 = "requires") && not (List.mem tag !acc) then acc := tag :: !acc;
                    walk t
                  | L l -> List.iter walk l
                  | _ -> () in
                walk s; List.sort compare !acc) in
          let feat = (match find_field "feat" rest with Some [A f] -> f | _ -> "none") in
          let ctx = Printf.sprintf " feat=%s tags=%s run=%s q=%s" feat (String.concat "," tags) (quote_string label) (quote_string (clip 600 q)) in
          let shape_sx = (match find_field "shape" rest with Some [s] -> Some s | _ -> None) in
          let shape = (match shape_sx with Some s -> Some (gsel_of s) | None -> None) in
          let info = { label; q; shape; data = None } in
          (match find_field "invalid" rest with
           | Some [S m] -> add "error" ("generator produced an invalid operation: " ^ clip 300 m ^ ctx); info
           | _ ->
           match find_field "planerr" rest with
           | Some [S m] -> add "specfail" ("shape/plan-error msg=" ^ quote_string (clip 200 m) ^ ctx); info
           | _ ->
           match find_field "loaderr" rest with
           | Some [S m] -> add "specfail" ("total/load-panic msg=" ^ quote_string (clip 200 m) ^ ctx); info
           | _ ->
           match find_field "badjson" rest with
           | Some _ -> add "specfail" ("shape/invalid-json" ^ ctx); info
           | _ ->
           match find_field "out" rest with
           | None -> add "error" ("run without outcome" ^ ctx); info
           | Some [jo] ->
             let j = json_of jo in
             let rcalls = ref [] in
             let svcerr = (match find_field "svcerr" rest with Some [v] -> sbool v | _ -> false) in
             let errs = jerrors j in
             (* model tie *)
             (match find_field "calls" rest with
              | None ->
                (match find_field "nocalls" rest with
                 | Some [S m] -> if errs = None then add "mismatch" ("corr:C20/build shadow execution failed but Load succeeded: " ^ clip 200 m ^ ctx)
                 | _ -> add "error" ("run without calls" ^ ctx))
              | Some calls ->
                let cs = List.map (function
                    | L [A "call"; A kind; L path; plan; A id; L idx; A nreps; S meth; ents] ->
                      rcalls := (kind, meth, int_of_string id, List.map (fun i -> int_of_string (atom i)) idx) :: !rcalls;
                      { c_kind = (match kind with "std" -> CStd | "entity" -> CEntity | "resolve" -> CResolve | "required" -> CRequired
                                                | k -> raise (Sexp_error ("call kind " ^ k)));
                        c_path = List.map (fun p -> b (str p)) path;
                        c_plan = pmessage_of plan;
                        c_resp = Lazy.force (Hashtbl.find resp_tbl (int_of_string id));
                        c_idx = List.map (fun i -> nat_of_int (int_of_string (atom i))) idx;
                        c_nreps = nat_of_int (int_of_string nreps);
                        c_ents = (match ents with
                            | L (A "ents" :: pos) -> Some (List.map (fun i -> nat_of_int (int_of_string (atom i))) pos)
                            | _ -> None) }
                    | y -> raise (Sexp_error ("call: " ^ clip 200 (print_sexp y)))) calls in
                (match load em cs, errs with
                 | Ok mj, None ->
                   if not (json_eqb mj j) then
                     add "mismatch" (Printf.sprintf "corr:C20/build impl=%s model=%s%s" (clip 700 (show_json j)) (clip 700 (show_json mj)) ctx)
                 | Err e, Some m ->
                   (* Load marshals the calls of a batch concurrently and reports whichever error comes
                      first, before merging; the model merges call by call: accept any call's marshal error *)
                   let es = e :: List.filter_map (fun c -> match marshal em c.c_plan c.c_resp with Err x -> Some x | Ok _ -> None) cs in
                   if not svcerr && not (List.exists (fun x -> List.exists (contains m) (err_text x)) es) then
                     add "mismatch" (Printf.sprintf "corr:C20/build impl=errors(%s) model=Err %s%s" (clip 200 m) (show_err e) ctx)
                 | Ok mj, Some m ->
                   if not svcerr then add "mismatch" (Printf.sprintf "corr:C20/build impl=errors(%s) model=%s%s" (clip 200 m) (clip 500 (show_json mj)) ctx)
                 | Err e, None ->
                   add "mismatch" (Printf.sprintf "corr:C20/build impl=%s model=Err %s%s" (clip 500 (show_json j)) (show_err e) ctx)));
             (* S1 on the implementation's output *)
             (match errs with
              | Some m ->
                if check_s1 && not svcerr then add "specfail" ("shape/errors msg=" ^ quote_string (clip 200 m) ^ ctx);
                info
              | None ->
                (match jdata j, shape with
                 | Some d, Some sh ->
                   if check_s1 && not (conf_b sh d) then
                     add "specfail" (Printf.sprintf "shape/mismatch at=%s out=%s%s"
                                       (match shape_sx with Some s -> (match diagnose "$" s d with Some x -> x | None -> "? why=?") | None -> "?")
                                       (clip 900 (show_json d)) ctx);
                   (* S3 on the implementation's output: every root key against the answer of its RPC, every
                      entity against the item of its lookup's answer *)
                   (match shape_sx, d with
                    | Some (L (A "sel" :: L (A "v" :: _ :: entries) :: _)), JObj members ->
                      let calls = List.rev !rcalls in
                      let resp id = Lazy.force (Hashtbl.find resp_tbl id) in
                      List.iter (function
                          | L [A "k"; S key; _; L [A "ents"; _; item]; _; _; _] ->
                            (match (try Some (List.assoc (b key) members) with Not_found -> None) with
                             | Some (JArr ents) ->
                               let pt = ptype_of item in
                               List.iter (fun (kind, _, id, idx) ->
                                   if kind = "entity" then
                                     (match field_by_name (b "result") (resp id) with
                                      | Some (FListM ms) when List.length ms = List.length idx ->
                                        List.iter2 (fun m pos ->
                                            if pos < List.length ents then
                                              (incr s3n; match proj_chk em pt (FMsg m) (List.nth ents pos) with
                                               | Some f -> add "specfail" (Printf.sprintf "projection/mismatch at=$.%s[%d]%s out=%s%s" key pos (show_pfail f) (clip 900 (show_json d)) ctx)
                                               | None -> ())) ms idx
                                      | _ -> ())) calls
                             | _ -> ())
                          | L [A "k"; S key; _; t; A tag; S proto; S rpc] when rpc <> "" && examined tag ->
                            (match (try Some (List.assoc (b key) members) with Not_found -> None) with
                             | Some jv ->
                               let pt = ptype_of t in
                               let cands = List.filter_map (fun (kind, meth, id, _) ->
                                   if kind = "std" && meth = rpc then
                                     (match field_by_name (b proto) (resp id) with Some fv -> Some (proj_chk em pt fv jv) | None -> None)
                                   else None) calls in
                               (* two root fields may go to the same RPC with other arguments: the value must be the
                                  projection of one of the answers *)
                               if cands <> [] then incr s3n;
                               if cands <> [] && not (List.mem None cands) then
                                 (match List.hd cands with
                                  | Some f -> add "specfail" (Printf.sprintf "projection/mismatch at=$.%s%s out=%s%s" key (show_pfail f) (clip 900 (show_json d)) ctx)
                                  | None -> ())
                             | None -> ())
                          | _ -> ()) entries
                    | _ -> ());
                   { info with data = Some d }
                 | None, _ -> add "specfail" ("shape/no-data" ^ ctx); info
                 | _, None -> add "error" ("no shape" ^ ctx); info))
           | Some _ -> add "error" ("bad out" ^ ctx); info)
        | y -> raise (Sexp_error ("run: " ^ clip 200 (print_sexp y)))) runs in
    (* S2: base against every reformulation, and every run against itself (duplicated fields) *)
    (match infos with
     | [] -> ()
     | base :: others ->
       let proj i = (match i.shape, i.data with Some sh, Some d -> Some (project sh d) | _ -> None) in
       let pb = proj base in
       (match pb with Some c -> if not (consistent_b c c) then add "specfail" ("consistency/self run=" ^ quote_string base.label ^ " q=" ^ quote_string (clip 600 base.q)) | None -> ());
       List.iter (fun o ->
           match pb, proj o with
           | Some c0, Some c1 ->
             if not (consistent_b c1 c1) then add "specfail" ("consistency/self run=" ^ quote_string o.label ^ " q=" ^ quote_string (clip 600 o.q));
             if not (consistent_b c0 c1) then
               add "specfail" (Printf.sprintf "consistency/%s base_q=%s q=%s base_out=%s out=%s" o.label (quote_string (clip 500 base.q)) (quote_string (clip 500 o.q))
                                 (clip 500 (match base.data with Some d -> show_json d | None -> "")) (clip 500 (match o.data with Some d -> show_json d | None -> "")))
           | _ -> ()) others);
    if !res = [] then [("ok", (if sbool nt then "nt" else "tr") ^ " s3=" ^ string_of_int !s3n)] else List.rev !res
  | _ -> [("error", "unrecognised case")]

let () = run_lines Sys.argv.(1) Sys.argv.(2) handle
