(* include: gqlread *)
(* model_exec: line-protocol server around the extracted reference executor (see FEDLAB.md). *)
let rec fval_of (x : sexp) : fval =
  match x with
  | L [A "sc"; j] -> FSc (json_of j)
  | L [A "ref"; S t; S k] -> FRef (b t, b k)
  | L [A "nullref"] -> FNullRef
  | L (A "lst" :: l) -> FLst (List.map fval_of l)
  | L [A "err"] -> FErr
  | L [A "echo"] -> FEcho
  | L [A "lookup"; S t; S a] -> FLookup (b t, b a)
  | L (A "req" :: fs) -> FReq (List.map (fun f -> b (str f)) fs)
  | _ -> raise (Sexp_error ("fval: " ^ print_sexp x))
let universe_of = function
  | L (A "universe" :: es) ->
    List.map (function
        | L (A "ent" :: S t :: S k :: fvs) ->
          { en_type = b t; en_key = b k;
            en_fields = List.map (function L [A "fv"; S f; v] -> (b f, fval_of v) | x -> raise (Sexp_error ("fv: " ^ print_sexp x))) fvs }
        | x -> raise (Sexp_error ("entity: " ^ print_sexp x))) es
  | x -> raise (Sexp_error ("universe: " ^ print_sexp x))

let show_pel = function PN n -> quote_string (string_of_bytes n) | PI i -> decimal_of_n i
let show_err = function
  | XErr p -> "(path " ^ String.concat " " (List.map show_pel p) ^ ")"
  | XInvalid r -> "(invalid " ^ quote_string (string_of_bytes r) ^ ")"
  | XOutOfFuel -> "(outoffuel)"

let defs : (string, schema * universe) Hashtbl.t = Hashtbl.create 16

let handle_line (line : string) : string =
  try
    match parse_sexp line with
    | L [A "def"; A id; sch; uni] -> Hashtbl.replace defs id (schema_of sch, universe_of uni); "(ok)"
    | L [A "undef"; A id] -> Hashtbl.remove defs id; "(ok)"
    | L [A "exec"; A id; A m; doc; opname; vars] ->
      (match Hashtbl.find_opt defs id with
       | None -> "(error \"unknown id\")"
       | Some (s, u) ->
         let md = match m with "mono" -> Mono | "sub" -> Sub | _ -> raise (Sexp_error "mode") in
         let r = execute_default s u md (doc_of doc) (opt_name opname) (json_of vars) in
         let invalid = List.exists (function XInvalid _ | XOutOfFuel -> true | _ -> false) r.rs_errs in
         if invalid then
           Printf.sprintf "(res (n) 1 (errpaths %s))" (String.concat " " (List.map show_err (List.filter (function XErr _ -> false | _ -> true) r.rs_errs)))
         else
           Printf.sprintf "(res %s %d (errpaths %s))" (sexp_of_json r.rs_data) (List.length r.rs_errs)
             (String.concat " " (List.map show_err r.rs_errs)))
    | _ -> "(error \"unrecognised request\")"
  with
  | Sexp_error m -> "(error " ^ quote_string ("sexp: " ^ m) ^ ")"
  | Stack_overflow -> "(error \"stack overflow\")"
  | Not_found -> "(error \"not found\")"
  | Failure m -> "(error " ^ quote_string m ^ ")"

let () =
  if Array.length Sys.argv > 1 && Sys.argv.(1) = "--version" then (print_endline "model_exec 1"; exit 0);
  try
    while true do
      let line = input_line stdin in
      if String.length line > 0 then begin
        print_string (handle_line line); print_char '\n'; flush stdout
      end
    done
  with End_of_file -> ()
