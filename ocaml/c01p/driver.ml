(* include: gqlread *)
(* C01p driver: translation validation of REAL plans.

   One input line = one (configuration, operation) pair as written by `c01p gen`: the configuration
   (supergraph, subgraph schemas, declared keys, declared @requires), the operation the planner saw
   (normalised, variables extracted), the real plan (fetch tree dump) and end-to-end runs on a few
   universes (every subgraph request the engine sent, its response, the gateway response, the
   monolithic reference).

   Per pair:
   1. classify: is the (operation, plan) inside the fragment of the plan theorem?  If not: which feature.
   2. translate the real plan to the Coq plan form [dfield2 list] (UNTRUSTED: any mistake shows up in 3/4).
   3. check the translation: (a) [client_doc ds2] is the planner's operation, verbatim;
      (b) the requests the model sends for the plan ([model_requests]) are the real plan's requests
      modulo printing (canonical form below); (c) per run, the real requests / representations are
      the model's, and the extracted [run_plan] on the run's universe returns the gateway's data.
   4. evaluate the verified validator [tv_static_b] on it; check [univ_contract_b] on the universes.

   verdict lines: ok / specfail / mismatch with an S-expression detail (see tools/props/c01p.py). *)

exception Outside of string          (* outside the fragment: feature name *)
exception Translate of string        (* inside the fragment by shape, but the translation failed *)

let bs = bytes_of_string
let sb = string_of_bytes

(* ---------------------------------------------------------------- universe reader (as model_exec) *)
let rec fval_of (x : sexp) : fval =
  match x with
  | L [A "sc"; j] -> FSc (json_of j)
  | L [A "ref"; S t; S k] -> FRef (b t, b k)
  | L [A "nullref"] -> FNullRef
  | L (A "lst" :: l) -> FLst (List.map fval_of l)
  | L [A "err"] -> FErr
  | L [A "echo"] -> FEcho
  | L [A "lookup"; S t; S a] -> FLookup (b t, b a)
  | L (A "req" :: fs) -> FReq (List.map (fun f -> b (str f)) fs)
  | _ -> raise (Sexp_error ("fval: " ^ print_sexp x))
let universe_of = function
  | L (A "universe" :: es) ->
    List.map (function
        | L (A "ent" :: S t :: S k :: fvs) ->
          { en_type = b t; en_key = b k;
            en_fields = List.map (function L [A "fv"; S f; v] -> (b f, fval_of v) | x -> raise (Sexp_error ("fv: " ^ print_sexp x))) fvs }
        | x -> raise (Sexp_error ("entity: " ^ print_sexp x))) es
  | x -> raise (Sexp_error ("universe: " ^ print_sexp x))

(* ---------------------------------------------------------------- canonical form of requests ("modulo printing")
   A selection set is compared as the SET of its canonical selections (duplicates of an identical
   selection and the order inside a selection set do not change what a subgraph is asked for, only
   the member order of its answer); variable definitions are restricted to the variables used. *)
let rec show_value (v : value) : string =
  match v with
  | VVar n -> "$" ^ sb n
  | VInt r -> "i" ^ sb r
  | VFloat r -> "f" ^ sb r
  | VStr (r, _) -> "s" ^ quote_string (sb r)
  | VBool true -> "true" | VBool false -> "false"
  | VNull -> "null"
  | VEnum n -> "e" ^ sb n
  | VList l -> "[" ^ String.concat "," (List.map show_value l) ^ "]"
  | VObj fs -> "{" ^ String.concat "," (List.map (fun (k, x) -> sb k ^ ":" ^ show_value x) fs) ^ "}"
let show_args (a : argument list) = "(" ^ String.concat "," (List.map (fun (k, v) -> sb k ^ ":" ^ show_value v) a) ^ ")"
let show_dirs (d : directive list) = String.concat "" (List.map (fun x -> "@" ^ sb x.d_name ^ show_args x.d_args) d)
let rec canon_sel (s : selection) : string =
  match s with
  | SField (a, n, args, dirs, ss) ->
    (match a with Some x -> sb x ^ ":" | None -> "") ^ sb n ^ show_args args ^ show_dirs dirs ^ canon_sels ss
  | SInline (c, dirs, ss) -> "...on " ^ (match c with Some x -> sb x | None -> "") ^ show_dirs dirs ^ canon_sels ss
  | SSpread (n, dirs) -> "..." ^ sb n ^ show_dirs dirs
and canon_sels (l : selection list) : string =
  if l = [] then "" else "{" ^ String.concat " " (List.sort_uniq compare (List.map canon_sel l)) ^ "}"
let rec value_vars (v : value) : string list =
  match v with
  | VVar n -> [sb n]
  | VList l -> List.concat_map value_vars l
  | VObj fs -> List.concat_map (fun (_, x) -> value_vars x) fs
  | _ -> []
let rec sel_vars (s : selection) : string list =
  let av a = List.concat_map (fun (_, v) -> value_vars v) a in
  let dv d = List.concat_map (fun x -> av x.d_args) d in
  match s with
  | SField (_, _, args, dirs, ss) -> av args @ dv dirs @ List.concat_map sel_vars ss
  | SInline (_, dirs, ss) -> dv dirs @ List.concat_map sel_vars ss
  | SSpread (_, dirs) -> dv dirs
let rec show_ty = function TNamed n -> sb n | TList t -> "[" ^ show_ty t ^ "]" | TNonNull t -> show_ty t ^ "!"
let canon_doc (d : document) : string =
  String.concat " ; " (List.map (function
      | DOp o ->
        let used = List.concat_map sel_vars o.op_sels in
        let vds = List.filter (fun vd -> List.mem (sb vd.vd_name) used) o.op_vars in
        let vds = List.sort compare (List.map (fun vd -> "$" ^ sb vd.vd_name ^ ":" ^ show_ty vd.vd_type ^
                                                         (match vd.vd_default with Some v -> "=" ^ show_value v | None -> "")) vds) in
        (match o.op_kind with OpQuery -> "query" | OpMutation -> "mutation" | OpSubscription -> "subscription") ^
        "(" ^ String.concat "," vds ^ ")" ^ show_dirs o.op_dirs ^ canon_sels o.op_sels
      | DFrag f -> "fragment " ^ sb f.fr_name ^ " on " ^ sb f.fr_type ^ canon_sels f.fr_sels) d)

(* unordered JSON equality (object member order is not part of a JSON value) *)
let rec json_ueq (a : json) (c : json) : bool =
  match a, c with
  | JObj m, JObj m' ->
    List.length m = List.length m' &&
    List.for_all (fun (k, v) -> match List.assoc_opt k m' with Some v' -> json_ueq v v' | None -> false) m
  | JArr l, JArr l' -> List.length l = List.length l' && List.for_all2 json_ueq l l'
  | _, _ -> json_eqb a c

(* ---------------------------------------------------------------- the real plan *)
type node =
  | NObj of string list * bool * string * (string * string list option * node) list   (* path, nullable, type, fields (name, on, value) *)
  | NArr of string list * bool * node
  | NLeaf of string * string list * bool
  | NOther of string

let strs x = List.map str (lst x)
let rec node_of (x : sexp) : node =
  match x with
  | L (A "obj" :: p :: nl :: S tn :: _poss :: flds) ->
    NObj (strs p, sbool nl, tn,
          List.map (function
              | L [A "fld"; S n; on; _pon; v] ->
                let on = match on with L [A "on"; l] -> Some (strs l) | _ -> None in
                (n, on, node_of v)
              | y -> raise (Sexp_error ("fld: " ^ print_sexp y))) flds)
  | L [A "arr"; p; nl; it] -> NArr (strs p, sbool nl, node_of it)
  | L [A "leaf"; A k; p; nl] -> NLeaf (k, strs p, sbool nl)
  | _ -> NOther (print_sexp x)

type rfetch = {
  f_id : int; f_deps : int list; f_kind : string; f_sub : string; f_path : string;
  f_fetchpath : (string * string list * string list) list;
  f_query : string; f_doc : document option; f_varstext : string;
  f_reprs : sexp list;   (* (tmpl b seg...) *)
}

let fetch_of (x : sexp) : rfetch =
  match x with
  | L [A "fetch"; A id; L deps; A kind; S sub; S path; L (A "fetchpath" :: fp); S q; doc; S vt; L (A "reprs" :: reprs); _dp; _mp; _flags] ->
    { f_id = int_of_string id; f_deps = List.map (fun d -> int_of_string (atom d)) deps; f_kind = kind; f_sub = sub; f_path = path;
      f_fetchpath = List.map (function L [A k; p; t] -> (k, strs p, strs t) | y -> raise (Sexp_error ("fetchpath: " ^ print_sexp y))) fp;
      f_query = q; f_doc = (match doc with L (A "doc" :: _) -> Some (doc_of doc) | _ -> None); f_varstext = vt; f_reprs = reprs }
  | _ -> raise (Sexp_error ("fetch: " ^ print_sexp x))

type request = { r_idx : int; r_sub : string; r_doc : document option; r_vars : json; r_resp : json }
type run = { u_idx : int; u_uni : universe; u_reqs : request list; u_gw : json; u_gwerr : int; u_mono : json; u_monoerr : int }

(* ---------------------------------------------------------------- helpers on the schema *)
let find_type_s (sc : schema) (n : string) = List.find_opt (fun td -> sb td.td_name = n) sc.s_types
let field_type (sc : schema) (tyname : string) (f : string) : ty option =
  match find_type_s sc tyname with
  | Some td -> (match List.find_opt (fun fd -> sb fd.fd_name = f) td.td_fields with Some fd -> Some fd.fd_type | None -> None)
  | None -> None

let response_key a n = match a with Some x -> sb x | None -> sb n

(* ---------------------------------------------------------------- translation  real plan -> dfield2 list *)
type translated = {
  t_vds : vardef list; t_sup : (bytes * json) list; t_sc0 : schema; t_sc0name : string; t_tn : bool;
  t_ds2 : dfield2 list; t_root : rfetch; t_ents : (string * rfetch) list; t_nontrivial : bool;
}

(* the entity request:  query($representations: [_Any!]!, ...){_entities(representations: $representations){... on T {sel}}} *)
let entity_doc_parts (d : document) : string * selection list =
  match d with
  | [DOp { op_kind = OpQuery; op_sels = [SField (None, n, [(an, VVar vn)], [], inner)]; _ }]
    when sb n = "_entities" && sb an = "representations" && sb vn = "representations" ->
    (match inner with
     | [SInline (Some t, [], sel)] -> (sb t, sel)
     | _ :: _ :: _ -> raise (Outside "abstract_entity_fetch")
     | _ -> raise (Outside "entity_doc_shape"))
  | _ -> raise (Outside "entity_doc_shape")

(* the representation template: one resolve segment, an object of leaves *)
let repr_fields (f : rfetch) (t : string) : string list =
  match f.f_reprs with
  | [L (A "tmpl" :: _ :: segs)] ->
    (match List.filter (function L [A "resolve"; _] -> true | _ -> false) segs with
     | [L [A "resolve"; nd]] ->
       (match node_of nd with
        | NObj (_, _, _, flds) ->
          List.map (fun (n, on, v) ->
              (match on with Some [t'] when t' = t -> () | Some _ -> raise (Outside "abstract_representation") | None -> ());
              (match v with
               | NLeaf (_, [p], _) when p = n -> n
               | NLeaf _ -> raise (Outside "representation_path")
               | NObj _ -> raise (Outside "nested_key")
               | _ -> raise (Outside "representation_shape"))) flds
        | _ -> raise (Outside "representation_shape"))
     | _ -> raise (Outside "representation_shape"))
  | _ -> raise (Outside "representation_shape")

let translate (super : schema) (subs : (string * schema) list) (op : document) (vars : json) (fetches : rfetch list) : translated =
  let o = match op with
    | [DOp o] -> o
    | _ -> raise (Outside "op_shape") in
  if o.op_kind <> OpQuery then raise (Outside "op_kind");
  let rec internal (s : selection) = match s with
    | SField (Some a, _, _, _, ss) -> (String.length (sb a) >= 10 && String.sub (sb a) 0 10 = "__internal") || List.exists internal ss
    | SField (None, _, _, _, ss) | SInline (_, _, ss) -> List.exists internal ss
    | SSpread _ -> false in
  if List.exists internal o.op_sels then raise (Outside "internal_typename_placeholder");
  if o.op_dirs <> [] then raise (Outside "op_directive");
  let sup = match vars with JObj m -> m | _ -> [] in
  (* fetch kinds; every feature of the plan outside the fragment is reported, not only the first *)
  let feats = ref [] in
  let feat f = if not (List.mem f !feats) then feats := f :: !feats in
  List.iter (fun f ->
      match f.f_kind with
      | "single" | "entity" -> ()
      | "batch" -> feat "list_entity_fetch"
      | k -> feat ("fetch_kind:" ^ k)) fetches;
  let roots = List.filter (fun f -> f.f_kind = "single" && f.f_deps = [] && f.f_path = "") fetches in
  let others = List.filter (fun f -> not (List.memq f roots)) fetches in
  List.iter (fun f -> if f.f_kind = "single" then feat "dependent_single_fetch") others;
  (match roots with [_] -> () | [] -> feat "no_root_fetch" | _ -> feat "multi_root_subgraph");
  let root_ids = List.map (fun f -> f.f_id) roots in
  List.iter (fun f ->
      if not (List.for_all (fun d -> List.mem d root_ids) f.f_deps) || List.length f.f_fetchpath > 1 then feat "nested_fetch"
      else if List.length f.f_deps > 1 then feat "fetch_depends_on_several_roots") others;
  (let ps = List.map (fun f -> f.f_path) others in
   if List.length (List.sort_uniq compare ps) <> List.length ps then feat "several_fetches_at_one_field");
  if !feats <> [] then raise (Outside (String.concat "+" (List.sort compare !feats)));
  let root = List.hd roots in
  let sc0 = match List.assoc_opt root.f_sub subs with Some s -> s | None -> raise (Outside "introspection_or_unknown_datasource") in
  let ents = List.map (fun f ->
      if f.f_deps <> [root.f_id] then raise (Outside "nested_fetch");
      (match f.f_fetchpath with
       | [("object", [k], _)] when k = f.f_path -> ()
       | [("object", _, _)] -> raise (Outside "nested_fetch")
       | _ -> raise (Outside "nested_fetch"));
      (f.f_path, f)) others in
  let keys = List.map fst ents in
  if List.length (List.sort_uniq compare keys) <> List.length keys then raise (Outside "several_fetches_at_one_field");
  (* does every entity selection start with __typename? *)
  let ent_parts = List.map (fun (k, f) ->
      match f.f_doc with
      | Some d -> let (t, sel) = entity_doc_parts d in (k, (f, t, sel))
      | None -> raise (Outside "entity_doc_shape")) ents in
  let starts_tn sel = match sel with SField (None, n, [], [], []) :: _ when sb n = "__typename" -> true | _ -> false in
  let tn = ent_parts <> [] && List.for_all (fun (_, (_, _, sel)) -> starts_tn sel) ent_parts in
  if not tn && List.exists (fun (_, (_, _, sel)) -> starts_tn sel) ent_parts then raise (Translate "mixed_typename_prefix");
  (* root fields *)
  let seen = Hashtbl.create 8 in
  let ds2 = List.map (fun s ->
      match s with
      | SField (a, n, args, dirs, ss) ->
        if dirs <> [] then raise (Outside "root_directive");
        if sb n = "__typename" then raise (Outside "root_typename");
        let key = response_key a n in
        if Hashtbl.mem seen key then raise (Outside "root_duplicate_key");
        Hashtbl.add seen key ();
        (match List.assoc_opt key ent_parts with
         | None -> { d2_alias = a; d2_name = n; d2_args = args; d2_nn = false; d2_sel = List.map (fun x -> (false, x)) ss; d2_fetch = None }
         | Some (f, t, sel) ->
           let nn = match field_type super (sb super.s_query) (sb n) with
             | Some (TNamed t') when sb t' = t -> false
             | Some (TNonNull (TNamed t')) when sb t' = t -> true
             | Some (TNamed t') | Some (TNonNull (TNamed t')) ->
               (match find_type_s super (sb t') with
                | Some { td_kind = KObject; _ } -> raise (Translate "entity_type_differs_from_field_type")
                | _ -> raise (Outside "abstract_root_field"))
             | Some _ -> raise (Outside "list_root_field")
             | None -> raise (Translate "unknown_root_field") in
           let sub = match List.assoc_opt f.f_sub subs with Some s -> s | None -> raise (Translate "unknown_subgraph") in
           let selB = if tn then List.tl sel else sel in
           (* tag the client's selections: those the entity fetch asks for, in its order *)
           let rest = ref selB in
           let tagged = List.map (fun x ->
               match !rest with
               | y :: r when y = x -> rest := r; (true, x)
               | _ -> (false, x)) ss in
           if !rest <> [] then raise (Translate "entity_selection_not_in_client_order");
           let fields = repr_fields f t in
           (match fields with
            | "__typename" :: ks ->
              { d2_alias = a; d2_name = n; d2_args = args; d2_nn = nn; d2_sel = tagged;
                d2_fetch = Some ((sub, bs t), List.map bs ks) }
            | _ -> raise (Translate "representation_without_typename")))
      | SInline _ -> raise (Outside "root_inline_fragment")
      | SSpread _ -> raise (Outside "root_fragment_spread")) o.op_sels in
  List.iter (fun (k, _) -> if not (Hashtbl.mem seen k) then raise (Outside "nested_fetch")) ents;
  { t_vds = o.op_vars; t_sup = sup; t_sc0 = sc0; t_sc0name = root.f_sub; t_tn = tn; t_ds2 = ds2; t_root = root; t_ents = ents;
    t_nontrivial = ents <> [] }

(* ---------------------------------------------------------------- why the validator said no *)
let diagnose sc vds sup sc0 g0 kq decls rdecls tn (ds2 : dfield2 list) : string =
  let ds = List.map to_dfield ds2 in
  let vars = pvars vds sup in
  let q = sc.s_query in
  if not (config_wf_b sc sc0) then "config_wf_b(root subgraph)" else
  if not (keys_distinct (List.map root_sel ds)) then "keys_distinct" else
  if not (List.for_all (fun vd -> not_repr vd.vd_name) vds) then "variable named representations" else
    let rec go ds ds2 =
      match ds, ds2 with
      | d :: r, d2 :: r2 ->
        let key = response_key d.df_alias d.df_name in
        if not (field_static_b sc [] vds sup sc0 g0 kq decls rdecls d) then begin
          if not (sels_noent [root_sel d]) then key ^ ":sels_noent(root)" else
          if not (req_ok_b sc0 [] vars (fun _ -> true) kq q [root_sel d]) then key ^ ":req_ok_b(root request not executable on the root subgraph)" else
            match d.df_fetch with
            | None -> key ^ ":field_static_b"
            | Some phi ->
              let t = phi.ef_T in
              let fa = flat_of sc [] vds sup g0 t d.df_selA and fb = flat_of sc [] vds sup g0 t phi.ef_sel in
              if not (config_wf_b sc phi.ef_sub) then key ^ ":config_wf_b(entity subgraph)" else
              if not (req_ok_b phi.ef_sub [] vars not_repr kq t phi.ef_sel) then key ^ ":req_ok_b(entity request not executable on its subgraph)" else
              if not (flat_okb sc [] vds sup g0 t d.df_selA && flat_okb sc [] vds sup g0 t phi.ef_sel) then key ^ ":flat_okb" else
              if not (keys_disjoint fa fb) then key ^ ":keys_disjoint(root part and fetched part share a response key)" else
              if not (keys_unaliased phi.ef_ks fa) then key ^ ":keys_unaliased(a client alias hides a key field)" else
              if not (key_declared decls t phi.ef_ks) then key ^ ":key_declared(representation fields [" ^ String.concat " " (List.map sb phi.ef_ks) ^ "] are not a declared key of " ^ sb t ^ ")" else
              if not (reqs_static_b rdecls t fb phi.ef_ks) then key ^ ":reqs_static_b(@requires inputs not in the representation)" else
              if not (sels_noent phi.ef_sel) then key ^ ":sels_noent(entity)" else
                key ^ ":fetch_static_b(type of the field / kind of the entity type)"
        end
        else if not (field2_shape_b tn d2) then
          (match d2.d2_fetch with
           | None -> key ^ ":shape(untagged)"
           | Some _ -> key ^ ":pending(" ^ (if tn then "hidden_typename" else "client_order") ^ ")")
        else go r r2
      | _, _ -> "plan_static_b" in
    go ds ds2

(* ---------------------------------------------------------------- one pair *)
let get_member k m = match List.assoc_opt (bs k) m with Some v -> v | None -> JNull

let handle (x : sexp) : (string * string) list =
  match x with
  | L (A "c01p" :: id :: rest) ->
    let ids = print_sexp id in
    let find tag = List.find_opt (function L (A t :: _) when t = tag -> true | _ -> false) rest in
    (match find "laberror" with
     | Some e -> [("error", "laberror " ^ print_sexp e)]
     | None ->
    match find "planerror" with
    | Some e -> [("ok", "tr (pair " ^ ids ^ " (outside \"plan_error\") " ^ print_sexp e ^ ")")]
    | None ->
    let config = match find "config" with Some (L (_ :: c)) -> c | _ -> raise (Sexp_error "config") in
    let cfind tag = List.find (function L (A t :: _) when t = tag -> true | _ -> false) config in
    let super = match cfind "super" with L [_; s] -> schema_of s | _ -> raise (Sexp_error "super") in
    let subs = match cfind "subs" with L (_ :: l) -> List.map (function L [S n; s] -> (n, schema_of s) | _ -> raise (Sexp_error "sub")) l | _ -> [] in
    let decls = match cfind "keys" with L (_ :: l) -> List.map (function L [S t; ks] -> (bs t, List.map bs (strs ks)) | _ -> raise (Sexp_error "key")) l | _ -> [] in
    let rdecls = match cfind "requires" with
      | L (_ :: l) -> List.map (function L [S t; S f; rs] -> ((bs t, bs f), List.map bs (strs rs)) | _ -> raise (Sexp_error "requires")) l | _ -> [] in
    let plan = match find "plan" with Some (L (_ :: p)) -> p | _ -> raise (Sexp_error "plan") in
    let pfind tag = List.find (function L (A t :: _) when t = tag -> true | _ -> false) plan in
    let op = match pfind "op" with L [_; d] -> doc_of d | _ -> raise (Sexp_error "op") in
    let vars = match pfind "vars" with L [_; j] -> json_of j | _ -> raise (Sexp_error "vars") in
    let fetches = match pfind "fetches" with L (_ :: l) -> List.map fetch_of l | _ -> [] in
    let runs = match find "runs" with
      | Some (L (_ :: l)) ->
        List.filter_map (function
            | L [A "run"; A ui; L [A "universe"; u]; L (A "requests" :: rq); L [A "gateway"; g; A ge]; L [A "mono"; m; A me]] ->
              Some { u_idx = int_of_string ui; u_uni = universe_of u;
                     u_reqs = List.map (function
                         | L [A "req"; A i; S sub; d; v; r] ->
                           { r_idx = int_of_string i; r_sub = sub; r_doc = (match d with L (A "doc" :: _) -> Some (doc_of d) | _ -> None);
                             r_vars = json_of v; r_resp = json_of r }
                         | y -> raise (Sexp_error ("req: " ^ print_sexp y))) rq;
                     u_gw = json_of g; u_gwerr = int_of_string ge; u_mono = json_of m; u_monoerr = int_of_string me }
            | _ -> None) l
      | _ -> [] in
    let e2e_agree = List.for_all (fun r -> json_ueq r.u_gw r.u_mono && (r.u_gwerr > 0) = (r.u_monoerr > 0)) runs in
    let pair_tail = Printf.sprintf "(e2e %s %d)" (if e2e_agree then "agree" else "DISAGREE") (List.length runs) in
    (try
       let t = translate super subs op vars fetches in
       let sz = int_of_nat (doc_size op) in
       let g0 = nat_of_int (2 * sz + 8) and kq = nat_of_int (sz + 8) in
       let ds = List.map to_dfield t.t_ds2 in
       let nt = if t.t_nontrivial then "nt" else "tr" in
       let out = ref [] in
       let add st d = out := (st, d) :: !out in
       (* 3a: the client operation, verbatim *)
       let cd = client_doc t.t_vds [] t.t_ds2 in
       let op_anon = List.map (function DOp o -> DOp { o with op_name = None } | d -> d) op in
       if cd <> op_anon then add "mismatch" ("corr:C01p/client_doc (pair " ^ ids ^ ") the translated fields do not reproduce the planner's operation");
       (* 3b: the model's requests are the real plan's requests *)
       let mreqs = model_requests t.t_vds [] t.t_sc0 t.t_tn ds in
       List.iter (fun mr ->
           match mr with
           | MRoot (sub, doc) ->
             let real = match t.t_root.f_doc with Some d -> canon_doc d | None -> "" in
             if sub != t.t_sc0 || canon_doc doc <> real then
               add "mismatch" (Printf.sprintf "corr:C01p/plan_form (pair %s) root request: model %s real %s" ids (quote_string (canon_doc doc)) (quote_string real))
           | MEntity (key, sub, doc, rf) ->
             (match List.assoc_opt (sb key) t.t_ents with
              | None -> add "mismatch" ("corr:C01p/plan_form (pair " ^ ids ^ ") model entity fetch without a real one at " ^ sb key)
              | Some f ->
                let real = match f.f_doc with Some d -> canon_doc d | None -> "" in
                let subok = (match List.assoc_opt f.f_sub subs with Some s -> s == sub | None -> false) in
                if not subok || canon_doc doc <> real then
                  add "mismatch" (Printf.sprintf "corr:C01p/plan_form (pair %s) entity request at %s: model %s real %s" ids (sb key) (quote_string (canon_doc doc)) (quote_string real));
                ignore rf)) mreqs;
       let n_model_ents = List.length (List.filter (function MEntity _ -> true | _ -> false) mreqs) in
       if n_model_ents <> List.length t.t_ents then add "mismatch" ("corr:C01p/plan_form (pair " ^ ids ^ ") number of entity fetches");
       (* 4: the validator *)
       let accepted = tv_static_b super [] t.t_vds t.t_sup t.t_sc0 g0 kq decls rdecls t.t_tn t.t_ds2 in
       let plan_only = plan_static_b super [] t.t_vds t.t_sup t.t_sc0 g0 kq decls rdecls ds in
       let why = if accepted then "" else diagnose super t.t_vds t.t_sup t.t_sc0 g0 kq decls rdecls t.t_tn t.t_ds2 in
       (* 3c + contract, per run *)
       let in_contract = ref 0 in
       List.iter (fun r ->
           let contract = univ_contract_b super decls rdecls (plan_subs t.t_sc0 ds) r.u_uni in
           if contract then incr in_contract;
           (* requests: the root request, then one entity request per non-null entity root field *)
           let real_root = List.filter (fun q -> q.r_sub = t.t_sc0name && (match q.r_doc with Some d -> canon_doc d = (match t.t_root.f_doc with Some d' -> canon_doc d' | None -> "") | None -> false)) r.u_reqs in
           (match real_root with
            | [] -> add "mismatch" (Printf.sprintf "corr:C01p/requests (pair %s) (uni %d) the root request was not sent" ids r.u_idx)
            | rq :: _ ->
              let data = match rq.r_resp with JObj m -> (match List.assoc_opt (bs "data") m with Some (JObj d) -> d | _ -> []) | _ -> [] in
              let expected = List.filter_map (fun mr ->
                  match mr with
                  | MEntity (key, _, doc, rf) ->
                    (match List.assoc_opt key data with
                     | Some (JObj l1) ->
                       let ks = List.tl rf in
                       Some (canon_doc doc, JObj [(bs "representations", JArr [repr_from ks l1])], sb key)
                     | _ -> None)
                  | _ -> None) mreqs in
              let real_ents = List.filter (fun q -> q != rq) r.u_reqs in
              if List.length expected <> List.length real_ents then
                add "mismatch" (Printf.sprintf "corr:C01p/requests (pair %s) (uni %d) model sends %d entity requests, the engine sent %d" ids r.u_idx (List.length expected) (List.length real_ents))
              else
                List.iter (fun (cdoc, vars, key) ->
                    (* the engine forwards the variables the request uses; the model forwards all of the client's *)
                    let vars_ok (rv : json) = match rv, vars with
                      | JObj rm, JObj mm ->
                        List.for_all (fun (k, v) ->
                            if sb k = "representations" then (match List.assoc_opt k mm with Some v' -> json_ueq v v' | None -> false)
                            else (match List.assoc_opt k t.t_sup with Some v' -> json_ueq v v' | None -> false)) rm
                        && List.mem_assoc (bs "representations") rm
                      | _, _ -> false in
                    if not (List.exists (fun q -> (match q.r_doc with Some d -> canon_doc d = cdoc | None -> false) && vars_ok q.r_vars) real_ents) then
                      add "mismatch" (Printf.sprintf "corr:C01p/requests (pair %s) (uni %d) entity request at %s with variables %s was not sent" ids r.u_idx key (sexp_of_json vars))) expected);
           (* the extracted run_plan on this universe *)
           (match find_entity r.u_uni super.s_query [] with
            | None -> ()
            | Some eQ ->
              let fM = nat_of_int (4 * sz + 64) in
              let f1 = plan_fuel g0 fM ds in
              let f2 = nat_of_int (int_of_nat f1 + int_of_nat g0) in
              if not t.t_tn then begin
                let (o, errs) = run_plan r.u_uni super [] t.t_vds t.t_sup eQ f1 f2 (plan_of super [] t.t_vds t.t_sup t.t_sc0 g0 ds) in
                let mj = match o with Some l -> JObj l | None -> JNull in
                if not (json_ueq mj r.u_gw) || (errs <> []) <> (r.u_gwerr > 0) then
                  add "mismatch" (Printf.sprintf "corr:C01p/run_plan (pair %s) (uni %d) (contract %b) model %s errs %d gateway %s errs %d" ids r.u_idx contract
                                    (sexp_of_json mj) (List.length errs) (sexp_of_json r.u_gw) r.u_gwerr)
              end);
           if accepted && contract && not (json_ueq r.u_gw r.u_mono && (r.u_gwerr > 0) = (r.u_monoerr > 0)) then
             add "mismatch" (Printf.sprintf "corr:C01p/accepted_but_differs (pair %s) (uni %d) gateway %s monolith %s" ids r.u_idx (sexp_of_json r.u_gw) (sexp_of_json r.u_mono))
         ) runs;
       let summary = Printf.sprintf "(pair %s (inside) (accepted %b) (plan_static %b) (tn %b) (entity_fetches %d) (contract %d %d) %s%s)" ids accepted plan_only t.t_tn
           (List.length t.t_ents) !in_contract (List.length runs) pair_tail (if why = "" then "" else " (why " ^ quote_string why ^ ")") in
       if accepted then add "ok" (nt ^ " " ^ summary)
       else if String.length why > 0 && (let i = try String.index why ':' with Not_found -> -1 in
                                         i >= 0 && String.length why >= i + 9 && String.sub why (i + 1) 8 = "pending(") then
         add "ok" ("tr " ^ summary)
       else add "specfail" ("plan_ok/rejected-in-fragment " ^ summary);
       List.rev !out
     with
     | Outside feat -> [("ok", Printf.sprintf "tr (pair %s (outside %s) %s)" ids (quote_string feat) pair_tail)]
     | Translate why -> [("mismatch", Printf.sprintf "corr:C01p/translate (pair %s) %s %s" ids (quote_string why) pair_tail)]))
  | _ -> [("error", "unrecognised case line")]

let () =
  if Array.length Sys.argv < 3 then (prerr_endline "usage: model_c01p <cases> <results>"; exit 2);
  run_lines Sys.argv.(1) Sys.argv.(2) handle
