(* include: gqlread *)
(* C01p driver: translation validation of REAL plans.

   One input line = one (configuration, operation) pair as written by `c01p gen`: the configuration
   (supergraph, subgraph schemas, declared keys, declared @requires), the operation the planner saw
   (normalised, variables extracted), the real plan (fetch tree dump) and end-to-end runs on a few
   universes (every subgraph request the engine sent, its response, the gateway response, the
   monolithic reference).

   Per pair:
   1. classify: is the (operation, plan) inside the fragment of the plan theorem?  If not: which feature.
   2. translate the real plan to the Coq plan form [dfield2 list] (UNTRUSTED: any mistake shows up in 3/4).
   3. check the translation: (a) [client_doc ds2] is the planner's operation, verbatim;
      (b) the requests the model sends for the plan ([model_requests]) are the real plan's requests
      modulo printing (canonical form below); (c) per run, the real requests / representations are
      the model's, and the extracted [run_plan] on the run's universe returns the gateway's data.
   4. evaluate the verified validator [tv_static_b] on it; check [univ_contract_b] on the universes.

   verdict lines: ok / specfail / mismatch with an S-expression detail (see tools/props/c01p.py). *)

exception Outside of string          (* outside the fragment: feature name *)
exception Translate of string        (* inside the fragment by shape, but the translation failed *)

let bs = bytes_of_string
let sb = string_of_bytes

(* ---------------------------------------------------------------- universe reader (as model_exec) *)
let rec fval_of (x : sexp) : fval =
  match x with
  | L [A "sc"; j] -> FSc (json_of j)
  | L [A "ref"; S t; S k] -> FRef (b t, b k)
  | L [A "nullref"] -> FNullRef
  | L (A "lst" :: l) -> FLst (List.map fval_of l)
  | L [A "err"] -> FErr
  | L [A "echo"] -> FEcho
  | L [A "lookup"; S t; S a] -> FLookup (b t, b a)
  | L (A "req" :: fs) -> FReq (List.map (fun f -> b (str f)) fs)
  | _ -> raise (Sexp_error ("fval: " ^ print_sexp x))
let universe_of = function
  | L (A "universe" :: es) ->
    List.map (function
        | L (A "ent" :: S t :: S k :: fvs) ->
          { en_type = b t; en_key = b k;
            en_fields = List.map (function L [A "fv"; S f; v] -> (b f, fval_of v) | x -> raise (Sexp_error ("fv: " ^ print_sexp x))) fvs }
        | x -> raise (Sexp_error ("entity: " ^ print_sexp x))) es
  | x -> raise (Sexp_error ("universe: " ^ print_sexp x))

(* ---------------------------------------------------------------- canonical form of requests ("modulo printing")
   A selection set is compared as the SET of its canonical selections (duplicates of an identical
   selection and the order inside a selection set do not change what a subgraph is asked for, only
   the member order of its answer); variable definitions are restricted to the variables used. *)
let rec show_value (v : value) : string =
  match v with
  | VVar n -> "$" ^ sb n
  | VInt r -> "i" ^ sb r
  | VFloat r -> "f" ^ sb r
  | VStr (r, _) -> "s" ^ quote_string (sb r)
  | VBool true -> "true" | VBool false -> "false"
  | VNull -> "null"
  | VEnum n -> "e" ^ sb n
  | VList l -> "[" ^ String.concat "," (List.map show_value l) ^ "]"
  | VObj fs -> "{" ^ String.concat "," (List.map (fun (k, x) -> sb k ^ ":" ^ show_value x) fs) ^ "}"
let show_args (a : argument list) = "(" ^ String.concat "," (List.map (fun (k, v) -> sb k ^ ":" ^ show_value v) a) ^ ")"
let show_dirs (d : directive list) = String.concat "" (List.map (fun x -> "@" ^ sb x.d_name ^ show_args x.d_args) d)
let rec canon_sel (s : selection) : string =
  match s with
  | SField (a, n, args, dirs, ss) ->
    (match a with Some x -> sb x ^ ":" | None -> "") ^ sb n ^ show_args args ^ show_dirs dirs ^ canon_sels ss
  | SInline (c, dirs, ss) -> "...on " ^ (match c with Some x -> sb x | None -> "") ^ show_dirs dirs ^ canon_sels ss
  | SSpread (n, dirs) -> "..." ^ sb n ^ show_dirs dirs
and canon_sels (l : selection list) : string =
  if l = [] then "" else "{" ^ String.concat " " (List.sort_uniq compare (List.map canon_sel l)) ^ "}"
let rec value_vars (v : value) : string list =
  match v with
  | VVar n -> [sb n]
  | VList l -> List.concat_map value_vars l
  | VObj fs -> List.concat_map (fun (_, x) -> value_vars x) fs
  | _ -> []
let rec sel_vars (s : selection) : string list =
  let av a = List.concat_map (fun (_, v) -> value_vars v) a in
  let dv d = List.concat_map (fun x -> av x.d_args) d in
  match s with
  | SField (_, _, args, dirs, ss) -> av args @ dv dirs @ List.concat_map sel_vars ss
  | SInline (_, dirs, ss) -> dv dirs @ List.concat_map sel_vars ss
  | SSpread (_, dirs) -> dv dirs
let rec show_ty = function TNamed n -> sb n | TList t -> "[" ^ show_ty t ^ "]" | TNonNull t -> show_ty t ^ "!"
let canon_doc (d : document) : string =
  String.concat " ; " (List.map (function
      | DOp o ->
        let used = List.concat_map sel_vars o.op_sels in
        let vds = List.filter (fun vd -> List.mem (sb vd.vd_name) used) o.op_vars in
        let vds = List.sort compare (List.map (fun vd -> "$" ^ sb vd.vd_name ^ ":" ^ show_ty vd.vd_type ^
                                                         (match vd.vd_default with Some v -> "=" ^ show_value v | None -> "")) vds) in
        (match o.op_kind with OpQuery -> "query" | OpMutation -> "mutation" | OpSubscription -> "subscription") ^
        "(" ^ String.concat "," vds ^ ")" ^ show_dirs o.op_dirs ^ canon_sels o.op_sels
      | DFrag f -> "fragment " ^ sb f.fr_name ^ " on " ^ sb f.fr_type ^ canon_sels f.fr_sels) d)

(* the canonical form of a request WITH the schema it is sent to: per object type the selection set can be evaluated on, the
   fields it collects there (inline fragments resolved as CollectFields does, fields of one response key merged), as a set.
   Two requests with the same canonical form ask every object the subgraph can return for the same fields. *)
(* the planner's placeholder  __internal_...: __typename  is asked of the subgraph and never read: no part of the canonical form *)
let rec canon_strip (l : selection list) : selection list =
  List.filter_map (fun s -> match s with
      | SField (Some x, _, _, _, _) when String.length (sb x) >= 10 && String.sub (sb x) 0 10 = "__internal" -> None
      | SField (a, n, args, dirs, ss) -> Some (SField (a, n, args, dirs, canon_strip ss))
      | SInline (c, dirs, ss) -> Some (SInline (c, dirs, canon_strip ss))
      | SSpread _ -> Some s) l
let canon_strip_doc (d : document) : document =
  List.map (function DOp o -> DOp { o with op_sels = canon_strip o.op_sels } | x -> x) d
let canon_gen (sc : schema) : (bytes -> selection list -> string) * (document -> string) =
  let find_td n = List.find_opt (fun td -> td.td_name = n) sc.s_types in
  let rec named = function TNamed t -> t | TList t | TNonNull t -> named t in
  let is_entity_ty t = (sb t = "_Entity") in
  (* the type conditions written in a selection set (for types the schema does not enumerate, e.g. _Entity) *)
  let rec conds (l : selection list) : bytes list =
    List.concat_map (function SInline (Some c, _, ss) -> c :: conds ss | SInline (None, _, ss) -> conds ss | _ -> []) l in
  let applies (c : bytes) (cond : bytes) = is_entity_ty cond || type_applies sc c cond in
  let rec collect (c : bytes) (l : selection list) : selection list =
    List.concat_map (fun s -> match s with
        | SField (Some x, _, _, _, _) when String.length (sb x) >= 10 && String.sub (sb x) 0 10 = "__internal" -> []   (* the planner's placeholder, never read *)
        | SField _ -> [s]
        | SInline (None, _, ss) -> collect c ss
        | SInline (Some cond, _, ss) -> if applies c cond then collect c ss else []
        | SSpread _ -> [s]) l in
  let rec sels (ty : bytes) (l : selection list) : string =
    if l = [] then "" else
      let ctypes =
        (match find_td ty with
         | Some { td_kind = KObject; _ } -> [ty]
         | Some { td_kind = (KInterface | KUnion); _ } ->
           List.filter_map (fun td -> if td.td_kind = KObject && type_applies sc td.td_name ty then Some td.td_name else None) sc.s_types
         | _ -> List.sort_uniq compare (conds l)) in
      let ctypes = if ctypes = [] then [ty] else ctypes in
      let one (c : bytes) : string =
        let fl = collect c l in
        let keys = List.sort_uniq compare (List.map sel_key0 fl) in
        "{" ^ String.concat " " (List.map (fun k ->
            let same = List.filter (fun s -> sel_key0 s = k) fl in
            (match List.hd same with
             | SField (a, n, args, dirs, _) ->
               let subs = List.concat_map (function SField (_, _, _, _, ss) -> ss | _ -> []) same in
               let fty = (if sb n = "_entities" then bs "_Entity" else
                            match find_td c with
                            | Some td -> (match List.find_opt (fun fd -> fd.fd_name = n) td.td_fields with Some fd -> named fd.fd_type | None -> bs "?")
                            | None -> bs "?") in
               (match a with Some x -> sb x ^ ":" | None -> "") ^ sb n ^ show_args args ^ show_dirs dirs ^ sels fty subs
             | SSpread (n, dirs) -> "..." ^ sb n ^ show_dirs dirs
             | SInline _ -> "")) keys) ^ "}" in
      (match ctypes with
       | [c] when (match find_td ty with Some { td_kind = KObject; _ } -> true | _ -> false) -> one c
       | _ -> String.concat "" (List.map (fun c -> "<" ^ sb c ^ ">" ^ one c) ctypes))
  and sel_key0 (s : selection) = match s with SField (a, n, _, _, _) -> (match a with Some x -> sb x | None -> sb n) | SSpread (n, _) -> "..." ^ sb n | SInline _ -> "" in
  (sels, fun d -> String.concat " ; " (List.map (function
      | DOp o ->
        let used = List.concat_map sel_vars o.op_sels in
        let vds = List.filter (fun vd -> List.mem (sb vd.vd_name) used) o.op_vars in
        let vds = List.sort compare (List.map (fun vd -> "$" ^ sb vd.vd_name ^ ":" ^ show_ty vd.vd_type ^
                                                         (match vd.vd_default with Some v -> "=" ^ show_value v | None -> "")) vds) in
        let root = (match o.op_kind with OpQuery -> sc.s_query | OpMutation -> (match sc.s_mutation with Some m -> m | None -> bs "Mutation")
                                       | OpSubscription -> (match sc.s_subscription with Some m -> m | None -> bs "Subscription")) in
        (match o.op_kind with OpQuery -> "query" | OpMutation -> "mutation" | OpSubscription -> "subscription") ^
        "(" ^ String.concat "," vds ^ ")" ^ show_dirs o.op_dirs ^ sels root o.op_sels
      | DFrag f -> "fragment " ^ sb f.fr_name ^ " on " ^ sb f.fr_type ^ sels f.fr_type f.fr_sels) d))
let canon_doc_t (sc : schema) (d : document) : string = snd (canon_gen sc) (canon_strip_doc d)
let canon_sels_t (sc : schema) (ty : bytes) (l : selection list) : string = fst (canon_gen sc) ty (canon_strip l)

(* unordered JSON equality (object member order is not part of a JSON value) *)
let rec json_ueq (a : json) (c : json) : bool =
  match a, c with
  | JObj m, JObj m' ->
    List.length m = List.length m' &&
    List.for_all (fun (k, v) -> match List.assoc_opt k m' with Some v' -> json_ueq v v' | None -> false) m
  | JArr l, JArr l' -> List.length l = List.length l' && List.for_all2 json_ueq l l'
  | _, _ -> json_eqb a c

(* ---------------------------------------------------------------- the real plan *)
type node =
  | NObj of string list * bool * string * (string * string list option * node) list   (* path, nullable, type, fields (name, on, value) *)
  | NArr of string list * bool * node
  | NLeaf of string * string list * bool
  | NOther of string

let strs x = List.map str (lst x)
let rec node_of (x : sexp) : node =
  match x with
  | L (A "obj" :: p :: nl :: S tn :: _poss :: flds) ->
    NObj (strs p, sbool nl, tn,
          List.map (function
              | L [A "fld"; S n; on; _pon; v] ->
                let on = match on with L [A "on"; l] -> Some (strs l) | _ -> None in
                (n, on, node_of v)
              | y -> raise (Sexp_error ("fld: " ^ print_sexp y))) flds)
  | L [A "arr"; p; nl; it] -> NArr (strs p, sbool nl, node_of it)
  | L [A "leaf"; A k; p; nl] -> NLeaf (k, strs p, sbool nl)
  | _ -> NOther (print_sexp x)

type rfetch = {
  f_id : int; f_deps : int list; f_kind : string; f_sub : string; f_path : string;
  f_fetchpath : (string * string list * string list) list;
  f_query : string; f_doc : document option; f_varstext : string;
  f_reprs : sexp list;   (* (tmpl b seg...) *)
}

let fetch_of (x : sexp) : rfetch =
  match x with
  | L [A "fetch"; A id; L deps; A kind; S sub; S path; L (A "fetchpath" :: fp); S q; doc; S vt; L (A "reprs" :: reprs); _dp; _mp; _flags] ->
    { f_id = int_of_string id; f_deps = List.map (fun d -> int_of_string (atom d)) deps; f_kind = kind; f_sub = sub; f_path = path;
      f_fetchpath = List.map (function L [A k; p; t] -> (k, strs p, strs t) | y -> raise (Sexp_error ("fetchpath: " ^ print_sexp y))) fp;
      f_query = q; f_doc = (match doc with L (A "doc" :: _) -> Some (doc_of doc) | _ -> None); f_varstext = vt; f_reprs = reprs }
  | _ -> raise (Sexp_error ("fetch: " ^ print_sexp x))

type request = { r_idx : int; r_sub : string; r_doc : document option; r_vars : json; r_resp : json }
type run = { u_idx : int; u_uni : universe; u_reqs : request list; u_gw : json; u_gwerr : int; u_mono : json; u_monoerr : int }

(* ---------------------------------------------------------------- helpers on the schema *)
let find_type_s (sc : schema) (n : string) = List.find_opt (fun td -> sb td.td_name = n) sc.s_types
let field_type (sc : schema) (tyname : string) (f : string) : ty option =
  match find_type_s sc tyname with
  | Some td -> (match List.find_opt (fun fd -> sb fd.fd_name = f) td.td_fields with Some fd -> Some fd.fd_type | None -> None)
  | None -> None

let response_key a n = match a with Some x -> sb x | None -> sb n

(* ---------------------------------------------------------------- translation  real plan -> dfield2 list *)
type translated = {
  t_vds : vardef list; t_sup : (bytes * json) list; t_tn : bool;
  t_ds2 : dfield2 list; t_roots : rfetch list; t_ents : (string * rfetch) list; t_nontrivial : bool;
}

(* the entity request:  query($representations: [_Any!]!, ...){_entities(representations: $representations){... on T {sel}}} *)
let entity_doc_parts (d : document) : string * selection list =
  match d with
  | [DOp { op_kind = OpQuery; op_sels = [SField (None, n, [(an, VVar vn)], [], inner)]; _ }]
    when sb n = "_entities" && sb an = "representations" && sb vn = "representations" ->
    (match inner with
     | [SInline (Some t, [], sel)] -> (sb t, sel)
     | _ :: _ :: _ -> raise (Outside "abstract_entity_fetch")
     | _ -> raise (Outside "entity_doc_shape"))
  | _ -> raise (Outside "entity_doc_shape")

(* all the per-type parts of an entity request:  _entities(..) { ... on A { } ... on B { } } *)
let entity_doc_parts_all (d : document) : (string * selection list) list =
  match d with
  | [DOp { op_kind = OpQuery; op_sels = [SField (None, n, [(an, VVar vn)], [], inner)]; _ }]
    when sb n = "_entities" && sb an = "representations" && sb vn = "representations" ->
    List.map (function SInline (Some t, [], sel) -> (sb t, sel) | _ -> raise (Outside "entity_doc_shape")) inner
  | _ -> raise (Outside "entity_doc_shape")

(* the representation template: one resolve segment, an object of leaves *)
let repr_fields (f : rfetch) (t : string) : string list =
  match f.f_reprs with
  | [L (A "tmpl" :: _ :: segs)] ->
    (match List.filter (function L [A "resolve"; _] -> true | _ -> false) segs with
     | [L [A "resolve"; nd]] ->
       (match node_of nd with
        | NObj (_, _, _, flds) ->
          List.map (fun (n, on, v) ->
              if (match on with Some ts -> not (List.mem t ts) | None -> false) then None else
              Some (match v with
               | NLeaf (_, [p], _) when p = n -> n
               | NLeaf _ -> raise (Outside "representation_path")
               | NObj _ -> raise (Outside "nested_key")
               | _ -> raise (Outside "representation_shape"))) flds |> List.filter_map (fun x -> x)
        | _ -> raise (Outside "representation_shape"))
     | _ -> raise (Outside "representation_shape"))
  | [] -> raise (Outside "representation_shape")
  | _ -> raise (Outside "several_representation_templates")

(* the representation fields with one level of nesting: (name, inner leaf names); inner = [] for a leaf *)
let repr_fields_n (f : rfetch) (t : string) : (string * string list) list =
  match f.f_reprs with
  | [L (A "tmpl" :: _ :: segs)] ->
    (match List.filter (function L [A "resolve"; _] -> true | _ -> false) segs with
     | [L [A "resolve"; nd]] ->
       (match node_of nd with
        | NObj (_, _, _, flds) ->
          List.filter_map (fun (n, on, v) ->
              if (match on with Some ts -> not (List.mem t ts) | None -> false) then None else
              Some (match v with
               | NLeaf (_, [p], _) when p = n -> (n, [])
               | NLeaf _ -> raise (Outside "representation_path")
               | NObj ([p], _, _, inner) when p = n ->
                 (n, List.map (fun (i, _, w) -> match w with
                      | NLeaf (_, [q], _) when q = i -> i
                      | NObj _ -> raise (Outside "nested_key_depth")
                      | _ -> raise (Outside "representation_shape")) inner)
               | NObj _ -> raise (Outside "representation_path")
               | _ -> raise (Outside "representation_shape"))) flds
        | _ -> raise (Outside "representation_shape"))
     | _ -> raise (Outside "representation_shape"))
  | [] -> raise (Outside "representation_shape")
  | _ -> raise (Outside "several_representation_templates")

let index_of_sub (subs : (string * schema) list) (n : string) : int option =
  let rec go i = function [] -> None | (m, _) :: r -> if m = n then Some i else go (i + 1) r in go 0 subs

let root_field_keys (f : rfetch) : string list =
  match f.f_doc with
  | Some [DOp o] -> List.filter_map (function SField (a, n, _, _, _) -> Some (response_key a n) | _ -> None) o.op_sels
  | _ -> []

let translate (super : schema) (subs : (string * schema) list) (op : document) (vars : json) (fetches : rfetch list) : translated =
  let o = match op with
    | [DOp o] -> o
    | _ -> raise (Outside "op_shape") in
  if o.op_kind <> OpQuery then raise (Outside "op_kind");
  let rec internal (s : selection) = match s with
    | SField (Some a, _, _, _, ss) -> (String.length (sb a) >= 10 && String.sub (sb a) 0 10 = "__internal") || List.exists internal ss
    | SField (None, _, _, _, ss) | SInline (_, _, ss) -> List.exists internal ss
    | SSpread _ -> false in
  if List.exists internal o.op_sels then raise (Outside "internal_typename_placeholder");
  if o.op_dirs <> [] then raise (Outside "op_directive");
  (* a selection on an interface / union typed field: the planner adds __typename to the subgraph request *)
  let is_abstract tn = (match find_type_s super tn with Some { td_kind = (KInterface | KUnion); _ } -> true | _ -> false) in
  let rec named = function TNamed n -> sb n | TList t | TNonNull t -> named t in
  let rec abstract_in (ty : string) (s : selection) = match s with
    | SField (_, n, _, _, ss) ->
      if ss = [] then false else
        (match field_type super ty (sb n) with
         | Some t -> let tn = named t in is_abstract tn || List.exists (abstract_in tn) ss
         | None -> false)
    | SInline (Some c, _, ss) -> (sb c <> ty) || List.exists (abstract_in (sb c)) ss
    | SInline (None, _, ss) -> List.exists (abstract_in ty) ss
    | SSpread _ -> false in
  if List.exists (abstract_in (sb super.s_query)) o.op_sels then raise (Outside "abstract_selection");
  let sup = match vars with JObj m -> m | _ -> [] in
  (* fetch kinds; every feature of the plan outside the fragment is reported, not only the first *)
  let feats = ref [] in
  let feat f = if not (List.mem f !feats) then feats := f :: !feats in
  List.iter (fun f ->
      match f.f_kind with
      | "single" | "entity" | "batch" -> ()
      | k -> feat ("fetch_kind:" ^ k)) fetches;
  let roots = List.filter (fun f -> f.f_kind = "single" && f.f_deps = [] && f.f_path = "") fetches in
  let others = List.filter (fun f -> not (List.memq f roots)) fetches in
  List.iter (fun f -> if f.f_kind = "single" then feat "dependent_single_fetch") others;
  if roots = [] then feat "no_root_fetch";
  let root_ids = List.map (fun f -> f.f_id) roots in
  List.iter (fun f ->
      if not (List.for_all (fun d -> List.mem d root_ids) f.f_deps) then feat "fetch_chain"
      else if List.length f.f_fetchpath > 1 then feat "nested_position"
      else if List.length f.f_deps > 1 then feat "fetch_depends_on_several_roots") others;
  (let ps = List.map (fun f -> f.f_path) others in
   if List.length (List.sort_uniq compare ps) <> List.length ps then feat "several_fetches_at_one_field");
  (let rs = List.map (fun f -> f.f_sub) roots in
   if List.length (List.sort_uniq compare rs) <> List.length rs then feat "two_root_fetches_on_one_subgraph");
  if !feats <> [] then raise (Outside (String.concat "+" (List.sort compare !feats)));
  List.iter (fun f -> if index_of_sub subs f.f_sub = None then raise (Outside "introspection_or_unknown_datasource")) fetches;
  let ents = List.map (fun f ->
      (match f.f_fetchpath with
       | [(("object" | "array"), [k], _)] when k = f.f_path -> ()
       | _ -> raise (Outside "nested_fetch"));
      (f.f_path, f)) others in
  let ent_parts = List.map (fun (k, f) ->
      match f.f_doc with
      | Some d -> let (t, sel) = entity_doc_parts d in (k, (f, t, sel))
      | None -> raise (Outside "entity_doc_shape")) ents in
  let starts_tn sel = match sel with SField (None, n, [], [], []) :: _ when sb n = "__typename" -> true | _ -> false in
  let tn = ent_parts <> [] && List.for_all (fun (_, (_, _, sel)) -> starts_tn sel) ent_parts in
  if not tn && List.exists (fun (_, (_, _, sel)) -> starts_tn sel) ent_parts then raise (Translate "mixed_typename_prefix");
  (* which root fetch resolves which root field *)
  let root_of_key = List.concat_map (fun f -> List.map (fun k -> (k, f)) (root_field_keys f)) roots in
  let seen = Hashtbl.create 8 in
  let ds2 = List.map (fun s ->
      match s with
      | SField (a, n, args, dirs, ss) ->
        if dirs <> [] then raise (Outside "root_directive");
        if sb n = "__typename" then raise (Outside "root_typename");
        let key = response_key a n in
        if Hashtbl.mem seen key then raise (Outside "root_duplicate_key");
        Hashtbl.add seen key ();
        let rootf = match List.filter (fun (k, _) -> k = key) root_of_key with
          | [(_, f)] -> f
          | [] -> raise (Translate ("no_root_fetch_for_field:" ^ key))
          | _ -> raise (Outside "root_field_in_several_root_fetches") in
        let ri = match index_of_sub subs rootf.f_sub with Some i -> i | None -> raise (Translate "unknown_subgraph") in
        (match List.assoc_opt key ent_parts with
         | None -> { d2_alias = a; d2_name = n; d2_args = args; d2_shape = ShObj false; d2_root = nat_of_int ri;
                     d2_sel = List.map (fun x -> (false, x)) ss; d2_fetch = None }
         | Some (f, t, sel) ->
           if f.f_deps <> [rootf.f_id] then raise (Translate "entity_fetch_does_not_depend_on_its_root_fetch");
           let is_obj t' = (match find_type_s super (sb t') with Some { td_kind = KObject; _ } -> true | _ -> false) in
           let bad t' = if is_obj t' then raise (Translate "entity_type_differs_from_field_type") else raise (Outside "abstract_root_field") in
           let shape = match field_type super (sb super.s_query) (sb n) with
             | Some (TNamed t') -> if sb t' = t then ShObj false else bad t'
             | Some (TNonNull (TNamed t')) -> if sb t' = t then ShObj true else bad t'
             | Some (TList (TNamed t')) -> if sb t' = t then ShList (false, false) else bad t'
             | Some (TList (TNonNull (TNamed t'))) -> if sb t' = t then ShList (false, true) else bad t'
             | Some (TNonNull (TList (TNamed t'))) -> if sb t' = t then ShList (true, false) else bad t'
             | Some (TNonNull (TList (TNonNull (TNamed t')))) -> if sb t' = t then ShList (true, true) else bad t'
             | Some _ -> raise (Outside "nested_list_root_field")
             | None -> raise (Translate "unknown_root_field") in
           (match shape, f.f_kind with
            | ShObj _, "entity" | ShList _, "batch" -> ()
            | _ -> raise (Translate "fetch_kind_does_not_match_field_type"));
           let si = match index_of_sub subs f.f_sub with Some i -> i | None -> raise (Translate "unknown_subgraph") in
           let selB = if tn then List.tl sel else sel in
           (* tag the client's selections: those the entity fetch asks for, in its order *)
           let rest = ref selB in
           let tagged = List.map (fun x ->
               match !rest with
               | y :: r when y = x -> rest := r; (true, x)
               | _ -> (false, x)) ss in
           if !rest <> [] then raise (Translate "entity_selection_not_in_client_order");
           let fields = repr_fields f t in
           (match fields with
            | "__typename" :: ks ->
              { d2_alias = a; d2_name = n; d2_args = args; d2_shape = shape; d2_root = nat_of_int ri; d2_sel = tagged;
                d2_fetch = Some ((nat_of_int si, bs t), List.map bs ks) }
            | _ -> raise (Translate "representation_without_typename")))
      | SInline _ -> raise (Outside "root_inline_fragment")
      | SSpread _ -> raise (Outside "root_fragment_spread")) o.op_sels in
  List.iter (fun (k, _) -> if not (Hashtbl.mem seen k) then raise (Outside "nested_fetch")) ents;
  { t_vds = o.op_vars; t_sup = sup; t_tn = tn; t_ds2 = ds2; t_roots = roots; t_ents = ents; t_nontrivial = ents <> [] }

(* ---------------------------------------------------------------- translation  real plan -> plan TREE (rfield3 list) *)
type translated3 = {
  t3_vds : vardef list; t3_sup : (bytes * json) list; t3_tn : bool;
  t3_ds : rfield3 list; t3_roots : rfetch list; t3_others : rfetch list; t3_depth : int;
  t3_abstract : bool;   (* the operation selects on an interface / union somewhere *)
}

let path_of (f : rfetch) : string list = List.concat_map (fun (_, p, _) -> p) f.f_fetchpath
let rec is_prefix a b = match a, b with [], _ -> true | x :: a', y :: b' -> x = y && is_prefix a' b' | _ -> false

let sel_key_s (s : selection) = match s with SField (a, n, _, _, _) -> response_key a n | _ -> ""

(* the planner's placeholder  __internal_...: __typename  (put where @skip / @include leave a selection set empty) is asked of the
   subgraph and never rendered: it is no part of the client's operation *)
let is_internal_alias (a : bytes option) = (match a with Some x -> String.length (sb x) >= 10 && String.sub (sb x) 0 10 = "__internal" | None -> false)
let rec strip_internal (l : selection list) : selection list =
  List.filter_map (fun s -> match s with
      | SField (a, _, _, _, _) when is_internal_alias a -> None
      | SField (a, n, args, dirs, ss) -> Some (SField (a, n, args, dirs, strip_internal ss))
      | SInline (c, dirs, ss) -> Some (SInline (c, dirs, strip_internal ss))
      | SSpread _ -> Some s) l
let strip_internal_doc (d : document) : document =
  List.map (function DOp o -> DOp { o with op_sels = strip_internal o.op_sels } | x -> x) d

let translate3 (super : schema) (subs : (string * schema) list) (op : document) (vars : json) (fetches : rfetch list) : translated3 =
  let o = match op with [DOp o] -> o | _ -> raise (Outside "op_shape") in
  if o.op_kind <> OpQuery then raise (Outside "op_kind");
  let o = { o with op_sels = strip_internal o.op_sels } in
  if o.op_dirs <> [] then raise (Outside "op_directive");
  let is_abstract tn = (match find_type_s super tn with Some { td_kind = (KInterface | KUnion); _ } -> true | _ -> false) in
  let rec named0 = function TNamed n -> sb n | TList t | TNonNull t -> named0 t in
  let rec abstract_in (ty : string) (s : selection) = match s with
    | SField (_, n, _, _, ss) ->
      if ss = [] then false else
        (match field_type super ty (sb n) with
         | Some t -> let tn = named0 t in is_abstract tn || List.exists (abstract_in tn) ss
         | None -> false)
    | SInline (Some c, _, ss) -> (sb c <> ty) || List.exists (abstract_in (sb c)) ss
    | SInline (None, _, ss) -> List.exists (abstract_in ty) ss
    | SSpread _ -> false in
  (* selections on interfaces / unions are inside the fragment only where they stay within one fetch and the planner adds
     nothing to them (it adds __typename where the client did not select it); the translation is attempted and the pair is
     outside when a fetch sits at or below the abstract position or the requests differ *)
  let abstract = List.exists (abstract_in (sb super.s_query)) o.op_sels in
  try
  let sup = match vars with JObj m -> m | _ -> [] in
  let feats = ref [] in
  let feat f = if not (List.mem f !feats) then feats := f :: !feats in
  List.iter (fun f -> match f.f_kind with "single" | "entity" | "batch" -> () | k -> feat ("fetch_kind:" ^ k)) fetches;
  let roots = List.filter (fun f -> f.f_kind = "single" && f.f_deps = [] && f.f_path = "") fetches in
  let others = List.filter (fun f -> not (List.memq f roots)) fetches in
  List.iter (fun f -> if f.f_kind = "single" then feat "dependent_single_fetch") others;
  if roots = [] && o.op_sels <> [] then feat "no_root_fetch";
  List.iter (fun f -> if f.f_deps = [] then feat "entity_fetch_without_dependency") others;
  (let rs = List.map (fun f -> f.f_sub) roots in
   if List.length (List.sort_uniq compare rs) <> List.length rs then feat "two_root_fetches_on_one_subgraph");
  if !feats <> [] then raise (Outside (String.concat "+" (List.sort compare !feats)));
  List.iter (fun f -> if index_of_sub subs f.f_sub = None then raise (Outside "introspection_or_unknown_datasource")) fetches;
  (* an entity request may carry one part per entity type ( ... on A { } ... on B { } ): the model sends one request per type *)
  let ent_parts (f : rfetch) = match f.f_doc with Some d -> entity_doc_parts_all d | None -> raise (Outside "entity_doc_shape") in
  let starts_tn sel = match sel with SField (None, n, [], [], []) :: _ when sb n = "__typename" -> true | _ -> false in
  let all_parts = List.concat_map (fun f -> List.map snd (ent_parts f)) others in
  let tn = others <> [] && List.for_all starts_tn all_parts in
  if not tn && List.exists starts_tn all_parts then raise (Translate "mixed_typename_prefix");
  let used = ref [] in
  let maxdepth = ref 0 in
  let is_obj tn' = (match find_type_s super tn' with Some { td_kind = KObject; _ } -> true | _ -> false) in
  let varsJ = pvars o.op_vars sup in
  let below p = List.exists (fun f -> is_prefix p (path_of f)) others in
  let has_inline l = List.exists (function SInline _ -> true | _ -> false) l in
  let is_tn_sel s = (match s with SField (None, n, [], [], []) -> sb n = "__typename" | _ -> false) in
  (* first occurrences of the response keys; a repeated key must be a leaf selected again *)
  let dedup_first (l : selection list) : selection list =
    let rec go seen = function
      | [] -> []
      | s :: r ->
        let k = sel_key_s s in
        if List.mem k seen then
          (match s with SField (_, _, _, _, []) -> go seen r | _ -> raise (Outside "abstract_composite_field_selected_twice"))
        else s :: go (k :: seen) r in
    go [] l in
  (* the annotated sub-selection of the object of type [ty] at [path], produced by fetch [src] which was asked [src_sel] for it;
     [client] and [src_sel] are field lists (flattened at [ty] below a position resolved per runtime type) *)
  (* the type names on a segment of a fetch's path restrict the runtime type of the object that has the segment's field;
     [tctx]: the runtime types of the objects along [path] (one per path element: the object that has that field) *)
  let seg_types (f : rfetch) : string list list =
    List.concat_map (fun (_, p, t) -> match p with [] -> [] | _ :: r -> t :: List.map (fun _ -> []) r) f.f_fetchpath in
  let compat (f : rfetch) (tctx : string list) : bool =
    let rec go a b = match a, b with
      | ts :: a', c :: b' -> (ts = [] || List.mem c ts) && go a' b'
      | _, _ -> true in
    go (seg_types f) tctx in
  let rec build_pt (depth : int) (ty : string) (client : selection list) (path : string list) (tctx : string list) (src : rfetch) (src_sel : selection list) : ptree =
    if depth > !maxdepth then maxdepth := depth;
    (* the sources of this position: 0 = src, then the entity fetches at this path for this type, each reading its keys off earlier sources *)
    let sources = ref [(src, src_sel)] in
    let fentries = ref [] in
    let here = ref [] in
    let progress = ref true in
    while !progress do
      progress := false;
      List.iter (fun f ->
          if path_of f = path && not (List.memq f !here) && List.mem_assoc ty (ent_parts f) && compat f tctx then
            (* placed once every fetch it depends on is a source of this position *)
            (* (a dependency that is an entity fetch at this path with no part for this type, or for other parents, does not concern it) *)
            (if List.for_all (fun d -> List.exists (fun (g, _) -> g.f_id = d) !sources ||
                                       List.exists (fun g -> g.f_id = d && path_of g = path && (not (List.mem_assoc ty (ent_parts g)) || not (compat g tctx))) others) f.f_deps then begin
               let dep_srcs = List.filter (fun (_, (g, _)) -> List.mem g.f_id f.f_deps) (List.mapi (fun i x -> (i, x)) !sources) in
               here := f :: !here; if not (List.memq f !used) then used := f :: !used; progress := true;
               let (t, sel) = (ty, List.assoc ty (ent_parts f)) in
               let selB = if tn then List.tl sel else sel in
               let si = match index_of_sub subs f.f_sub with Some i -> i | None -> raise (Translate "unknown_subgraph") in
               let kfs = (match repr_fields_n f t with ("__typename", []) :: r -> r | _ -> raise (Translate "representation_without_typename")) in
               let ks = List.map fst kfs in
               (* every representation field is read off the first source (among the dependencies) that was asked for it;
                  consecutive fields of one source are grouped *)
               let src_of k =
                 (match List.find_opt (fun (_, (_, sel)) -> List.exists (fun x -> sel_key_s x = k) sel) dep_srcs with
                  | Some (i, _) -> i
                  | None -> raise (Translate ("representation_field_from_no_dependency:" ^ k))) in
               let rec group = function
                 | [] -> []
                 | k :: r ->
                   let i = src_of k in
                   (match group r with
                    | (j, l) :: g when j = i -> (i, k :: l) :: g
                    | g -> (i, [k]) :: g) in
               let deps = (match group ks with
                   | [] -> (match dep_srcs with (i, _) :: _ -> [(i, [])] | [] -> [])
                   | g -> g) in
               sources := !sources @ [(f, selB)];
               let entry k = (bs k, List.map bs (List.assoc k kfs)) in
               fentries := !fentries @ [((List.map (fun (i, l) -> (nat_of_int i, List.map entry l)) deps, nat_of_int si), List.map bs ks)]
             end)) others
    done;
    let items = List.map (fun s ->
        match s with
        | SField (a, n, _, dirs, _) ->
          if dirs <> [] then raise (Outside "field_directive_at_fetch_position");
          let key = response_key a n in
          (* the first source that was asked for this response key *)
          let rec find i = function
            | [] -> raise (Translate ("no_source_for_field:" ^ String.concat "." (path @ [key])))
            | (g, sel) :: r -> (match List.find_opt (fun x -> sel_key_s x = key) sel with Some x -> (i, g, x) | None -> find (i + 1) r) in
          let (tag, g, x) = find 0 !sources in
          (nat_of_int tag, mk_item depth ty path tctx g x s)
        | SInline _ -> raise (Outside "inline_fragment_at_fetch_position")
        | SSpread _ -> raise (Outside "fragment_spread")) client in
    (* a nested key field that the client selects itself at this position: the source's object under that name would carry
       the client's and the key's inner fields merged *)
    let nnames = List.concat_map (fun ((deps, _), _) -> List.concat_map (fun (_, l) -> List.filter_map (fun (k, inner) -> if inner <> [] then Some k else None) l) deps) !fentries in
    if List.exists (fun (_, it) -> List.mem (item_key it) nnames) items then raise (Outside "nested_key_field_selected_by_client");
    PT (items, !fentries)
  (* the client's field [s] of an object of type [ty] at [path]; source [g] was asked [x] for it *)
  and mk_item (depth : int) (ty : string) (path : string list) (tctx : string list) (g : rfetch) (x : selection) (s : selection) : pitem =
    match s with
    | SField (a, n, args, _, ss) ->
      let p' = path @ [response_key a n] in
      let xsel = (match x with SField (_, _, _, _, xs) -> xs | _ -> []) in
      (* kept as it is when no fetch sits at or below it and the source was asked for the same selection (same canonical form) *)
      let same_sel () =
        xsel = ss ||
        (match field_type super ty (sb n) with
         | Some t -> let rec nm = function TNamed t -> t | TList t | TNonNull t -> nm t in
           let sc' = (match List.assoc_opt g.f_sub subs with Some sc -> sc | None -> super) in
           canon_sels_t sc' (nm t) xsel = canon_sels_t sc' (nm t) ss
         | None -> false) in
      if ss = [] || (not (below p') && same_sel ()) then PKeep s
      else begin
        let fty = (match field_type super ty (sb n) with Some t -> t | None -> raise (Translate "unknown_field")) in
        let rec named = function TNamed t -> sb t | TList t | TNonNull t -> named t in
        let t' = named fty in
        let shape = match fty with
          | TNamed _ -> ShObj false | TNonNull (TNamed _) -> ShObj true
          | TList (TNamed _) -> ShList (false, false) | TList (TNonNull (TNamed _)) -> ShList (false, true)
          | TNonNull (TList (TNamed _)) -> ShList (true, false) | TNonNull (TList (TNonNull (TNamed _))) -> ShList (true, true)
          | _ -> raise (Outside "nested_list_field") in
        let has_dup l = (let ks = List.map sel_key_s l in List.length (List.sort_uniq compare ks) <> List.length ks) in
        if is_obj t' && not (has_inline ss) && not (has_inline xsel) && not (has_dup ss) then
          PDown (a, n, args, shape, bs t', build_pt (depth + 1) t' ss p' (tctx @ [ty]) g xsel)
        else begin
          (* resolved per runtime type: one plan tree per object type the field can return, over the selections flattened at it *)
          let ctypes = List.filter (fun td -> td.td_kind = KObject && type_applies super td.td_name (bs t')) super.s_types in
          let fuel = abs_fuel ss xsel in
          let alts = List.map (fun td ->
              let c = td.td_name in
              let flat l = (match flatten super [] varsJ fuel c l with FlatOk fl -> fl | FlatBad _ -> raise (Outside "abstract_flatten")) in
              (* the fields of one response key merged, as the executor runs them *)
              let lc = gmerge (flat ss) and lr = gmerge (flat xsel) in
              let pt = build_pt (depth + 1) (sb c) lc p' (tctx @ [ty]) g lr in
              (* the planner's own __typename: asked in front of the tree's projection when neither the client nor a key asks for it *)
              let h = not (has_tn_sel (pt_proj pt)) in
              ((c, h), pt)) ctypes in
          (* the selection the MODEL asks the source for: per object type the projection of its tree; that the real request
             asks the same of every object is the request comparison (canon_doc_t) *)
          let rsel = List.map (fun ((c, h), pt) -> SInline (Some c, [], (if h then SField (None, bs "__typename", [], [], []) :: pt_proj pt else pt_proj pt))) alts in
          ignore xsel;
          PAbs (a, n, args, shape, bs t', ss, rsel, alts)
        end
      end
    | _ -> raise (Outside "inline_fragment_at_fetch_position") in
  let root_of_key = List.concat_map (fun f -> List.map (fun k -> (k, f)) (root_field_keys f)) roots in
  let seen = Hashtbl.create 8 in
  let ds = List.map (fun s ->
      match s with
      | SField (a, n, args, dirs, ss) ->
        if dirs <> [] then raise (Outside "root_directive");
        let key = response_key a n in
        if Hashtbl.mem seen key then raise (Outside "root_duplicate_key");
        Hashtbl.add seen key ();
        (* the root __typename is resolved by the gateway itself: no request; root index = number of subgraphs *)
        if sb n = "__typename" then { r3_root = nat_of_int (List.length subs); r3_item = PKeep s } else
        let rootf = match List.filter (fun (k, _) -> k = key) root_of_key with
          | [(_, f)] -> f
          | [] -> raise (Translate ("no_root_fetch_for_field:" ^ key))
          | _ -> raise (Outside "root_field_in_several_root_fetches") in
        let ri = match index_of_sub subs rootf.f_sub with Some i -> i | None -> raise (Translate "unknown_subgraph") in
        let x = (match rootf.f_doc with
            | Some [DOp ro] -> (match List.find_opt (fun x -> sel_key_s x = key) ro.op_sels with Some x -> x | None -> raise (Translate ("root_field_not_requested:" ^ key)))
            | _ -> raise (Translate "root_doc_shape")) in
        ignore args; ignore ss;
        { r3_root = nat_of_int ri; r3_item = mk_item 0 (sb super.s_query) [] [] rootf x s }
      | SInline _ -> raise (Outside "root_inline_fragment")
      | SSpread _ -> raise (Outside "root_fragment_spread")) o.op_sels in
  List.iter (fun f ->
      if not (List.memq f !used) then begin
        (* a dependency that is not a source of the fetch's own position (not the fetch that produced the object, not an
           entity fetch at the same path) *)
        let same_or_parent g = path_of g = path_of f || is_prefix (path_of g) (path_of f) in
        if List.exists (fun d -> match List.find_opt (fun g -> g.f_id = d) fetches with Some g -> not (same_or_parent g) | None -> true) f.f_deps
        then raise (Outside "fetch_depends_on_other_position")
        else raise (Translate ("fetch_not_placed:" ^ f.f_path))
      end) others;
  { t3_vds = o.op_vars; t3_sup = sup; t3_tn = tn; t3_ds = ds; t3_roots = roots; t3_others = others; t3_depth = !maxdepth; t3_abstract = abstract }
  with Translate w when abstract ->
    if Sys.getenv_opt "C01P_DEBUG" = Some "1" then prerr_endline ("ABS translate: " ^ w);
    raise (Outside "abstract_selection")

(* ---------------------------------------------------------------- why the tree validator said no *)
let diagnose3 sc (subsl : schema list) vds sup kq decls rdecls ndecls (kd : nat) (ds : rfield3 list) : string =
  let vars = pvars vds sup in
  let show l = String.concat " " (List.map (fun s -> match s with SField (a, n, _, _, _) -> response_key a n | SInline _ -> "..." | SSpread _ -> "...s") l) in
  let rec pred = function O -> O | S k -> k in
  let rec go_pt (k : nat) (path : string) (ty : bytes) (pt : ptree) : string option =
    if pt_static_b sc subsl [] vds sup kq true decls rdecls ndecls k ty pt then None else
      let PT (items, fetches) = pt in
      let k' = pred k in
      (match List.find_map (fun (_, it) -> go_item k' path ty it) items with
       | Some w -> Some w
       | None ->
         if not (names_distinct (List.map (fun (_, it) -> item_key it) items)) then Some (path ^ ": response keys not distinct")
         else if not (List.for_all (fun (_, it) -> item_unaliased (fetch_keys fetches) it) items) then Some (path ^ ": a client field aliased to a key name")
         else if not (fetches_static_b sc subsl [] vds sup kq decls rdecls ndecls ty items fetches (S O) fetches) then
           Some (path ^ ": fetches_static_b" ^
                 (match List.find_opt (fun ((deps, _), ks) -> not (key_static_b decls ndecls ty (fetch_kl deps ks) (fetch_kn deps))) fetches with
                  | Some ((deps, _), ks) -> " (key_static_b: the representation fields [" ^ String.concat " " (List.map sb ks) ^ "] of " ^ sb ty ^ " contain no declared key; nested " ^
                                            String.concat " " (List.map (fun (k, i) -> sb k ^ "{" ^ String.concat " " (List.map sb i) ^ "}") (fetch_kn deps)) ^ ")"
                  | None -> ""))
         else if List.exists (fun k0 -> List.mem k0 (List.map (fun (_, it) -> item_key it) items)) (fetch_nnames fetches) then
           Some (path ^ ": a nested key field is selected by the client at this position")
         else if List.exists (fun k0 -> List.mem k0 (fetch_keys fetches)) (fetch_nnames fetches) then
           Some (path ^ ": a nested key field is also a leaf representation field")
         else if not (declared_obj sc ty) then Some (path ^ ": " ^ sb ty ^ " is no object type of the supergraph")
         else if not (List.for_all (fun (tg, _) -> int_of_nat tg <= List.length fetches) items) then Some (path ^ ": item tag beyond the fetches")
         else Some (path ^ ": position of type " ^ sb ty))
  and go_item (k : nat) (path : string) (ty : bytes) (it : pitem) : string option =
    if item_static_b sc subsl [] vds sup kq true decls rdecls ndecls k ty it then None else
      (match it with
       | PKeep s -> Some (path ^ "." ^ show [s] ^ ": kept field not plain")
       | PDown (a, n, _, _, t', sub) -> (match go_pt (pred k) (path ^ "." ^ response_key a n) t' sub with Some w -> Some w | None -> Some (path ^ "." ^ response_key a n ^ ": field type / shape"))
       | PAbs (a, n, _, _, t', csel, rsel, alts) ->
         let p = path ^ "." ^ response_key a n in
         let fuel = abs_fuel csel rsel in
         let r = List.find_map (fun td ->
             if not (td.td_kind = KObject && type_applies sc td.td_name t') then None else
               (match find_alt td.td_name alts with
                | None -> Some (p ^ ": no plan tree for " ^ sb td.td_name)
                | Some (h, sub) ->
                  let fc = flatten sc [] vars fuel td.td_name csel and fr = flatten sc [] vars fuel td.td_name rsel in
                  let tnsel = SField (None, bs "__typename", [], [], []) in
                  let sh = function FlatOk l -> show l | FlatBad _ -> "<bad>" in
                  if not (flat_merged_is fc (pt_client sub)) then Some (Printf.sprintf "%s on %s: client selection flattened [%s] tree [%s]" p (sb td.td_name) (sh fc) (show (pt_client sub)))
                  else if not (flat_is fr (if h then tnsel :: pt_proj sub else pt_proj sub)) then Some (Printf.sprintf "%s on %s: source selection flattened [%s] tree [%s]" p (sb td.td_name) (sh fr) (show (pt_proj sub)))
                  else if not h && not (has_tn_sel (pt_proj sub)) then Some (Printf.sprintf "%s on %s: no __typename in the source's selection" p (sb td.td_name))
                  else go_pt (pred k) (p ^ "<" ^ sb td.td_name ^ ">") td.td_name sub)) sc.s_types in
         (match r with Some w -> Some w | None -> Some (p ^ ": abstract field type / shape / spreads")))
  in
  match List.find_map (fun d -> go_item kd "" sc.s_query d.r3_item) ds with
  | Some w -> w
  | None -> "root level"

(* ---------------------------------------------------------------- why the validator said no: the failed hypothesis *)
let diagnose sc (subsl : schema list) vds sup g0 kq decls rdecls tn (ds2 : dfield2 list) : string =
  let vars = pvars vds sup in
  let q = sc.s_query in
  let nsub = List.length subsl in
  if not (List.for_all (config_wf_b sc) subsl) then "config_wf_b(a subgraph schema is not a projection of the supergraph)" else
  if not (names_distinct (List.map d2_key ds2)) then "names_distinct(root response keys)" else
  if not (List.for_all (fun vd -> not_repr vd.vd_name) vds) then "not_repr(a client variable is named representations)" else
    let rec go = function
      | d :: r ->
        let key = sb (d2_key d) in
        if field2_static_b sc subsl [] vds sup g0 kq decls rdecls tn d then
          (if order_ok_b sc [] vds sup g0 d then go r else key ^ ":order_ok_b(the client's sub-selection does not flatten)")
        else begin
          let ri = int_of_nat d.d2_root in
          if ri >= nsub then key ^ ":root index" else
          if not (sels_noent [root_sel2 d]) then key ^ ":sels_noent(root)" else
          if not (req_ok_b (sub_at sc subsl d.d2_root) [] vars (fun _ -> true) kq q [root_sel2 d]) then
            key ^ ":req_ok_b(the root request is not executable on its subgraph)" else
            match d.d2_fetch with
            | None -> key ^ ":field2_static_b"
            | Some ((si, t), ks) ->
              let sa = d2_selA d and sb' = d2_selB d in
              let fa = flat_of sc [] vds sup g0 t sa and fb = flat_of sc [] vds sup g0 t sb' in
              if int_of_nat si >= nsub then key ^ ":entity subgraph index" else
              (if not (req_ok_b (sub_at sc subsl si) [] vars not_repr kq t sb') then key ^ ":req_ok_b(the entity request is not executable on its subgraph)" else
              if not (flat_okb sc [] vds sup g0 t sa && flat_okb sc [] vds sup g0 t sb') then key ^ ":flat_okb" else
              if not (keys_disjoint fa fb) then key ^ ":keys_disjoint(root part and fetched part share a response key)" else
              if not (keys_unaliased ks fa) then key ^ ":keys_unaliased(a client alias hides a representation field)" else
              if not (key_covered decls t ks) then key ^ ":key_covered(representation fields [" ^ String.concat " " (List.map sb ks) ^ "] contain no declared key of " ^ sb t ^ ")" else
              if not (repr_fields_ok decls rdecls t ks) then key ^ ":repr_fields_ok(a representation field of [" ^ String.concat " " (List.map sb ks) ^ "] is neither a key field nor a declared @requires input of " ^ sb t ^ ")" else
              if not (reqs_static_b rdecls t fb ks) then key ^ ":reqs_static_b(@requires inputs not in the representation)" else
              if not (sels_noent sb') then key ^ ":sels_noent(entity)" else
              if tn && not (sels_top_nokey (bs "__typename") sb') then key ^ ":sels_top_nokey(the fetched part selects __typename itself)" else
                key ^ ":fetch2_static_b(type of the field / kind of the entity type)")
        end
      | [] -> "tv2_static_b" in
    go ds2

(* ---------------------------------------------------------------- one pair *)
let handle (x : sexp) : (string * string) list =
  match x with
  | L (A "c01p" :: id :: rest) ->
    let ids = print_sexp id in
    let find tag = List.find_opt (function L (A t :: _) when t = tag -> true | _ -> false) rest in
    (match find "laberror" with
     | Some e -> [("error", "laberror " ^ print_sexp e)]
     | None ->
    match find "planerror" with
    | Some e -> [("ok", "tr (pair " ^ ids ^ " (outside \"plan_error\") " ^ print_sexp e ^ ")")]
    | None ->
    let config = match find "config" with Some (L (_ :: c)) -> c | _ -> raise (Sexp_error "config") in
    let cfind tag = List.find (function L (A t :: _) when t = tag -> true | _ -> false) config in
    let super = match cfind "super" with L [_; s] -> schema_of s | _ -> raise (Sexp_error "super") in
    let subs = match cfind "subs" with L (_ :: l) -> List.map (function L [S n; s] -> (n, schema_of s) | _ -> raise (Sexp_error "sub")) l | _ -> [] in
    let subsl = List.map snd subs in
    let decls = match cfind "keys" with L (_ :: l) -> List.map (function L [S t; ks] -> (bs t, List.map bs (strs ks)) | _ -> raise (Sexp_error "key")) l | _ -> [] in
    (* keys with one level of nesting: (type, (leaf part, nested part)) *)
    let ndecls = (try (match cfind "nkeydecls" with
        | L (_ :: l) -> List.map (function
            | L [S t; lv; L ns] -> (bs t, (List.map bs (strs lv), List.map (function L [S k; inner] -> (bs k, List.map bs (strs inner)) | _ -> raise (Sexp_error "nkey")) ns))
            | _ -> raise (Sexp_error "nkeydecl")) l
        | _ -> []) with _ -> []) in
    let rdecls = match cfind "requires" with
      | L (_ :: l) -> List.map (function L [S t; S f; rs] -> ((bs t, bs f), List.map bs (strs rs)) | _ -> raise (Sexp_error "requires")) l | _ -> [] in
    let plan = match find "plan" with Some (L (_ :: p)) -> p | _ -> raise (Sexp_error "plan") in
    let pfind tag = List.find (function L (A t :: _) when t = tag -> true | _ -> false) plan in
    let op = match pfind "op" with L [_; d] -> doc_of d | _ -> raise (Sexp_error "op") in
    let vars = match pfind "vars" with L [_; j] -> json_of j | _ -> raise (Sexp_error "vars") in
    let fetches = match pfind "fetches" with L (_ :: l) -> List.map fetch_of l | _ -> [] in
    let runs = match find "runs" with
      | Some (L (_ :: l)) ->
        List.filter_map (function
            | L [A "run"; A ui; L [A "universe"; u]; L (A "requests" :: rq); L [A "gateway"; g; A ge]; L [A "mono"; m; A me]] ->
              Some { u_idx = int_of_string ui; u_uni = universe_of u;
                     u_reqs = List.map (function
                         | L [A "req"; A i; S sub; d; v; r] ->
                           { r_idx = int_of_string i; r_sub = sub; r_doc = (match d with L (A "doc" :: _) -> Some (doc_of d) | _ -> None);
                             r_vars = json_of v; r_resp = json_of r }
                         | y -> raise (Sexp_error ("req: " ^ print_sexp y))) rq;
                     u_gw = json_of g; u_gwerr = int_of_string ge; u_mono = json_of m; u_monoerr = int_of_string me }
            | _ -> None) l
      | _ -> [] in
    let e2e_agree = List.for_all (fun r -> json_ueq r.u_gw r.u_mono && (r.u_gwerr > 0) = (r.u_monoerr > 0)) runs in
    let pair_tail = Printf.sprintf "(e2e %s %d)" (if e2e_agree then "agree" else "DISAGREE") (List.length runs) in
    (* ---- plan TREES (theorem tv3_sound): tried first; the depth-1 form (theorem tv2_sound) is the fallback ---- *)
    let v3_why = ref "" in
    let v3_diag = ref "" in
    let v3 : (string * string) list option =
      try
        let t = translate3 super subs op vars fetches in
        let sz = int_of_nat (doc_size op) in
        let kq = nat_of_int (sz + 8) in
        let kdepth = nat_of_int (2 * t.t3_depth + 6) in
        let out = ref [] in
        let add st d = out := (st, d) :: !out in
        let sub_name i = match List.nth_opt subs (int_of_nat i) with Some (n, _) -> n | None -> "?" in
        (* the client operation, verbatim *)
        let cd = client_doc3 t.t3_vds [] t.t3_ds in
        let op_anon = List.map (function DOp o -> DOp { o with op_name = None } | d -> d) (strip_internal_doc op) in
        if cd <> op_anon then add "mismatch" ("corr:C01p/client_doc (pair " ^ ids ^ ") the translated plan tree does not reproduce the planner's operation");
        (* the model's requests are the real plan's fetches *)
        let mreqs = model_requests3s (nat_of_int (List.length subsl)) t.t3_vds [] t.t3_tn t.t3_ds in
        let sub_schema name = (match List.assoc_opt name subs with Some sc -> sc | None -> super) in
        let cdoc name d = canon_doc_t (sub_schema name) d in
        let real_doc f = match f.f_doc with Some d -> cdoc f.f_sub d | None -> "" in
        (* an entity request as its per-type parts (type, canonical selection, variable definitions used) *)
        let parts_of name (d : document) : (string * string) list =
          (try List.map (fun (ty, sel) -> (ty, canon_sels_t (sub_schema name) (bs ty) sel)) (entity_doc_parts_all d) with _ -> []) in
        (* the model's one-type request is a part of the real request *)
        let has_part name (md : document) (rd : document) : bool =
          (match parts_of name md with
           | [pt] -> List.mem pt (parts_of name rd)
           | _ -> false) in
        List.iter (fun mr ->
            match mr with
            | MRoot3 (g, doc) ->
              (match List.filter (fun f -> f.f_sub = sub_name g) t.t3_roots with
               | [f] -> if cdoc (sub_name g) doc <> real_doc f then
                   add "mismatch" (Printf.sprintf "corr:C01p/plan_form (pair %s) root request to %s: model %s real %s" ids (sub_name g) (quote_string (cdoc (sub_name g) doc)) (quote_string (real_doc f)))
               | _ -> add "mismatch" (Printf.sprintf "corr:C01p/plan_form (pair %s) no single real root fetch on %s" ids (sub_name g)))
            | MEntity3 (path, si, doc, rf) ->
              let p = List.map sb path in
              (match List.filter (fun f -> path_of f = p && f.f_sub = sub_name si && has_part (sub_name si) doc (match f.f_doc with Some d -> d | None -> [])) t.t3_others with
               | [] ->
                 add "mismatch" (Printf.sprintf "corr:C01p/plan_form (pair %s) entity request at %s to %s: model %s has no real counterpart; real at that path: %s" ids
                                   (String.concat "." p) (sub_name si) (quote_string (cdoc (sub_name si) doc))
                                   (String.concat " | " (List.map (fun f -> f.f_sub ^ ":" ^ real_doc f) (List.filter (fun f -> path_of f = p) t.t3_others))))
               | f :: _ ->
                 (* the representation template names the model's representation fields *)
                 let tfields = (try List.map fst (repr_fields_n f (fst (List.hd (entity_doc_parts_all doc)))) with _ -> []) in
                 if List.sort compare tfields <> List.sort compare (List.map sb rf) then
                   add "mismatch" (Printf.sprintf "corr:C01p/plan_form (pair %s) representation fields at %s: model [%s] real [%s]" ids
                                     (String.concat "." p) (String.concat " " (List.map sb rf)) (String.concat " " tfields)))) mreqs;
        let n_mroot = List.length (List.filter (function MRoot3 _ -> true | _ -> false) mreqs) in
        (* a fetch below a position resolved per runtime type appears once per alternative it serves: counted once *)
        let n_ment = List.length (List.filter (fun f ->
            List.exists (function
                | MEntity3 (path, si, doc, _) -> path_of f = List.map sb path && f.f_sub = sub_name si && has_part (sub_name si) doc (match f.f_doc with Some d -> d | None -> [])
                | MRoot3 _ -> false) mreqs) t.t3_others) in
        List.iter (fun f ->
            List.iter (fun pt ->
                if not (List.exists (function
                    | MEntity3 (path, si, doc, _) -> path_of f = List.map sb path && f.f_sub = sub_name si && parts_of (sub_name si) doc = [pt]
                    | MRoot3 _ -> false) mreqs) then
                  add "mismatch" (Printf.sprintf "corr:C01p/plan_form (pair %s) the part on %s of the real entity fetch at %s to %s is no request of the model" ids (fst pt) f.f_path f.f_sub))
              (parts_of f.f_sub (match f.f_doc with Some d -> d | None -> []))) t.t3_others;
        if n_mroot <> List.length t.t3_roots then add "mismatch" (Printf.sprintf "corr:C01p/plan_form (pair %s) %d model root fetches, %d real" ids n_mroot (List.length t.t3_roots));
        if n_ment <> List.length t.t3_others then add "mismatch" (Printf.sprintf "corr:C01p/plan_form (pair %s) %d model entity fetches, %d real" ids n_ment (List.length t.t3_others));
        if t.t3_abstract && !out <> [] then begin
          if Sys.getenv_opt "C01P_DEBUG" = Some "1" then List.iter (fun (_, d) -> prerr_endline ("ABS " ^ d)) !out;
          raise (Outside "abstract_selection")
        end;
        (* the validator: with positions resolved per runtime type (tv4_sound) when the tree has any, else tv3_sound *)
        let rec pt_abs (PT (items, _)) = List.exists (fun (_, it) -> item_abs it) items
        and item_abs = function PKeep _ -> false | PDown (_, _, _, _, _, sub) -> pt_abs sub | PAbs _ -> true in
        let has_abs = List.exists (fun d -> item_abs d.r3_item) t.t3_ds in
        (* a fetch whose representation has a nested key field *)
        let rec pt_nk (PT (items, fetches)) =
          List.exists (fun ((deps, _), _) -> List.exists (fun (_, l) -> List.exists (fun (_, inner) -> inner <> []) l) deps) fetches ||
          List.exists (fun (_, it) -> item_nk it) items
        and item_nk = function PKeep _ -> false | PDown (_, _, _, _, _, sub) -> pt_nk sub | PAbs (_, _, _, _, _, _, _, alts) -> List.exists (fun (_, pt) -> pt_nk pt) alts in
        let has_nk = List.exists (fun d -> item_nk d.r3_item) t.t3_ds in
        let static_b = if has_nk then (fun a b c d e f g h i j -> tv5_static_b a b c d e f g h ndecls i j) else if has_abs then tv4_static_b else tv3_static_b in
        let contract_b = if has_nk then (fun a b c d u -> univ5_contract_b a b c d ndecls u) else if has_abs then univ4_contract_b else univ3_contract_b in
        let theorem = if has_nk then "tv5_sound" else if has_abs then "tv4_sound" else "tv3_sound" in
        let accepted = static_b super subsl [] t.t3_vds t.t3_sup kq decls rdecls kdepth t.t3_ds in
        if not accepted then (v3_diag := diagnose3 super subsl t.t3_vds t.t3_sup kq decls rdecls ndecls kdepth t.t3_ds; raise Exit);
        let in_contract = ref 0 in
        let order_diffs = ref 0 in
        let gw_differs = ref 0 in
        List.iter (fun r ->
            let contract = contract_b super subsl decls rdecls r.u_uni in
            if contract then incr in_contract;
            (* every request the engine sent is one of the model's requests (the engine batches the per-object entity
               requests of one fetch and sends identical requests once) *)
            List.iter (fun q ->
                let qd = match q.r_doc with Some d -> cdoc q.r_sub d | None -> "" in
                if not (List.exists (fun mr -> match mr with
                    | MRoot3 (g, doc) -> q.r_sub = sub_name g && cdoc q.r_sub doc = qd
                    | MEntity3 _ -> false) mreqs) &&
                   not (let qparts = (match q.r_doc with Some d -> parts_of q.r_sub d | None -> []) in
                        qparts <> [] &&
                        (* every part is a model request to this subgraph; every representation has the fields of the model request of its type *)
                        List.for_all (fun pt -> List.exists (function
                            | MEntity3 (_, si, doc, _) -> q.r_sub = sub_name si && parts_of q.r_sub doc = [pt]
                            | MRoot3 _ -> false) mreqs) qparts &&
                        (match q.r_vars with
                         | JObj rm -> (match List.assoc_opt (bs "representations") rm with
                             | Some (JArr reps) ->
                               List.for_all (function
                                   | JObj m ->
                                     let keys = List.sort compare (List.map (fun (k, _) -> sb k) m) in
                                     let tyn = (match List.assoc_opt (bs "__typename") m with Some (JStr t) -> sb t | _ -> "") in
                                     List.exists (function
                                         | MEntity3 (_, si, doc, rf) ->
                                           q.r_sub = sub_name si && (match parts_of q.r_sub doc with [(t', c)] -> t' = tyn && List.mem (t', c) qparts | _ -> false) &&
                                           keys = List.sort compare (List.map sb rf)
                                         | MRoot3 _ -> false) mreqs
                                   | _ -> false) reps
                             | _ -> false)
                         | _ -> false)) then
                  add "mismatch" (Printf.sprintf "corr:C01p/requests (pair %s) (uni %d) the engine's request to %s is none of the model's: %s" ids r.u_idx q.r_sub (quote_string qd))) r.u_reqs;
            (* the extracted gateway model on this universe: the real gateway's response, member for member *)
            (match find_entity r.u_uni super.s_query [] with
             | None -> ()
             | Some eQ ->
               let fu = nat_of_int (int_of_nat (ds_need super t.t3_ds) + 1) in
               let (o, errs) = gateway3 r.u_uni super subsl [] t.t3_vds t.t3_sup eQ fu fu t.t3_tn kdepth t.t3_ds in
               let mj = match o with Some l -> JObj l | None -> JNull in
               if (errs <> []) = (r.u_gwerr > 0) && not (json_eqb mj r.u_gw) && json_ueq mj r.u_gw then
                 (* the same value up to the ORDER of object members: the engine's response tree keeps one occurrence of a field
                    selected both under a type condition and without (the later one); counted, not a failure of the tie *)
                 incr order_diffs
               else if not (json_eqb mj r.u_gw) || (errs <> []) <> (r.u_gwerr > 0) then begin
                 let model_is_mono = json_ueq mj r.u_mono && (errs <> []) = (r.u_monoerr > 0) in
                 let gw_is_mono = json_ueq r.u_gw r.u_mono && (r.u_gwerr > 0) = (r.u_monoerr > 0) in
                 if model_is_mono && not gw_is_mono then
                   (* the plan is valid (theorem) and executed by the model it yields the monolith's answer, every request of the
                      engine is one of the model's -- yet the engine's RESPONSE differs: the defect is after fetching (response
                      tree / rendering), the gateway != monolith divergence itself is reported by the C01 data check *)
                   incr gw_differs
                 else
                   add "mismatch" (Printf.sprintf "corr:C01p/gateway_model (pair %s) (uni %d) (contract %b) model %s errs %d gateway %s errs %d" ids r.u_idx contract
                                     (sexp_of_json mj) (List.length errs) (sexp_of_json r.u_gw) r.u_gwerr)
               end;
               (* an instance of the theorem: on a universe of the contract the model returns the monolith's answer *)
               if contract && not (json_ueq mj r.u_mono && (errs <> []) = (r.u_monoerr > 0)) then
                 add "mismatch" (Printf.sprintf "corr:C01p/theorem_instance (pair %s) (uni %d) model %s errs %d monolith %s errs %d" ids r.u_idx
                                   (sexp_of_json mj) (List.length errs) (sexp_of_json r.u_mono) r.u_monoerr))
          ) runs;
        (* self-test: defects planted into the accepted plan tree must be refused *)
        let mut_total = ref 0 and mut_rejected = ref 0 in
        let nsub = List.length subsl in
        let try_mut ds' =
          incr mut_total;
          if not (static_b super subsl [] t.t3_vds t.t3_sup kq decls rdecls kdepth ds') then incr mut_rejected in
        (* mutate the first position that has a fetch: wrong subgraph, representation without keys, a fetched field re-tagged *)
        let rec mut_pt (f : ptree -> ptree option) (pt : ptree) : ptree option =
          match f pt with
          | Some pt' -> Some pt'
          | None ->
            let PT (items, fetches) = pt in
            let rec go = function
              | [] -> None
              | (tg, PDown (a, n, args, sh, ty, sub)) :: r ->
                (match mut_pt f sub with
                 | Some sub' -> Some ((tg, PDown (a, n, args, sh, ty, sub')) :: r)
                 | None -> (match go r with Some r' -> Some ((tg, PDown (a, n, args, sh, ty, sub)) :: r') | None -> None))
              | x :: r -> (match go r with Some r' -> Some (x :: r') | None -> None) in
            (match go items with Some items' -> Some (PT (items', fetches)) | None -> None) in
        let mut_ds (f : ptree -> ptree option) : rfield3 list option =
          let rec go = function
            | [] -> None
            | d :: r ->
              (match d.r3_item with
               | PDown (a, n, args, sh, ty, sub) ->
                 (match mut_pt f sub with
                  | Some sub' -> Some ({ d with r3_item = PDown (a, n, args, sh, ty, sub') } :: r)
                  | None -> (match go r with Some r' -> Some (d :: r') | None -> None))
               | _ -> (match go r with Some r' -> Some (d :: r') | None -> None)) in
          go t.t3_ds in
        if t.t3_others <> [] then begin
          (match mut_ds (fun (PT (items, fetches)) -> match fetches with
               | ((from, si), ks) :: r -> Some (PT (items, ((from, nat_of_int ((int_of_nat si + 1) mod nsub)), ks) :: r))
               | [] -> None) with Some ds' -> try_mut ds' | None -> ());
          (match mut_ds (fun (PT (items, fetches)) -> match fetches with
               | ((from, si), _) :: r -> Some (PT (items, ((from, si), []) :: r))
               | [] -> None) with Some ds' -> try_mut ds' | None -> ());
          (match mut_ds (fun (PT (items, fetches)) -> match fetches with
               | (((d0, _) :: dr, si), ks) :: r when ks <> [] -> Some (PT (items, (((d0, []) :: dr, si), ks) :: r))
               | _ -> None) with Some ds' -> try_mut ds' | None -> ());
          (match mut_ds (fun (PT (items, fetches)) ->
               if fetches = [] || not (List.exists (fun (tg, _) -> int_of_nat tg = 1) items) then None
               else (let flipped = ref false in
                     Some (PT (List.map (fun (tg, it) -> if int_of_nat tg = 1 && not !flipped then (flipped := true; (nat_of_int 0, it)) else (tg, it)) items, fetches)))) with
           | Some ds' -> try_mut ds' | None -> ())
        end;
        let nt = if t.t3_others <> [] then "nt" else "tr" in
        add "ok" (Printf.sprintf "%s (pair %s (inside) (accepted true) (theorem %s) (depth %d) (tn %b) (roots %d) (entity_fetches %d) (contract %d %d) (mutants %d %d) (abstract %b) (member_order_diffs %d) (gateway_differs %d) %s)"
                    nt ids theorem t.t3_depth t.t3_tn (List.length t.t3_roots) (List.length t.t3_others) !in_contract (List.length runs) !mut_rejected !mut_total t.t3_abstract !order_diffs !gw_differs pair_tail);
        Some (List.rev !out)
      with
      | Outside f -> v3_why := "outside:" ^ f; None
      | Translate w -> v3_why := "translate:" ^ w; None
      | Exit -> v3_why := "rejected: " ^ !v3_diag; None in
    match v3 with
    | Some res -> res
    | None ->
    (try
       let t = translate super subs op vars fetches in
       let sz = int_of_nat (doc_size op) in
       let g0 = nat_of_int (2 * sz + 8) and kq = nat_of_int (sz + 8) in
       let ds2 = t.t_ds2 in
       let nt = if t.t_nontrivial then "nt" else "tr" in
       let out = ref [] in
       let add st d = out := (st, d) :: !out in
       let sub_name i = match List.nth_opt subs (int_of_nat i) with Some (n, _) -> n | None -> "?" in
       (* 3a: the client operation, verbatim *)
       let cd = client_doc2 t.t_vds [] ds2 in
       let op_anon = List.map (function DOp o -> DOp { o with op_name = None } | d -> d) op in
       if cd <> op_anon then add "mismatch" ("corr:C01p/client_doc (pair " ^ ids ^ ") the translated fields do not reproduce the planner's operation");
       (* 3b: the model's requests are the real plan's requests *)
       let mreqs = model_requests2 t.t_vds [] t.t_tn ds2 in
       let real_doc f = match f.f_doc with Some d -> canon_doc d | None -> "" in
       let n_mroot = ref 0 and n_ment = ref 0 in
       List.iter (fun mr ->
           match mr with
           | MRoot (g, doc) ->
             incr n_mroot;
             (match List.filter (fun f -> f.f_sub = sub_name g) t.t_roots with
              | [f] -> if canon_doc doc <> real_doc f then
                  add "mismatch" (Printf.sprintf "corr:C01p/plan_form (pair %s) root request to %s: model %s real %s" ids (sub_name g) (quote_string (canon_doc doc)) (quote_string (real_doc f)))
              | _ -> add "mismatch" (Printf.sprintf "corr:C01p/plan_form (pair %s) no single real root fetch on %s" ids (sub_name g)))
           | MEntity (key, si, doc, _rf, _isl) ->
             incr n_ment;
             (match List.assoc_opt (sb key) t.t_ents with
              | None -> add "mismatch" ("corr:C01p/plan_form (pair " ^ ids ^ ") model entity fetch without a real one at " ^ sb key)
              | Some f ->
                if f.f_sub <> sub_name si || canon_doc doc <> real_doc f then
                  add "mismatch" (Printf.sprintf "corr:C01p/plan_form (pair %s) entity request at %s: model %s to %s real %s to %s" ids (sb key)
                                    (quote_string (canon_doc doc)) (sub_name si) (quote_string (real_doc f)) f.f_sub))) mreqs;
       if !n_mroot <> List.length t.t_roots then add "mismatch" ("corr:C01p/plan_form (pair " ^ ids ^ ") number of root fetches");
       if !n_ment <> List.length t.t_ents then add "mismatch" ("corr:C01p/plan_form (pair " ^ ids ^ ") number of entity fetches");
       (* 4: the validator *)
       let accepted = tv2_static_b super subsl [] t.t_vds t.t_sup g0 kq decls rdecls t.t_tn ds2 in
       let why = if accepted then "" else diagnose super subsl t.t_vds t.t_sup g0 kq decls rdecls t.t_tn ds2 in
       (* 3c + contract, per run *)
       let in_contract = ref 0 in
       let has_list = List.exists (fun d -> match d.d2_shape, d.d2_fetch with ShList _, Some _ -> true | _ -> false) ds2 in
       List.iter (fun r ->
           let contract = univ2_contract_b super subsl decls rdecls r.u_uni in
           if contract then incr in_contract;
           (* requests: every root request, then one entity request per entity root field whose value is there *)
           (* identical requests of one execution are sent once (single flight, property C11): the model's
              requests and the engine's are compared as sets *)
           let used = ref [] in
           let take p = match List.filter (fun q -> p q && not (List.memq q !used)) r.u_reqs, List.filter p r.u_reqs with
             | q :: _, _ -> used := q :: !used; Some q
             | [], q :: _ -> Some q
             | [], [] -> None in
           let root_data = List.concat_map (fun mr ->
               match mr with
               | MRoot (g, doc) ->
                 (match take (fun q -> q.r_sub = sub_name g && (match q.r_doc with Some d -> canon_doc d = canon_doc doc | None -> false)) with
                  | None -> add "mismatch" (Printf.sprintf "corr:C01p/requests (pair %s) (uni %d) the root request to %s was not sent" ids r.u_idx (sub_name g)); []
                  | Some rq -> (match rq.r_resp with JObj m -> (match List.assoc_opt (bs "data") m with Some (JObj d) -> d | _ -> []) | _ -> []))
               | _ -> []) mreqs in
           List.iter (fun mr ->
               match mr with
               | MEntity (key, si, doc, rf, is_list) ->
                 let ks = List.tl rf in
                 let reprs = match List.assoc_opt key root_data with
                   | Some (JObj l1) when not is_list -> Some [repr_from ks l1]
                   | Some (JArr xs) when is_list -> (match dedup (collect_reprs ks xs) with [] -> None | l -> Some l)
                   | _ -> None in
                 (match reprs with
                  | None -> ()
                  | Some rs ->
                    (* the engine forwards the variables the request uses; the model forwards all of the client's *)
                    let vars_ok (rv : json) = match rv with
                      | JObj rm ->
                        List.for_all (fun (k, v) ->
                            if sb k = "representations" then json_ueq v (JArr rs)
                            else (match List.assoc_opt k t.t_sup with Some v' -> json_ueq v v' | None -> false)) rm
                        && List.mem_assoc (bs "representations") rm
                      | _ -> false in
                    (match take (fun q -> q.r_sub = sub_name si && (match q.r_doc with Some d -> canon_doc d = canon_doc doc | None -> false) && vars_ok q.r_vars) with
                     | Some _ -> ()
                     | None -> add "mismatch" (Printf.sprintf "corr:C01p/requests (pair %s) (uni %d) entity request at %s with representations %s was not sent" ids r.u_idx (sb key) (sexp_of_json (JArr rs)))))
               | _ -> ()) mreqs;
           if List.length !used <> List.length r.u_reqs then
             add "mismatch" (Printf.sprintf "corr:C01p/requests (pair %s) (uni %d) the engine sent %d requests, the model accounts for %d" ids r.u_idx (List.length r.u_reqs) (List.length !used));
           (* the extracted gateway model on this universe *)
           (match find_entity r.u_uni super.s_query [] with
            | None -> ()
            | Some eQ ->
              if not has_list || accepted then begin
                let fM = nat_of_int (4 * sz + 64) in
                let f1 = plan2_fuel g0 fM ds2 in
                let f2 = nat_of_int (int_of_nat f1 + int_of_nat g0) in
                let (o, errs) = gateway2 r.u_uni super subsl [] t.t_vds t.t_sup eQ g0 f1 f2 t.t_tn ds2 in
                let mj = match o with Some l -> JObj l | None -> JNull in
                if not (json_ueq mj r.u_gw) || (errs <> []) <> (r.u_gwerr > 0) then
                  add "mismatch" (Printf.sprintf "corr:C01p/gateway_model (pair %s) (uni %d) (contract %b) model %s errs %d gateway %s errs %d" ids r.u_idx contract
                                    (sexp_of_json mj) (List.length errs) (sexp_of_json r.u_gw) r.u_gwerr)
              end);
           if accepted && contract && not (json_ueq r.u_gw r.u_mono && (r.u_gwerr > 0) = (r.u_monoerr > 0)) then
             add "mismatch" (Printf.sprintf "corr:C01p/accepted_but_differs (pair %s) (uni %d) gateway %s monolith %s" ids r.u_idx (sexp_of_json r.u_gw) (sexp_of_json r.u_mono))
         ) runs;
       (* self-test of the validator on this plan: three defects planted into the accepted translation must be refused
          (wrong subgraph for the entity fetch -- unless that subgraph can answer it too --, a representation without its
          key fields, a fetched field moved into the root request) *)
       let mut_total = ref 0 and mut_rejected = ref 0 in
       if accepted && t.t_nontrivial then begin
         let nsub = List.length subsl in
         let try_mut (ds' : dfield2 list) =
           incr mut_total;
           if not (tv2_static_b super subsl [] t.t_vds t.t_sup g0 kq decls rdecls t.t_tn ds') then incr mut_rejected in
         List.iteri (fun i d ->
             match d.d2_fetch with
             | Some ((si, ty), ks) ->
               let repl d' = List.mapi (fun j x -> if j = i then d' else x) ds2 in
               try_mut (repl { d with d2_fetch = Some ((nat_of_int ((int_of_nat si + 1) mod nsub), ty), ks) });
               try_mut (repl { d with d2_fetch = Some ((si, ty), []) });
               let flipped = ref false in
               let sel' = List.map (fun (b, x) -> if b && not !flipped then (flipped := true; (false, x)) else (b, x)) d.d2_sel in
               try_mut (repl { d with d2_sel = sel' })
             | None -> ()) ds2
       end;
       let summary = Printf.sprintf "(pair %s (inside) (accepted %b) (tn %b) (roots %d) (entity_fetches %d) (contract %d %d) (mutants %d %d) %s%s)" ids accepted t.t_tn
           (List.length t.t_roots) (List.length t.t_ents) !in_contract (List.length runs) !mut_rejected !mut_total pair_tail (if why = "" then "" else " (why " ^ quote_string why ^ ")") in
       let is_pending = (let i = try String.index why ':' with Not_found -> -1 in
                         i >= 0 && String.length why >= i + 9 && String.sub why (i + 1) 8 = "pending(") in
       if accepted then add "ok" (nt ^ " " ^ summary)
       else if is_pending then add "ok" ("tr " ^ summary)
       else add "specfail" ("plan_ok/rejected-in-fragment " ^ summary);
       List.rev !out
     with
     | Outside feat ->
       let f3 = !v3_why in
       let feat' = if String.length f3 > 8 && String.sub f3 0 8 = "outside:" then String.sub f3 8 (String.length f3 - 8) else feat in
       if (String.length f3 >= 8 && String.sub f3 0 8 = "rejected") || (String.length f3 > 10 && String.sub f3 0 10 = "translate:") then
         [("specfail", Printf.sprintf "plan_ok/rejected-in-fragment (pair %s (inside) (accepted false) %s (why %s))" ids pair_tail (quote_string ("plan tree: " ^ f3)))]
       else [("ok", Printf.sprintf "tr (pair %s (outside %s) %s)" ids (quote_string feat') pair_tail)]
     | Translate why -> [("mismatch", Printf.sprintf "corr:C01p/translate (pair %s) %s %s" ids (quote_string why) pair_tail)]))
  | _ -> [("error", "unrecognised case line")]

let () =
  if Array.length Sys.argv < 3 then (prerr_endline "usage: model_c01p <cases> <results>"; exit 2);
  run_lines Sys.argv.(1) Sys.argv.(2) handle
