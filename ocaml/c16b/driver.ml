(* C16b driver.  One case line per history:
     (c16b (meta ..) (plans <plan>..) (default_ttl ns) (oracle (root pi fid <json> nerr).. (ans pi fid "rep" <json> nerr)..)
           (cachefaults (idx kind)..)
           (hist (step pi (st s "d") (out "..") (nst s) (nocache "..") (ups (u fid seq status nerrs (cc ..) (reps ..) bad)..) (nups (fid "rep"..)..)
                       (hdrs (fid "v"..)..) (cacheerrs n) (valid b) (draw "..") (errs ..))..)
           (cachelog (get run seq (keys K..) (found K..) err fault) (set run seq (items (it K <json> "raw" ttl)..) (stored K..) err fault)..))
   K = (k pi fid "rep") | (unk "key").
   Spec clauses of C16(b) on the implementation's observables, then the cache model (C16.ModelCache over the
   C07 loader model) against them: responses, upstream requests, cache log. *)
let strs x = List.map sbytes (lst x)

let rec node_of (x : sexp) : node =
  match x with
  | L [A "obj"; p; nl; S ty; poss; inacc; unres; L (A "fields" :: fs)] ->
    NObj (strs p, sbool nl, bytes_of_string ty, strs poss, strs inacc, sbool unres, List.map field_of fs)
  | L [A "arr"; p; nl; item] -> NArr (strs p, sbool nl, node_of item)
  | L [A "str"; p; nl] -> NStr (strs p, sbool nl)
  | L [A "bool"; p; nl] -> NBool (strs p, sbool nl)
  | L [A "int"; p; nl] -> NInt (strs p, sbool nl)
  | L [A "float"; p; nl] -> NFloat (strs p, sbool nl)
  | L [A "bigint"; p; nl] -> NBigInt (strs p, sbool nl)
  | L [A "scalar"; p; nl] -> NScalar (strs p, sbool nl)
  | L [A "enum"; p; nl; S ty; vals; inacc] -> NEnum (strs p, sbool nl, bytes_of_string ty, strs vals, strs inacc)
  | L [A "null"] -> NNull
  | L [A "static"; S v] -> NStatic (bytes_of_string v)
  | L [A "emptyobj"] -> NEmptyObj
  | L [A "emptyarr"] -> NEmptyArr
  | _ -> raise (Sexp_error ("node: " ^ print_sexp x))
and field_of (x : sexp) : field =
  match x with
  | L [A "fld"; S name; on; pon; auth; v] ->
    let on' = match on with L [A "none"] -> None | L [A "some"; l] -> Some (strs l) | _ -> raise (Sexp_error "on") in
    let pon' = match pon with
      | L [A "none"] -> None
      | L (A "some" :: l) -> Some (List.map (function L [A d; names] -> (nat_of_int (int_of_string d), strs names) | _ -> raise (Sexp_error "pon")) l)
      | _ -> raise (Sexp_error "pon") in
    let auth' = match auth with
      | L [A "none"] -> None
      | L [A "some"; S t; S f] -> Some { au_parent_type = bytes_of_string t; au_field = bytes_of_string f }
      | _ -> raise (Sexp_error "auth") in
    Fld (bytes_of_string name, on', pon', auth', node_of v)
  | _ -> raise (Sexp_error "field")

let rec json_of (x : sexp) : json =
  match x with
  | L [A "n"] -> JNull
  | L [A "t"] -> JBool true
  | L [A "f"] -> JBool false
  | L [A "num"; S r] -> JNum (bytes_of_string r)
  | L [A "s"; S s] -> JStr (bytes_of_string s)
  | L (A "a" :: items) -> JArr (List.map json_of items)
  | L (A "o" :: ms) -> JObj (List.map (function L [S k; v] -> (bytes_of_string k, json_of v) | _ -> raise (Sexp_error "member")) ms)
  | _ -> raise (Sexp_error ("json: " ^ print_sexp x))

let pelem_of = function
  | L [A "n"; S k] -> PName (bytes_of_string k)
  | L [A "i"; A i] -> PIdx (n_of_int (int_of_string i))
  | x -> raise (Sexp_error ("pelem: " ^ print_sexp x))

let kind_of_s = function "single" -> FSingle | "entity" -> FEntity | "batch" -> FBatch | k -> raise (Sexp_error ("kind " ^ k))

let fetch_of (x : sexp) : fetch =
  match x with
  | L [A "fetch"; A id; A kind; S ds; L (A "path" :: pes); L (A "deps" :: deps); rep; S hdr; S ftr; L [A "datapath"; L dp]; L (A "mergepath" :: mp)] ->
    { f_id = n_of_int (int_of_string id); f_kind = kind_of_s kind; f_ds = bytes_of_string ds;
      f_path = List.map (function L [A "pe"; names; types] -> { pe_path = strs names; pe_types = strs types } | _ -> raise (Sexp_error "pe")) pes;
      f_deps = List.map (fun d -> n_of_int (int_of_string (atom d))) deps;
      f_rep = node_of rep; f_header = bytes_of_string hdr; f_footer = bytes_of_string ftr;
      f_datapath = List.map pelem_of dp; f_mergepath = List.map sbytes mp }
  | _ -> raise (Sexp_error "fetch")

let rec tree_of (fs : fetch list) (x : sexp) : ftree =
  match x with
  | L [A "single"; A id] -> FTSingle (List.find (fun f -> int_of_n f.f_id = int_of_string id) fs)
  | L (A "seq" :: l) -> FTSeq (List.map (tree_of fs) l)
  | L (A "par" :: l) -> FTPar (List.map (tree_of fs) l)
  | _ -> raise (Sexp_error "tree")

let show_pelem = function PName n -> "(n " ^ quote_string (string_of_bytes n) ^ ")" | PIdx i -> "(i " ^ decimal_of_n i ^ ")"

(* Loader errors are compared as a multiset.  Value-completion errors are compared as a set with the
   array indices erased: batch de-duplication makes the Go data a DAG (one response entity is
   merged by pointer into several targets), so the pre-walk nulls a shared subtree once and reports
   the error for the first path only. *)
let erase_idx (s : string) : string = Str.global_replace (Str.regexp "(i [0-9]+)") "(i _)" s
let norm_errs (l : string list) : string list =
  let lo = List.filter (fun e -> String.length e > 2 && e.[1] = 'l') l in
  let v = List.sort_uniq compare (List.map erase_idx (List.filter (fun e -> String.length e > 2 && e.[1] = 'v') l)) in
  List.sort compare lo @ v

let cfault_of = function
  | "none" -> CFNone | "get_err" -> CFGetErr | "set_err" -> CFSetErr | "set_partial" -> CFSetPartial
  | "evict_one" -> CFEvictOne | "evict_all" -> CFEvictAll | k -> raise (Sexp_error ("cfault " ^ k))

exception Oracle_miss of string
exception Oracle_clash of string

type plan = { root : node; fetches : fetch list; tree : ftree }
let plan_of = function
  | L [A "plan"; rootx; L (A "fetches" :: fxs); L [A "tree"; tx]] ->
    let fetches = List.map fetch_of fxs in { root = node_of rootx; fetches; tree = tree_of fetches tx }
  | _ -> raise (Sexp_error "plan")

let show_key (k : ckey) = Printf.sprintf "(%s|%s)" (string_of_bytes k.ck_rep) (string_of_int (Hashtbl.hash (string_of_bytes k.ck_header ^ "\000" ^ string_of_bytes k.ck_footer)))
let rec show_json (j : json) : string =
  match j with
  | JNull -> "null" | JBool true -> "true" | JBool false -> "false"
  | JNum r -> string_of_bytes r | JStr s -> quote_string (string_of_bytes s)
  | JArr l -> "[" ^ String.concat "," (List.map show_json l) ^ "]"
  | JObj m -> "{" ^ String.concat "," (List.map (fun (k, v) -> quote_string (string_of_bytes k) ^ ":" ^ show_json v) m) ^ "}"

let erase_idx (s : string) : string = Str.global_replace (Str.regexp "(i [0-9]+)") "(i _)" s
let norm_errs (l : string list) : string list =
  let lo = List.filter (fun e -> String.length e > 2 && e.[1] = 'l') l in
  let v = List.sort_uniq compare (List.map erase_idx (List.filter (fun e -> String.length e > 2 && e.[1] = 'v') l)) in
  List.sort compare lo @ v

let handle (x : sexp) : (string * string) list =
  match x with
  | L [A "c16b"; L (A "meta" :: _); L (A "plans" :: pxs); L [A "default_ttl"; A dttl]; L (A "oracle" :: ox); L (A "cachefaults" :: cfx);
       L (A "hist" :: steps); L (A "cachelog" :: logx)] ->
    let plans = Array.of_list (List.map plan_of pxs) in
    let default = z_of_decimal dttl in
    let fetch_of_pf pi fid = List.find (fun f -> int_of_n f.f_id = fid) plans.(pi).fetches in
    (* the oracle is a function of the request bytes: (header, footer, representation) *)
    let table : (string * string * string, json * json list) Hashtbl.t = Hashtbl.create 64 in
    let nerrs n = List.init (int_of_string n) (fun _ -> JObj []) in
    let put key v =
      match Hashtbl.find_opt table key with
      | Some v' when v' <> v -> raise (Oracle_clash "two fetches with the same operation text answer differently")
      | _ -> Hashtbl.replace table key v in
    List.iter (function
      | L [A "root"; A pi; A fid; j; A n] ->
        let f = fetch_of_pf (int_of_string pi) (int_of_string fid) in
        put (string_of_bytes f.f_header, "", "") (json_of j, nerrs n)
      | L [A "ans"; A pi; A fid; S rep; j; A n] ->
        let f = fetch_of_pf (int_of_string pi) (int_of_string fid) in
        put (string_of_bytes f.f_header, string_of_bytes f.f_footer, rep) (json_of j, nerrs n)
      | _ -> raise (Sexp_error "oracle")) ox;
    let oracle (rq : request) : response =
      let h = string_of_bytes rq.rq_header and ft = string_of_bytes rq.rq_footer in
      let single = rq.rq_reps = [] && ft = "" in
      let find key = match Hashtbl.find_opt table key with Some a -> a | None -> let (a, b, c) = key in raise (Oracle_miss (b ^ c)) in
      clean_response (fun _ rep -> find (h, ft, string_of_bytes rep)) (fun _ -> find (h, "", "")) rq single in
    let cfl = List.map (function L [A i; A k] -> (int_of_string i, cfault_of k) | _ -> raise (Sexp_error "cf")) cfx in
    let cfaults (i : nat) = match List.assoc_opt (int_of_nat i) cfl with Some k -> k | None -> CFNone in
    let key_of = function
      | L [A "k"; A pi; A fid; S rep] ->
        let f = fetch_of_pf (int_of_string pi) (int_of_string fid) in
        Some { ck_rep = bytes_of_string rep; ck_header = f.f_header; ck_footer = f.f_footer }
      | _ -> None in
    (* steps *)
    let parsed_steps = List.mapi (fun i sx ->
      match sx with
      | L [A "step"; A pi; L [A "st"; A st; S detail]; L [A "out"; S out]; L [A "nst"; A nst]; L [A "nocache"; S nocache]; L (A "ups" :: ups); L (A "nups" :: nups);
           L (A "hdrs" :: hdrs); L [A "cacheerrs"; A cerrs]; L [A "valid"; valid]; L [A "draw"; S draw]; L (A "errs" :: errs)] ->
        (i, int_of_string pi, st, detail, out, nst, nocache, ups, nups, hdrs, int_of_string cerrs, sbool valid, draw, norm_errs (List.map print_sexp errs))
      | _ -> raise (Sexp_error "step")) steps in
    let headers (run : nat) (fid : n) : bytes list =
      match List.nth_opt parsed_steps (int_of_nat run) with
      | Some (_, _, _, _, _, _, _, _, _, hdrs, _, _, _, _) ->
        (match List.find_opt (function L (A f :: _) -> int_of_string f = int_of_n fid | _ -> false) hdrs with
         | Some (L (_ :: vals)) -> List.map sbytes vals
         | _ -> [])
      | None -> [] in
    let res = ref [] in
    let add s d = res := (s, d) :: !res in
    (* ---------------- observables as Coq records *)
    let ups_obs = List.concat_map (fun (i, pi, _, _, _, _, _, ups, _, _, _, _, _, _) ->
      List.map (function
        | L [A "u"; A fid; A seq; A status; A nerr; L (A "cc" :: cc); L (A "reps" :: reps); _; L (A "ents" :: ents)] ->
          let f = fetch_of_pf pi (int_of_string fid) in
          { uo_run = nat_of_int i; uo_seq = nat_of_int (int_of_string seq); uo_status = n_of_int (int_of_string status);
            uo_nerrs = n_of_int (int_of_string nerr); uo_cc = List.map sbytes cc;
            uo_keys = List.map (fun r -> { ck_rep = sbytes r; ck_header = f.f_header; ck_footer = f.f_footer }) reps;
            uo_entities = List.map json_of ents }
        | _ -> raise (Sexp_error "u")) ups) parsed_steps in
    let unknown_keys = ref 0 in
    let keys_of_l l = List.filter_map (fun k -> match key_of k with Some k -> Some k | None -> incr unknown_keys; None) l in
    let nstored = ref 0 and nhits = ref 0 and npartial = ref 0 in
    let gets = ref [] in
    List.iteri (fun opi op ->
      match op with
      | L [A "get"; A run; A seq; L (A "keys" :: ks); L (A "found" :: fs); err; A _] ->
        let g = { go_run = nat_of_int (int_of_string run); go_seq = nat_of_int (int_of_string seq); go_keys = keys_of_l ks;
                  go_found = keys_of_l fs; go_err = sbool err } in
        if List.length fs = List.length ks && not (sbool err) then incr nhits
        else if fs <> [] then incr npartial;
        gets := g :: !gets;
        if not (miss_sends_b ups_obs g) then
          add "specfail" (Printf.sprintf "all_or_nothing op=%d run=%s: lookup of %d keys found %d (err=%b) but the full upstream request was not sent"
                            opi run (List.length ks) (List.length fs) (sbool err))
      | L [A "set"; A run; A seq; L (A "items" :: its); L (A "stored" :: _); _; A _] ->
        let items = List.filter_map (function
          | L [A "it"; k; j; _; A ttl] -> (match key_of k with Some k -> Some ((k, json_of j), z_of_decimal ttl) | None -> incr unknown_keys; None)
          | _ -> None) its in
        nstored := !nstored + List.length items;
        let s = { so_run = nat_of_int (int_of_string run); so_seq = nat_of_int (int_of_string seq); so_items = items } in
        if not (refused_b default ups_obs s) then
          add "specfail" (Printf.sprintf "refused op=%d run=%s: entities stored from a response whose Cache-Control gives no lifetime" opi run)
        else if not (stored_ok_b default ups_obs s) then
          add "specfail" (Printf.sprintf "stored_ok op=%d run=%s: stored from an unclean response, with a lifetime above the header's, or not the entity the response holds at the key's position" opi run)
      | _ -> raise (Sexp_error "cachelog op")) logx;
    List.iter (fun u ->
      if not (sent_has_miss_b !gets u) then
        add "specfail" (Printf.sprintf "all_or_nothing run=%d seq=%d: an entity request went upstream without a preceding lookup miss (full hit not used)"
                          (int_of_nat u.uo_run) (int_of_nat u.uo_seq))) ups_obs;
    if !unknown_keys > 0 then add "specfail" (Printf.sprintf "stored_ok %d cache keys do not belong to any observed request" !unknown_keys);
    List.iter (fun (i, _, st, detail, out, nst, nocache, _, _, _, _, _, _, _) ->
      if st <> "ok" && nst = "ok" then add "specfail" (Printf.sprintf "cache_fault_isolated step=%d the request failed with the cache attached: %s" i detail)
      else if out <> nocache then
        add "specfail" (Printf.sprintf "transparent step=%d with cache %s without %s" i (quote_string out) (quote_string nocache))) parsed_steps;
    (* ---------------- the model *)
    (try
      let hist = List.map (fun (_, pi, _, _, _, _, _, _, _, _, _, _, _, _) -> (plans.(pi).root, plans.(pi).tree)) parsed_steps in
      let (outs, xf) = run_history (exchange_cache oracle headers cfaults default) hist init_cstate in
      let (outs_plain, xp) = run_history (exchange_plain oracle headers) hist init_cstate in
      (* responses *)
      List.iteri (fun i ((o : outcome), (_, _, st, _, _, _, _, _, _, _, _, valid, draw, errs)) ->
        if o.o_failed then (if st = "ok" then add "mismatch" (Printf.sprintf "corr:C16/response step=%d model=failed impl=ok" i))
        else begin
          let mdata = string_of_bytes o.o_resolved.r_data in
          if st <> "ok" then add "mismatch" (Printf.sprintf "corr:C16/response step=%d model=ok impl=%s" i st)
          else begin
            if mdata <> draw then add "mismatch" (Printf.sprintf "corr:C16/response step=%d data model=%s impl=%s" i (quote_string mdata) (quote_string draw));
            let merrs = norm_errs (
              List.map (fun e -> if int_of_n e.le_kind = 6 then "(l 6 -1)" else Printf.sprintf "(l %s %s)" (decimal_of_n e.le_kind) (decimal_of_n e.le_fetch)) o.o_lerrors
              @ List.map (fun e -> Printf.sprintf "(v %s (%s))" (decimal_of_n e.ge_kind) (String.concat " " ("path" :: List.map show_pelem e.ge_path))) o.o_resolved.r_errors) in
            if valid && merrs <> errs then
              add "mismatch" (Printf.sprintf "corr:C16/response step=%d errors model=[%s] impl=[%s]" i (String.concat " " merrs) (String.concat " " errs))
          end
        end) (List.combine outs parsed_steps);
      (* the model itself is transparent on this history (the theorem, observed) *)
      List.iteri (fun i ((a : outcome), (b : outcome)) ->
        if a.o_failed <> b.o_failed || a.o_resolved.r_data <> b.o_resolved.r_data || a.o_lerrors <> b.o_lerrors then
          add "mismatch" (Printf.sprintf "corr:C16/response step=%d the model is not transparent" i)) (List.combine outs outs_plain);
      (* upstream requests, per step in order *)
      let m_ups run x = List.filter_map (fun ((r, rq), _) -> if int_of_nat r = run then Some (int_of_n rq.rq_fetch, List.map string_of_bytes rq.rq_reps) else None) x.cs_upstream in
      List.iter (fun (i, _, _, _, _, _, _, ups, nups, _, _, _, _, _) ->
        let i_ups = List.map (function L [A "u"; A fid; _; _; _; _; L (A "reps" :: reps); _; _] -> (int_of_string fid, List.map str reps) | _ -> raise (Sexp_error "u")) ups in
        let i_nups = List.map (function L (A fid :: reps) -> (int_of_string fid, List.map str reps) | _ -> raise (Sexp_error "nu")) nups in
        let show l = String.concat " " (List.map (fun (f, reps) -> Printf.sprintf "(%d %s)" f (String.concat "," reps)) l) in
        if m_ups i xf <> i_ups then add "mismatch" (Printf.sprintf "corr:C16/upstream step=%d model=[%s] impl=[%s]" i (show (m_ups i xf)) (show i_ups));
        if m_ups i xp <> i_nups then add "mismatch" (Printf.sprintf "corr:C16/upstream step=%d (no cache) model=[%s] impl=[%s]" i (show (m_ups i xp)) (show i_nups))) parsed_steps;
      (* cache log *)
      let show_mop = function
        | OpGet (keys, found, err) ->
          Printf.sprintf "get keys=[%s] found=[%s] err=%b" (String.concat " " (List.map show_key keys)) (String.concat " " (List.sort compare (List.map show_key found))) err
        | OpSet (items, stored, err) ->
          Printf.sprintf "set items=[%s] stored=[%s] err=%b"
            (String.concat " " (List.map (fun e -> show_key e.ce_key ^ "=" ^ show_json e.ce_value ^ "@" ^ decimal_of_z e.ce_ttl) items))
            (String.concat " " (List.map show_key stored)) err in
      let sk k = match key_of k with Some k -> show_key k | None -> "?" in
      let show_iop = function
        | L [A "get"; _; _; L (A "keys" :: ks); L (A "found" :: fs); err; _] ->
          Printf.sprintf "get keys=[%s] found=[%s] err=%b" (String.concat " " (List.map sk ks)) (String.concat " " (List.sort compare (List.map sk fs))) (sbool err)
        | L [A "set"; _; _; L (A "items" :: its); L (A "stored" :: st); err; _] ->
          Printf.sprintf "set items=[%s] stored=[%s] err=%b"
            (String.concat " " (List.map (function L [A "it"; k; j; _; A ttl] -> sk k ^ "=" ^ show_json (json_of j) ^ "@" ^ ttl | _ -> "?") its))
            (String.concat " " (List.map sk st)) (sbool err)
        | _ -> "?" in
      let mlog = List.map show_mop xf.cs_log and ilog = List.map show_iop logx in
      if mlog <> ilog then begin
        let rec first_diff i a b = match a, b with
          | x :: a', y :: b' -> if x = y then first_diff (i + 1) a' b' else Printf.sprintf "op %d model={%s} impl={%s}" i x y
          | x :: _, [] -> Printf.sprintf "op %d model={%s} impl=(end)" i x
          | [], y :: _ -> Printf.sprintf "op %d model=(end) impl={%s}" i y
          | [], [] -> "" in
        add "mismatch" ("corr:C16/cachelog " ^ first_diff 0 mlog ilog)
      end;
      let icerrs = List.fold_left (fun acc (_, _, _, _, _, _, _, _, _, _, c, _, _, _) -> acc + c) 0 parsed_steps in
      if int_of_nat xf.cs_reported <> icerrs then
        add "mismatch" (Printf.sprintf "corr:C16/cachelog reported cache errors model=%d impl=%d" (int_of_nat xf.cs_reported) icerrs)
    with
    | Oracle_miss m -> add "mismatch" ("corr:C16/upstream the model asks the oracle for something the implementation never asked: " ^ m)
    | Oracle_clash m -> add "error" m);
    let nnull = List.fold_left (fun acc u -> acc + List.length (List.filter (fun e -> e = JNull) u.uo_entities)) 0 ups_obs in
    let nullfirst = List.length (List.filter (fun u ->
      let rec go seen = function [] -> false | JNull :: r -> go true r | JObj _ :: r -> seen || go seen r | _ :: r -> go seen r in
      go false u.uo_entities) ups_obs) in
    let nontrivial = !nstored > 0 && !nhits > 0 in
    ("ok", Printf.sprintf "%s stored=%d hits=%d partial=%d steps=%d nullents=%d nullbeforeobj=%d" (if nontrivial then "nt" else "tr") !nstored !nhits !npartial (List.length steps) nnull nullfirst) :: List.rev !res
  | _ -> [("error", "unrecognised case")]

let () = run_lines Sys.argv.(1) Sys.argv.(2) handle
