#!/bin/sh
# Build the whole framework offline: anchors from /repo, all Coq proofs (full .vo build),
# the extracted OCaml model drivers and the Go harness binaries.
set -e
cd "$(dirname "$0")"
exec python3 tools/setup_all.py "$@"
