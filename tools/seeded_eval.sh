#!/bin/bash
# tools/seeded_eval.sh <patch.diff> <Cxx> [more Cyy...]: apply a seeded regression to /repo, run the checks, reverse it.
# Prints the VIOLATION / exit lines. Never leaves /repo modified (reverse-applies the same patch). Holds the
# exclusive /verif/work/repo.lock meanwhile (ordinary ./check runs hold it shared), so concurrent checks of other
# people never see the modified tree and two seeded regressions are never applied at once.
P=$(realpath "$1"); shift
mkdir -p /verif/work
exec 9>/verif/work/repo.lock
flock -x 9
export VERIF_REPO_LOCKED=1
git -C /repo apply --check "$P" || { echo "patch does not apply"; exit 2; }
git -C /repo apply "$P"
trap 'git -C /repo apply -R "$P"' EXIT
for c in "$@"; do
  out=$(cd /verif && ./check $c 2>&1); rc=$?
  echo "== $c exit=$rc"
  echo "$out" | grep "^VIOLATION" | cut -c1-260 | sort | uniq -c | sort -rn | head -12
  [ -n "$SEEDED_EVAL_LOG" ] && echo "$out" > "$SEEDED_EVAL_LOG.$c"
done
