#!/bin/bash
# tools/seeded_eval.sh <patch.diff> <Cxx> [more Cyy...]: apply a seeded regression to /repo, run the checks, reverse it.
# Prints the VIOLATION / exit lines. Never leaves /repo modified (reverse-applies the same patch).
P=$1; shift
git -C /repo apply --check "$P" || { echo "patch does not apply"; exit 2; }
git -C /repo apply "$P"
trap 'git -C /repo apply -R "$P"' EXIT
for c in "$@"; do
  out=$(cd /verif && ./check $c 2>&1); rc=$?
  echo "== $c exit=$rc"
  echo "$out" | grep "^VIOLATION" | cut -c1-260 | sort | uniq -c | sort -rn | head -12
done
