#!/usr/bin/env python3
"""Take in freshly written seeded regressions:  tools/seeded_intake.py <round> /tmp/mut/c01c [/tmp/mut/c02c ...]
For every <worktree>/_mutant/<i>/ (patch.diff, *_test.go, README.md): property = from the worktree name (cNN...),
demo package dir = the "// Copy this file to <dir>/" line of the demonstration, confirm with tools/seeded_verify.py
(scratch worktree), evaluate with tools/seeded_eval.sh (exclusive repo lock; /repo restored), store as
/verif/seeded/<Cxx-mN>/ with meta.json (needs_to_manifest is taken from the README's "needs"/"trigger" section and
should be edited by hand afterwards). Prints one line per regression."""
import ast
import json
import os
import re
import shutil
import subprocess
import sys

ROOT = os.path.dirname(os.path.dirname(os.path.abspath(__file__)))
SUITES = {
    "C01": ["v2:./pkg/engine/plan/...", "v2:./pkg/engine/postprocess/", "v2:./pkg/engine/resolve/", "v2:./pkg/engine/datasource/graphql_datasource/...", "execution:./engine/"],
    "C02": ["v2:./pkg/engine/resolve/", "v2:./pkg/engine/postprocess/", "execution:./engine/"],
    "C03": ["v2:./pkg/astnormalization/...", "v2:./pkg/astvalidation/...", "execution:./engine/", "execution:./graphql/..."],
    "C04": ["v2:./pkg/astnormalization/...", "v2:./pkg/astvalidation/...", "execution:./engine/", "execution:./graphql/..."],
    "C05": ["v2:./pkg/lexer/...", "v2:./pkg/astparser/...", "v2:./pkg/astprinter/...", "v2:./pkg/ast/...", "execution:./graphql/..."],
    "C06": ["v2:./pkg/variablesvalidation/...", "v2:./pkg/astnormalization/...", "execution:./engine/"],
    "C07": ["v2:./pkg/engine/resolve/", "execution:./engine/"],
    "C08": ["v2:./pkg/engine/postprocess/", "v2:./pkg/engine/resolve/", "v2:./pkg/engine/datasource/graphql_datasource/", "execution:./engine/"],
    "C09": ["v2:./pkg/engine/resolve/", "v2:./pkg/engine/postprocess/", "v2:./pkg/engine/plan/...", "execution:./engine/"],
    "C10": ["v2:./pkg/engine/plan/...", "v2:./pkg/engine/resolve/", "v2:./pkg/engine/postprocess/", "execution:./engine/"],
    "C11": ["v2:./pkg/engine/resolve/", "execution:./engine/"],
    "C12": ["v2:./pkg/engine/resolve/", "execution:./engine/"],
    "C13": ["v2:./pkg/engine/resolve/", "v2:./pkg/engine/datasource/graphql_datasource/", "execution:./engine/"],
    "C14": ["v2:./pkg/engine/resolve/", "v2:./pkg/engine/postprocess/", "execution:./engine/"],
    "C15": ["v2:./pkg/astnormalization/...", "v2:./pkg/ast/...", "v2:./pkg/engine/datasource/graphql_datasource/...", "execution:./engine/"],
    "C16": ["v2:./pkg/engine/resolve/", "execution:./engine/"],
    "C17": ["v2:./pkg/introspection/...", "v2:./pkg/asttransform/...", "execution:./engine/"],
    "C18": ["v2:./pkg/engine/datasource/graphql_datasource/..."],
    "C19": ["execution:./subscription/..."],
    "C20": ["v2:./pkg/engine/datasource/grpc_datasource/..."],
}


def sh(cmd, timeout=7200):
    p = subprocess.run(cmd, shell=True, cwd=ROOT, stdout=subprocess.PIPE, stderr=subprocess.STDOUT, text=True, timeout=timeout)
    return p.returncode, p.stdout


def nextid(prop):
    n = 1
    try:
        dropped = open(os.path.join(ROOT, "seeded", "DROPPED.md")).read()
    except OSError:
        dropped = ""
    # never reuse the id of a stored or a dropped regression
    while os.path.exists(os.path.join(ROOT, "seeded", "%s-m%d" % (prop, n))) or ("**%s-m%d**" % (prop, n)) in dropped:
        n += 1
    return "%s-m%d" % (prop, n)


def needs_of(readme):
    m = re.search(r"(?is)^#+[^\n]*(need|trigger|manifest)[^\n]*\n(.*?)(?=^#+ |\Z)", readme, re.M)
    txt = m.group(2) if m else readme
    txt = re.sub(r"\s+", " ", txt).strip()
    return txt[:600]


def main():
    rnd = int(sys.argv[1])
    for wt in sys.argv[2:]:
        prop = "C" + re.match(r"c(\d\d)", os.path.basename(wt.rstrip("/"))).group(1)
        mroot = os.path.join(wt, "_mutant")
        for i in sorted(os.listdir(mroot)):
            src = os.path.join(mroot, i)
            if not os.path.isfile(os.path.join(src, "patch.diff")):
                continue
            name = nextid(prop)
            dst = os.path.join(ROOT, "seeded", name)
            os.makedirs(dst)
            pkgs = {}
            for f in sorted(os.listdir(src)):
                if not os.path.isfile(os.path.join(src, f)):
                    continue
                shutil.copy(os.path.join(src, f), os.path.join(dst, f))
                if f.endswith("_test.go"):
                    head = open(os.path.join(src, f), errors="replace").read(400)
                    m = re.search(r"Copy this file to\s+`?([A-Za-z0-9_./-]+?)/?`?\s", head + " ")
                    pkgs[f] = m.group(1).rstrip("/") if m else None
            primary = next((p for f, p in sorted(pkgs.items()) if p), None)
            for f, p in pkgs.items():
                if p != primary:
                    os.rename(os.path.join(dst, f), os.path.join(dst, f + ".txt"))
            suites = list(SUITES[prop])
            if primary:
                mod, rel = primary.split("/", 1)
                s = "%s:./%s/" % (mod, rel)
                if s not in suites and not any(x.startswith("%s:./%s" % (mod, rel.rsplit("/", 1)[0])) and x.endswith("...") for x in suites):
                    suites.insert(0, s)
            readme = open(os.path.join(src, "README.md"), errors="replace").read() if os.path.exists(os.path.join(src, "README.md")) else ""
            meta = {"id": name, "property": prop, "round": rnd, "needs_to_manifest": needs_of(readme), "demo_package_dir": primary,
                    "confirmed": {"script": "tools/seeded_verify.py", "suites": suites}, "detected_by": "pending"}
            json.dump(meta, open(os.path.join(dst, "meta.json"), "w"), indent=1)
            rc, out = sh("python3 tools/seeded_verify.py %s %s %s" % (dst, primary, " ".join(suites)))
            try:
                ver = ast.literal_eval(out.strip().split("\n")[-1])
            except Exception:
                ver = {"error": out[-300:]}
            okv = all(ver.get(k) for k in ("clean_demo_passes", "patch_applies", "mutant_demo_fails", "mutant_suites_pass"))
            rc, out = sh("tools/seeded_eval.sh %s %s" % (os.path.join(dst, "patch.diff"), prop))
            ex = re.search(r"== %s exit=(\d+)" % prop, out)
            kinds = sorted(set(re.findall(r"VIOLATION property=\S+ replay=\S+ (\S+)( no-failing-input-found)?", out)))
            ks = [k + (" no-failing-input-found" if nf else "") for k, nf in kinds]
            detected = bool(ex and ex.group(1) == "1" and kinds)
            if detected and any(not nf for _, nf in kinds):
                meta["detected_by"] = "./check %s (quick): VIOLATION %s with the generated case / schedule as replay" % (prop, ", ".join(ks))
            elif detected:
                meta["detected_by"] = "./check %s (quick): only %s (no failing input exhibited); check being extended" % (prop, ", ".join(ks))
            else:
                meta["detected_by"] = "MISSED by ./check %s at the time of seeding; check being extended" % prop
            meta["confirmation"] = ver
            json.dump(meta, open(os.path.join(dst, "meta.json"), "w"), indent=1)
            print("%s (%s/%s) confirmed=%s detected=%s %s" % (name, os.path.basename(wt), i, okv if okv else ver, detected, ", ".join(ks)[:150]), flush=True)


if __name__ == "__main__":
    main()
