"""Confirm a seeded mutant in a scratch worktree of /repo HEAD:
   clean: demo passes; mutated: package tests still pass, demo fails.
   usage: seeded_verify.py <mutant_dir> <demo_pkg_dir_relative_to_repo> <test pkgs (relative to module)>...
   e.g.   seeded_verify.py /tmp/mut/c02a/_mutant/1 v2/pkg/engine/resolve v2:./pkg/engine/resolve/"""
import os
import shutil
import subprocess
import sys
import tempfile

mdir, demo_pkg = os.path.abspath(sys.argv[1]), sys.argv[2]
pkgs = sys.argv[3:]
# fixed worktree paths (four slots, one flock each): Go's build cache is keyed by the package directory, a fresh
# random path per run would recompile everything and grow the cache by gigabytes per run
import fcntl
wt, _slot = None, None
while wt is None:
    for k in range(4):
        f = open("/tmp/seedwt_slot%d.lock" % k, "w")
        try:
            fcntl.flock(f, fcntl.LOCK_EX | fcntl.LOCK_NB)
        except OSError:
            f.close()
            continue
        wt, _slot = "/tmp/seedwt_slot%d" % k, f
        break
    else:
        import time
        time.sleep(5)
subprocess.call("git -C /repo worktree remove --force %s >/dev/null 2>&1; rm -rf %s; git -C /repo worktree prune" % (wt, wt), shell=True)
env = dict(os.environ, GOPROXY="off")


def sh(cmd, cwd):
    p = subprocess.run(cmd, shell=True, cwd=cwd, env=env, stdout=subprocess.PIPE, stderr=subprocess.STDOUT, text=True)
    return p.returncode, p.stdout[-1500:]


res = {}
try:
    subprocess.check_call("git -C /repo worktree add -q --detach %s HEAD" % wt, shell=True)
    demos = [f for f in os.listdir(mdir) if f.endswith("_test.go")]
    for d in demos:
        shutil.copy(os.path.join(mdir, d), os.path.join(wt, demo_pkg, "zz_seeded_" + d))
    mod = demo_pkg.split("/")[0]
    rel = "./" + "/".join(demo_pkg.split("/")[1:]) + "/"
    names = "|".join(sorted(set(l.split("(")[0].split()[1] for d in demos for l in open(os.path.join(mdir, d)) if l.startswith("func Test"))))
    rc, out = sh("go test -count=1 -run '%s' %s" % (names, rel), os.path.join(wt, mod))
    res["clean_demo_passes"] = rc == 0
    rc, out = sh("git apply %s" % os.path.join(mdir, "patch.diff"), wt)
    res["patch_applies"] = rc == 0
    rc, out = sh("go test -count=1 -run '%s' %s" % (names, rel), os.path.join(wt, mod))
    res["mutant_demo_fails"] = rc != 0
    for d in demos:
        os.remove(os.path.join(wt, demo_pkg, "zz_seeded_" + d))
    allok = True
    for spec in pkgs:
        m, p = spec.split(":")
        rc, out = sh("go test -count=1 %s" % p, os.path.join(wt, m))
        if rc != 0:
            allok = False
            res.setdefault("failing_suites", []).append(spec + " " + out[-300:])
    res["mutant_suites_pass"] = allok
finally:
    subprocess.call("git -C /repo worktree remove --force %s" % wt, shell=True)
print(res)
sys.exit(0 if all(res.get(k) for k in ("clean_demo_passes", "patch_applies", "mutant_demo_fails", "mutant_suites_pass")) else 1)
