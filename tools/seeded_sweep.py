#!/usr/bin/env python3
"""Re-evaluate every stored seeded regression against the current /repo and the current checks.
  tools/seeded_sweep.py [--only C01-m1,C02-m4] [--skip-verify]
For each /verif/seeded/<id>/: (1) does patch.diff still apply to /repo's working tree, (2) (unless --skip-verify)
tools/seeded_verify.py facts in a scratch worktree, (3) tools/seeded_eval.sh <patch> <property>: exit status and the
VIOLATION kinds printed. Results go to /verif/seeded/SWEEP.json and a table on stdout; meta.json is not touched.
/repo is only modified under the exclusive repo lock by seeded_eval.sh and restored by it."""
import glob
import json
import os
import re
import subprocess
import sys
import time

ROOT = os.path.dirname(os.path.dirname(os.path.abspath(__file__)))


def sh(cmd, timeout=3600):
    p = subprocess.run(cmd, shell=True, cwd=ROOT, stdout=subprocess.PIPE, stderr=subprocess.STDOUT, text=True, timeout=timeout)
    return p.returncode, p.stdout


def main():
    only, skip_verify = None, False
    a = sys.argv[1:]
    while a:
        if a[0] == "--only":
            only, a = set(a[1].split(",")), a[2:]
        elif a[0] == "--skip-verify":
            skip_verify, a = True, a[1:]
        else:
            a = a[1:]
    out = {}
    sweep = os.path.join(ROOT, "seeded", "SWEEP.json")
    if os.path.exists(sweep) and only:
        out = json.load(open(sweep))
    for mp in sorted(glob.glob(os.path.join(ROOT, "seeded", "*", "meta.json"))):
        m = json.load(open(mp))
        mid, prop = m["id"], m["property"]
        if only and mid not in only:
            continue
        d = os.path.dirname(mp)
        patch = os.path.join(d, "patch.diff")
        r = {"property": prop, "time": time.strftime("%Y-%m-%dT%H:%M:%SZ", time.gmtime())}
        rc, o = sh("git -C /repo apply --check %s" % patch)
        r["applies"] = rc == 0
        if rc == 0 and not skip_verify:
            suites = " ".join(m.get("confirmed", {}).get("suites", []))
            rc2, o2 = sh("python3 tools/seeded_verify.py %s %s %s" % (d, m["demo_package_dir"], suites), timeout=3600)
            last = o2.strip().split("\n")[-1]
            r["verify"] = last
        if rc == 0:
            rc3, o3 = sh("tools/seeded_eval.sh %s %s" % (patch, prop), timeout=5400)
            ex = re.search(r"== %s exit=(\d+)" % prop, o3)
            r["check_exit"] = int(ex.group(1)) if ex else None
            kinds = sorted(set(re.findall(r"VIOLATION property=\S+ replay=\S+ (\S+)( no-failing-input-found)?", o3)))
            r["violations"] = [k + (" no-failing-input-found" if nf else "") for k, nf in kinds]
            r["detected"] = bool(ex and int(ex.group(1)) == 1 and kinds)
            r["with_failing_input"] = any(not nf for _, nf in kinds)
        out[mid] = r
        print("%-8s applies=%s detected=%s %s" % (mid, r["applies"], r.get("detected"), ", ".join(r.get("violations", []))[:160]), flush=True)
        json.dump(out, open(sweep, "w"), indent=1, sort_keys=True)
    st = subprocess.run("git -C /repo status --short", shell=True, stdout=subprocess.PIPE, text=True).stdout
    print("repo status after sweep: %r" % st)


if __name__ == "__main__":
    main()
