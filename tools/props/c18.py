"""C18: upstream subscription connections are multiplexed without cross-talk -- see DESIGN.md."""
import os
import re

import anchors
import vlib

RULE = ("a case is one schedule of harness-controlled events (subscribe_i with option tuple -- endpoint, sub-protocol, a header MULTIMAP "
        "from a table of multi-valued / differently ordered / differently spelled / empty-valued variants, init payload --, cancel_i, upstream "
        "accept/reject/ack/init failure, per-id next/complete/error, foreign-id and junk-id frames, any frame of either "
        "sub-protocol's alphabet with/without id and payload, cancel of the dialler between ack and subscribe, drop, bad frame, idle "
        "tick), each followed by quiescence; distinct by the hash of its line; non-trivial when, per the model's state, a "
        "subscribe or a cancel is issued while a dial/init for the SAME connection key is in progress (two subscriptions "
        "overlap on one key inside the coalescing window), when a frame of the widened alphabet is read on a connection that "
        "carries more than one subscription, when a subscriber cancels from inside its terminal callback, or when the dialler is "
        "cancelled between connection_ack and its subscribe frame; SSE cases count when two streams interleave.")

# The three findings of the first build -- getOrDial-waiter-inherits-dialler-ctx-error,
# closeConn-after-emptiness-check-not-atomic, subscribe-write-with-cancelled-ctx-closes-shared-socket -- are repaired in
# /repo (fix: commits, KNOWN_FINDINGS.txt "fixed:" lines).  Nothing is classified as known any more: every failure of
# cancel_isolated, every timing-stress hit and every anchor that flips is reported as a VIOLATION.


def classify(case, detail):
    return None


def anchors_c18():
    src = anchors._read("v2/pkg/engine/datasource/graphql_datasource/subscriptionclient/transport/ws_transport.go")
    ck = anchors.func_body(src, "connKey")
    fields = []
    for f in re.findall(r"opts\.([A-Za-z]+)", ck):
        if f not in fields:
            fields.append(f)
    if not fields:
        raise anchors.AnchorError("connKey reads no opts field")
    # connKey, full body: endpoint NUL sub-protocol NUL Header.Write of the WHOLE multimap (every value of every name) NUL
    # JSON of the init payload.  Anything that walks the header map itself, indexes a value list or uses Get / Values
    # (a key over part of the multimap) does not match.
    ck_whole = bool(re.fullmatch(
        r"\{\s*h := pool\.Hash64\.Get\(\)\s*defer pool\.Hash64\.Put\(h\)\s*"
        r"_, _ = h\.WriteString\(opts\.Endpoint\)\s*_, _ = h\.WriteString\(\"\\x00\"\)\s*"
        r"_, _ = h\.WriteString\(string\(opts\.WSSubprotocol\)\)\s*_, _ = h\.WriteString\(\"\\x00\"\)\s*"
        r"if len\(opts\.Headers\) > 0 \{\s*_ = opts\.Headers\.Write\(h\)\s*\}\s*_, _ = h\.WriteString\(\"\\x00\"\)\s*"
        r"if len\(opts\.InitPayload\) > 0 \{\s*if data, err := json\.Marshal\(opts\.InitPayload\); err == nil \{\s*"
        r"_, _ = h\.Write\(data\)\s*\}\s*\}\s*return h\.Sum64\(\)\s*\}", ck))
    god = anchors.func_body(src, "getOrDial")
    dial_own_ctx = bool(re.search(r"t\.dial\(ctx,\s*key,\s*opts\)", god))
    # a waiter never inherits an aborted result: own ctx error or getOrDial again, tested BEFORE result.err
    waiter_no_abort = bool(re.search(
        r"if result\.aborted \{(?:\s*//[^\n]*)*\s*if err := ctx\.Err\(\); err != nil \{\s*return nil, err\s*\}\s*"
        r"return t\.getOrDial\(ctx, opts\)\s*\}\s*if result\.err != nil \{\s*return nil, result\.err", god)) \
        and bool(re.search(r"result\.aborted = err != nil && ctx\.Err\(\) != nil", god))
    # the dialler leaves the dialing table (and stores the connection) before it publishes the result
    i_del, i_store, i_close = god.find("delete(t.dialing, key)"), god.find("t.conns[key] = conn"), god.find("close(result.done)")
    book_first = 0 <= i_del < i_store < i_close and god.count("close(result.done)") == 1
    rc = anchors.func_body(src, "removeConn")
    rm_by_key = bool(re.search(r"delete\(t\.conns,\s*key\)", rc)) and "==" not in rc
    sub_t = anchors.func_body(src, "Subscribe")
    restart_on_closed = bool(re.search(
        r"cancel, err := conn\.subscribe\(ctx, id, req, handler\)\s*if errors\.Is\(err, common\.ErrConnectionClosed\) \{"
        r"(?:\s*//[^\n]*)*\s*return t\.Subscribe\(ctx, req, opts, handler\)\s*\}", sub_t))
    conn = anchors._read("v2/pkg/engine/datasource/graphql_datasource/subscriptionclient/transport/ws_conn.go")
    rs = anchors.func_body(conn, "removeSub")
    cie = anchors.func_body(conn, "closeIfEmpty")
    sub_c = anchors.func_body(conn, "subscribe")
    # "table empty" and the closed flag are decided in ONE subsMu critical section; removeSub and the idle timer
    # close only through closeIfEmpty; subscribe tests the flag under the same lock before it registers
    close_under_lock = bool(re.search(
        r"c\.subsMu\.Lock\(\)\s*closing := len\(c\.subs\) == 0 && c\.closed\.CompareAndSwap\(false, true\)\s*"
        r"c\.subsMu\.Unlock\(\)\s*if closing \{\s*c\.teardown\(", cie)) \
        and "closeConn(" not in rs and "shutdown(" not in rs and "teardown(" not in rs \
        and bool(re.search(r"time\.AfterFunc\(c\.idleTimeout, c\.closeIfEmpty\)", rs)) \
        and bool(re.search(r"\} else \{\s*c\.closeIfEmpty\(\)", rs)) \
        and bool(re.search(r"^\s*c\.subsMu\.Lock\(\)\s*if c\.closed\.Load\(\) \{\s*c\.subsMu\.Unlock\(\)\s*"
                           r"return nil, common\.ErrConnectionClosed", sub_c.split("{", 1)[1]))
    # the subscribe frame is written under the connection's ctx; the subscriber's ctx is only read before the write
    write_conn_ctx = bool(re.search(r"context\.WithTimeout\(c\.ctx, c\.writeTimeout\)", sub_c)) \
        and not re.search(r"context\.With\w+\(ctx\b", sub_c) \
        and bool(re.search(r"err := ctx\.Err\(\)\s*if err == nil \{\s*err = c\.protocol\.Subscribe\(subscribeCtx, c\.conn, id, req\)",
                           sub_c)) \
        and len(re.findall(r"c\.protocol\.Subscribe\(", sub_c)) == 1
    # subscribe registers the handler BEFORE it looks at the subscriber's ctx; every failure after the registration leaves
    # through removeSub (which starts the close flow of a connection left without subscriptions)
    i_reg, i_ctx = sub_c.find("c.subs[id] = handler"), sub_c.find("ctx.Err()")
    reg_first = 0 <= i_reg < i_ctx and sub_c.count("ctx.Err()") == 1 and "ctx.Done()" not in sub_c \
        and bool(re.search(r"if err != nil \{\s*c\.log\.Error\([^;]*?\)\s*c\.removeSub\(id\)\s*return nil, err\s*\}", sub_c, re.S)) \
        and len(re.findall(r"return nil, ", sub_c)) == 3
    # dispatch: lookup of msg.ID under subsMu, that ONE handler is called with IntoClientMessage(), the id is removed iff the
    # WIRE type is complete / error, nothing else is touched; the read loop dispatches data / error / complete, answers ping,
    # and a read error shuts the connection down
    disp = anchors.func_body(conn, "dispatch")
    rl = anchors.func_body(conn, "readLoop")
    dispatch_local = bool(re.fullmatch(
        r"\{\s*c\.subsMu\.RLock\(\)\s*handler, exists := c\.subs\[msg\.ID\]\s*c\.subsMu\.RUnlock\(\)\s*if !exists \{\s*return\s*\}\s*"
        r"handler\(msg\.IntoClientMessage\(\)\)\s*if msg\.Type == protocol\.MessageComplete \|\| msg\.Type == protocol\.MessageError \{\s*"
        r"c\.removeSub\(msg\.ID\)\s*\}\s*\}", disp)) \
        and bool(re.search(r"case protocol\.MessageData, protocol\.MessageError, protocol\.MessageComplete:\s*c\.dispatch\(msg\)\s*\}", rl)) \
        and bool(re.search(r"msg, err := c\.protocol\.Read\(c\.ctx, c\.conn\)\s*if err != nil \{.*?c\.shutdown\(fmt\.Errorf\(\"%w: read: %w\", "
                           r"common\.ErrConnectionClosed, err\)\)\s*return\s*\}", rl, re.S)) \
        and rl.count("c.shutdown(") == 2 and rl.count("c.dispatch(") == 1
    psrc = anchors._read("v2/pkg/engine/datasource/graphql_datasource/subscriptionclient/protocol/protocol.go")
    icm = anchors.func_body(psrc, "IntoClientMessage")
    into_client = bool(re.fullmatch(
        r"\{\s*switch m\.Type \{\s*case MessageData:\s*return &common\.Message\{Type: common\.MessageTypeData, Payload: m\.Payload\}\s*"
        r"case MessageError:\s*if m\.Payload != nil \{\s*return &common\.Message\{Type: common\.MessageTypeError, Payload: m\.Payload\}\s*\}\s*"
        r"return &common\.Message\{Type: common\.MessageTypeConnectionError, Err: m\.Err\}\s*"
        r"case MessageComplete:\s*return &common\.Message\{Type: common\.MessageTypeComplete\}\s*"
        r"default:\s*return &common\.Message\{Type: common\.MessageTypeUnknown\}\s*\}\s*\}", icm))
    msrc = anchors._read("v2/pkg/engine/datasource/graphql_datasource/subscriptionclient/common/message.go")
    into_client = into_client and bool(re.search(
        r"return t == MessageTypeError \|\| t == MessageTypeComplete \|\| t == MessageTypeConnectionError", anchors.func_body(msrc, "IsTerminal")))

    def decode_table(rel, recv):
        src = anchors._read(rel)
        m = re.search(r"func \(p \*%s\) decode\(raw incomingMessage\) \(\*WireMessage, error\) " % recv, src)
        if not m:
            raise anchors.AnchorError("decode of %s not found" % recv)
        body = anchors.func_body(src[m.start():], "decode")
        consts = dict(re.findall(r"(\w+)\s*=\s*\"([^\"]*)\"", src))
        sw = body[body.index("switch raw.Type"):]
        arms = re.split(r"\n\tcase ", sw)[1:]
        table = []
        for a in arms:
            name = a.split(":", 1)[0].strip()
            rest = a.split(":", 1)[1].split("\n\tdefault:")[0]
            t = re.findall(r"msg\.Type = (\w+)", rest)
            if name not in consts or len(t) != 1:
                raise anchors.AnchorError("decode arm %s of %s" % (name, recv))
            table.append((consts[name], t[0]))
        # shape of the arms the model distinguishes: a data payload that does not unmarshal is an error; an error payload
        # is kept raw; the default arm is an error; connection_error sets Err and no Payload
        shape = bool(re.search(r"default:\s*return nil, fmt\.Errorf\(\"unknown message type: %s\", raw\.Type\)", sw)) \
            and len(re.findall(r"if raw\.Payload != nil \{\s*var resp common\.ExecutionResult\s*if err := json\.Unmarshal\(raw\.Payload, &resp\); "
                               r"err != nil \{\s*return nil, ", sw)) == 1 \
            and len(re.findall(r"msg\.Type = MessageError\s*if raw\.Payload != nil \{\s*msg\.Payload = &common\.ExecutionResult\{Errors: raw\.Payload\}",
                               sw)) == 1 \
            and "ID: raw.ID" in body
        if recv == "graphqlWS":
            shape = shape and bool(re.search(r"case gwsTypeConnectionError:\s*msg\.Type = MessageError\s*var errPayload map\[string\]any\s*"
                                             r"if raw\.Payload != nil \{\s*_ = json\.Unmarshal\(raw\.Payload, &errPayload\)\s*\}\s*"
                                             r"msg\.Err = fmt\.Errorf\(", sw))
        if not shape:
            table.append(("<shape>", "changed"))
        return table

    tws = decode_table("v2/pkg/engine/datasource/graphql_datasource/subscriptionclient/protocol/graphql_transport_ws.go", "graphqlTransportWS")
    gws = decode_table("v2/pkg/engine/datasource/graphql_datasource/subscriptionclient/protocol/graphql_ws.go", "graphqlWS")
    pairs = lambda t: anchors.coq_list("(%s, %s)" % (anchors.coq_bytes(a.encode()), anchors.coq_bytes(b_.encode())) for a, b_ in t)
    b = lambda x: "true" if x else "false"
    txt = "(* GENERATED by tools/props/c18.py from /repo -- do not edit *)\n"
    txt += "From Gv Require Import lib.Bytes.\nOpen Scope N_scope.\n"
    txt += "Definition anchor_connkey_fields : list bytes := %s.\n" % anchors.coq_list(anchors.coq_bytes(f.encode()) for f in fields)
    txt += "Definition anchor_connkey_whole_header_multimap : bool := %s.\n" % b(ck_whole)
    txt += "Definition anchor_dial_uses_caller_ctx : bool := %s.\n" % b(dial_own_ctx)
    txt += "Definition anchor_waiter_never_inherits_abort : bool := %s.\n" % b(waiter_no_abort)
    txt += "Definition anchor_book_before_publish : bool := %s.\n" % b(book_first)
    txt += "Definition anchor_removeconn_by_key : bool := %s.\n" % b(rm_by_key)
    txt += "Definition anchor_subscribe_restarts_on_closed : bool := %s.\n" % b(restart_on_closed)
    txt += "Definition anchor_close_decided_under_lock : bool := %s.\n" % b(close_under_lock)
    txt += "Definition anchor_subscribe_write_conn_ctx : bool := %s.\n" % b(write_conn_ctx)
    txt += "Definition anchor_subscribe_registers_before_ctx_test : bool := %s.\n" % b(reg_first)
    txt += "Definition anchor_dispatch_by_id_local : bool := %s.\n" % b(dispatch_local)
    txt += "Definition anchor_into_client_message : bool := %s.\n" % b(into_client)
    txt += "Definition anchor_decode_tws : list (bytes * bytes) := %s.\n" % pairs(tws)
    txt += "Definition anchor_decode_gws : list (bytes * bytes) := %s.\n" % pairs(gws)
    return anchors.write_if_changed(os.path.join(vlib.COQ, "gen", "Anchors_C18.v"), txt)


def _later_only(x):
    """two subscribers whose option tuples differ only in the header multimap and agree on every name's first value"""
    head = x.split("(sched")[0]
    keys = re.findall(r"\(\d+ (\d+) (\d+) (\d+) (\d+)\)", head.split("(hdrs")[0])
    rows = {}
    for m in re.finditer(r"\((\d+) \d+((?: \(\d+(?: \d+)*\))*)\)", head.split("(hdrs")[-1]):
        ents = re.findall(r"\((\d+)((?: \d+)*)\)", m.group(2))
        rows[m.group(1)] = [(n, v.split()) for n, v in ents]
    for a in range(len(keys)):
        for b in range(a + 1, len(keys)):
            ka, kb = keys[a], keys[b]
            if ka[:2] == kb[:2] and ka[3] == kb[3] and ka[2] != kb[2] and ka[2] in rows and kb[2] in rows:
                ra, rb = rows[ka[2]], rows[kb[2]]
                if ra != rb and [(n, v[:1]) for n, v in ra] == [(n, v[:1]) for n, v in rb]:
                    return True
    return False


def sched_head(case):
    """the '(idle ..) (keys ..) (sched ..)' part of a case line, in corpus syntax"""
    m = re.match(r"\(c18 (ws|sse) (.*?) \(wins ", case)
    if not m:
        return None
    return ("sse " if m.group(1) == "sse" else "") + m.group(2)


def run(chk, only_corpus=None):
    thorough = chk.tier != "quick"
    chk.coverage["rule"] = RULE
    chk.assumptions += [
        "Coq 8.16.1 kernel (coqc, full .vo build); vm_compute only in Examples and refutation witnesses",
        "extraction with ExtrOcamlBasic only; ocamlfind ocamlopt; ocaml/common/prelude.ml + ocaml/c18/driver.ml "
        "(maps harness events to model actions, runs the model's internal actions to quiescence, canonicalises each window)",
        "tools/props/c18.py anchors (regex): fields hashed by connKey and connKey's full body (endpoint, sub-protocol, Header.Write of "
        "the whole header multimap, init payload JSON, NUL-separated); getOrDial dials with the caller's ctx, a waiter tests "
        "result.aborted before result.err (own ctx error or getOrDial again), aborted := err != nil && ctx.Err() != nil, the "
        "dialler leaves the dialing table before close(done); removeConn deletes by key; Subscribe starts over on "
        "ErrConnectionClosed; closeIfEmpty tests emptiness and CASes closed inside one subsMu section and is the only close "
        "path of removeSub / the idle timer, subscribe tests closed under the same lock; the subscribe frame is written under "
        "c.ctx and the caller's ctx is read only before the write; subscribe registers before it reads the caller's ctx and leaves through "
        "removeSub; dispatch = lookup of msg.ID under subsMu, that one handler called with IntoClientMessage(), removeSub iff the WIRE "
        "type is complete/error, nothing else (full-body match), readLoop dispatches data/error/complete and shuts down on a read error; "
        "IntoClientMessage and IsTerminal (full-body match); the two decode switches as (type string, wire type) tables + arm shapes",
        "Spec.spec_class (what an upstream frame means: per-subscription / nobody's / protocol violation) is a hand-written reading of "
        "the two protocol documents and of the decoders; id-less frames are classified as nobody's because the code drops them",
        "A-hash: connKey's 64-bit hash is modelled as the tuple itself (no collisions); the headers enter the model's key as the line "
        "sequence Header.Write produces (every value of every name; hdr_lines) -- pinned by the full-body anchor on connKey; the harness "
        "enumerates the map in sorted-name order as Header.Write does",
        "harness: the upstream reports, per upgrade request, the identity it saw (every value of every X- name as net/http's server "
        "parses them: names canonicalised, a name without values absent) as an index into the harness' header table; "
        "spec:shared_iff_same_key compares it with the identity of the option tuple of every subscriber whose subscribe frame arrives on "
        "that connection",
        "A-xid: xid.New() never repeats / is not guessable (wire ids are a counter; the upstream names only ids it was sent "
        "or ids nobody holds)",
        "A-fifo: TCP + coder/websocket deliver frames in order to the single read loop; an upstream frame is modelled at the "
        "moment it is read; A-cb: handler callbacks return",
        "modelled by hand and tied by correspondence: transport/ws_transport.go, ws_conn.go, sse_transport.go, sse_conn.go, "
        "protocol/*.go (only through init/subscribe/unsubscribe/decode classes); coder/websocket's behaviour on a cancelled "
        "write ctx (it closes the socket) is the reason every frame is written under the connection's ctx -- it is no longer "
        "reachable from a subscriber's ctx and appears only in the historical ModelV0; ping loop only as APingTimeout (not "
        "driven by the harness)",
        "harness: the dialler is cancelled between init and subscribe from the transport's own \"connected\" debug line "
        "(Config.Logger; recognised by message + field count) -- with a waiter behind that dial the order of the dialler's removeSub "
        "and the waiter's subscribe is a race the harness cannot fix: proved (all interleavings), not generated; a connection error "
        "made by the frame conversion is told from a connection going down by Message.Err (nil / ErrConnectionError / json error)",
        "harness: in-process net/http + coder/websocket upstream with gated accept/ack/frames, quiescence by log silence "
        "(6 ms, ping barrier after frames), idle period 250 ms fired by a 420 ms tick; the window between removeSub's / the idle "
        "timer's emptiness test and the close cannot be held open by any harness event (no source hook): it is covered by the "
        "model (close_if_empty is one action, anchored on the source) and probed by timing stress (b0/b1/d, not "
        "seed-deterministic), which must find nothing",
    ]
    try:
        anchors_c18()
    except anchors.AnchorError as e:
        chk.add_violation("tie:C18/anchors", "anchor translator: %s" % e, found_input=False)
    chk.proof_side()
    ok, log = vlib.build_model("C18")
    if not ok:
        chk.add_violation("tie:C18/model-build", log[-2000:], found_input=False)
        return
    ok, log, exe = vlib.build_harness("c18")
    if not ok:
        chk.add_violation("tie:C18/harness-build", log[-2000:], found_input=False)
        return
    model = os.path.join(vlib.BIN, "model_c18")
    state = {}
    samples = []

    def batch(cmd, tag, retry=True):
        b = vlib.run_batch(chk, cmd, model, tag, timeout=3000)
        if not b:
            return None
        cases, results = b
        # a correspondence mismatch may be a missed quiescence under load: re-run those schedules
        # alone with a long settle; only what persists counts
        bad = sorted(set(ln for (ln, st, _) in results if st in ("mismatch", "error")))
        if bad and retry:
            heads = [sched_head(cases[ln - 1]) for ln in bad if 0 < ln <= len(cases)]
            heads = [h for h in heads if h]
            if heads:
                tmp = os.path.join(chk.work, tag + ".retry.txt")
                open(tmp, "w").write("\n".join(heads) + "\n")
                b2 = vlib.run_batch(chk, "%s corpus -in %s -par 2 -settle 40 -out {out}" % (exe, tmp), model, tag + ".retry", timeout=3000)
                if b2:
                    keep = [r for r in results if r[0] not in bad]
                    vlib.digest_batch(chk, cases, keep, classify, state)
                    state["evals"] -= len(b2[0])
                    vlib.digest_batch(chk, b2[0], b2[1], classify, state)
                    chk.notes.append("%s: %d schedule(s) re-run with a 40 ms settle after a first-pass mismatch" % (tag, len(heads)))
                    return cases
        vlib.digest_batch(chk, cases, results, classify, state)
        return cases

    corpus = only_corpus or os.path.join(vlib.ROOT, "corpus", "C18", "schedules.txt")
    c = batch("%s corpus -in %s -out {out}" % (exe, corpus), "corpus")
    if c:
        samples += [x[:400] for x in c[:2]]
    if only_corpus:
        vlib.conclude_differential(chk, state, None)
        chk.coverage["samples"] = samples
        return
    tier = "thorough" if thorough else "quick"
    c = batch("%s gen -seed %d -tier %s -out {out}" % (exe, chk.seed, tier), "gen")
    if c:
        samples += [x[:400] for x in c[:3]]
        dist = {"schedules": len(c), "sse": sum(1 for x in c if x.startswith("(c18 sse")),
                "idle0": sum(1 for x in c if "(idle 0)" in x), "idle_short": sum(1 for x in c if "(idle 1)" in x),
                "idle_1h": sum(1 for x in c if "(idle 2)" in x),
                "with_cancel": sum(1 for x in c if "(cancel " in x.split("(wins")[0]),
                "with_cancelled_ctx_subscribe": sum(1 for x in c if "(presub " in x.split("(wins")[0]),
                "redials_after_aborted_dial_or_closed_conn": sum(
                    1 for x in c if re.search(r"\(w \((?:cancel|complete|error|next|tick)[^()]*\)[^w]*\(sdial ", x.split("(minus")[0])),
                "with_fault": sum(1 for x in c if re.search(r"\((reject|initfail|drop|bad) ", x.split("(wins")[0])),
                "with_alphabet_frame": sum(1 for x in c if "(frame " in x.split("(wins")[0]),
                "frames_by_type(next,data,error,complete,connection_error,ping,pong,ka,ack,other,garbage)": [
                    sum(len(re.findall(r"\(up \d+ \d %d " % t, x.split("(minus")[0])) for x in c) for t in range(11)],
                "frames_without_id": sum(len(re.findall(r"\(up \d+ \d \d+ -1 ", x.split("(minus")[0])) for x in c),
                "frames_legacy_protocol": sum(len(re.findall(r"\(up \d+ 1 ", x.split("(minus")[0])) for x in c),
                "conversion_made_connection_errors_delivered": sum(len(re.findall(r"\(dlv \d+ x ", x.split("(minus")[0])) for x in c),
                "dialler_cancelled_between_ack_and_subscribe": sum(1 for x in c if re.search(r"\(w \(ack \d+\)[^w]*\(cancel ", x.split("(minus")[0])),
                "sse_alphabet_events": sum(x.count("(sframe ") for x in c if x.startswith("(c18 sse")) // 2,
                "two_keys": sum(1 for x in c if len(set(re.findall(r"\(\d+ (\d+ \d+ \d+ \d+)\)", x.split("(hdrs")[0]))) > 1),
                "with_multi_valued_header": sum(1 for x in c if re.search(r"\(\d+ \d+ (?:\(\d+(?: \d+)?\) )*\(\d+ \d+ \d+", x.split("(sched")[0].split("(hdrs")[-1])),
                "header_variants_used(table index: schedules)": {
                    h: n for h, n in sorted(((h, sum(1 for x in c if re.search(r"\(\d+ \d+ \d+ %d \d+\)" % h, x.split("(hdrs")[0]))) for h in range(1, 15)))
                    if n},
                "keys_equal_up_to_later_header_values": sum(1 for x in c if _later_only(x)),
                "three_subscribers": sum(1 for x in c if "(sub 2 " in x.split("(wins")[0]),
                "events_per_schedule_max": max((x.split("(wins")[0].count("(") - 3) for x in c) if c else 0,
                "ret_ok": sum(x.split("(minus")[0].count(" ok)") for x in c),
                "ret_err_classes": {k: sum(x.split("(minus")[0].count(" %s)" % k) for x in c) for k in ("ctx", "dial", "init", "closed", "write")},
                "connerr_callbacks": sum(x.split("(minus")[0].count("(cerr ") for x in c)}
        chk.coverage["distribution"] = dist
    if thorough:
        ok, log, rexe = vlib.build_harness("c18", race=True)
        if ok:
            rc, out = vlib.sh("%s gen -seed %d -tier quick -out %s" % (rexe, chk.seed + 7, os.path.join(chk.work, "race.cases")),
                              cwd=vlib.ROOT, timeout=1800, env=vlib.GOENV)
            chk.coverage["race_detector"] = "DATA RACE" in out and "reported" or "clean"
            if "DATA RACE" in out:
                chk.add_violation("race:C18", out[-3000:], found_input=True, key="data-race")
    # ---- timing stress for the windows no harness event can hold open (not seed-deterministic)
    ms = 20000 if thorough else 2500
    st = {}
    for kind, what in (("d", "bystander on the shared connection gets a connection error (or the caller something else than "
                             "its own ctx error) when another Subscribe runs with an already cancelled ctx"),
                       ("b0", "Subscribe on a live key fails (ErrConnectionClosed / write on closed socket / connection "
                              "error) because another subscriber's cancel closed the connection after it had seen the "
                              "table empty"),
                       ("b1", "same window through the idle timer")):
        outp = os.path.join(chk.work, "stress_%s.cases" % kind)
        rc, out = vlib.sh("%s stress -kind %s -n %d -out %s" % (exe, kind, ms, outp), cwd=vlib.ROOT, timeout=600, env=vlib.GOENV)
        line = open(outp).read().strip() if os.path.exists(outp) else ""
        m = re.search(r"\(tries (\d+)\) \(hits (\d+)\)", line)
        if rc != 0 or not m:
            chk.notes.append("stress %s did not run: %s" % (kind, out[-300:]))
            continue
        st[kind] = {"tries": int(m.group(1)), "hits": int(m.group(2)), "line": line}
        if int(m.group(2)) > 0:
            chk.add_violation("spec:cancel_isolated/stress-" + kind, "%s: %s" % (what, line),
                              case={"cmd": "harness/bin/c18 stress -kind %s -n %d" % (kind, ms), "result": line})
    chk.coverage["timing_stress"] = st

    def more(stt):
        for k in range(1, 4):
            batch("%s gen -seed %d -tier quick -out {out}" % (exe, chk.seed * 1000 + k), "more%d" % k)
            if any(kk is None for (kk, _, _) in stt.get("specfail", [])):
                break

    vlib.conclude_differential(chk, state, more)
    chk.coverage["samples"] = samples


def replay(chk, path):
    import json
    r = json.load(open(path))
    case = r.get("case")
    chk.log("replay: %s" % (str(case)[:300]))
    if isinstance(case, str):
        h = sched_head(case)
        if h:
            tmp = os.path.join(chk.work, "replay.txt")
            open(tmp, "w").write(h + "\n")
            run(chk, only_corpus=tmp)
            return
    run(chk)
