"""C10: @defer delivers the same data incrementally with a well-formed stream -- see DESIGN.md."""
import os
import re

import vlib

RULE = ("(1) spec on the real engine: operations from the fedlab operation generator over four fixed federation "
        "configurations (mono: one subgraph with lists, an interface and a union; grid: mono plus a list of lists; entity: User split "
        "over two subgraphs with a split value type; fed: accounts/reviews/products entity chains through lists) drawn from the feature "
        "space of the ordinary operations (aliases, named and inline fragments, type conditions, __typename, duplicated fields, "
        "@skip/@include with literals and variables, depth up to 5), then an alias pass (none / list fields and their ancestors / any "
        "field / every composite field; one fresh alias per response position so merged fields still merge), @defer "
        "put on existing inline fragments / fragment spreads and on new anonymous / typed / named wrappers around "
        "random subsets of selection sets at every depth (nested, sibling, in lists, under abstract types, around "
        "entity boundaries; label, if:true, if:false, if:$var), and in 2/3 of the operations one more wrapper forced at a selection "
        "set of a placement class chosen per operation (directly on list items / one or more object levels below list items / below "
        "two list levels / under a narrowing type condition / under a type condition and below list items; the base operation is "
        "redrawn until it offers the class); a seeded universe per operation (nulls, failing "
        "resolvers on nullable positions, 0-4 extra nulls / failures on NON-NULL positions), and per operation up to "
        "K completion orders of the deferred subgraph requests driven by a gate in the RoundTripper (first-blocked, "
        "all-at-once, DFS enumeration when few groups, seeded random otherwise).  (2) correspondence: random response "
        "plans (gvh/plan generator, depth <= 4) with defer ids assigned by a scope-respecting rule (1/6 of them "
        "sprinkled at random: malformed stream), descriptors, 1-2 payloads (well-typed, then 0-5 mutations), data "
        "given whole to the primary fetch or sliced per defer layer, run through the real postprocess "
        "(extractDeferFetches, buildDeferTree) and the real Resolver.ResolveGraphQLDeferResponse under 1-3 seeded "
        "release orders; in 1/4 of the well-formed full-data plans one or two groups (preferably ones with a sibling defer) fail HARD in their "
        "fetch phase (ResolveFetchNode returns a Go error: the rate limiter or the pre-fetch authorizer returns an error in the prepare "
        "phase, or the subgraph answers a JSON array that the merge phase cannot merge -- a Load error or a soft deny does not take that "
        "branch), and in 4/5 of those (and 1/12 of the others) every Flush but the first is slow: while it is in progress one more blocked group gets "
        "its answer, so anything that is not serialised behind the DataBuffer lock shows up inside that Flush.  The writer records what every "
        "Flush call hands over; flush_atomic (Go twin + extracted flushes_ok_b): exactly one frame per Flush, no writer call during a Flush, "
        "no Flush after the frame with hasNext:false.  corpus/C10/hardfail_plans.txt holds the minimal sibling / nested plans per failure kind.  (3) plan level: for every generated operation the ancestor chain (alias, field name, type condition) of the "
        "selection set in which each defer id is first met, read off the normalised document by a walk of the harness, the supergraph "
        "as the collector reads it, and the DeferDescriptors of the real planner: the model's defer_path against the descriptor path "
        "(corr:C10/descpath) and the extracted checker desc_path_ok_b on the descriptor (descriptor_path).  A case is distinct by the hash of its line; non-trivial when at least two defer ids are "
        "announced or a nested id is announced by a later frame (spec) / the plan has at least two descriptors (corr).")

KEYS = {
    "defer-merged-field-lost":
        "two sibling (not nested) @defer fragments select the same object field with different sub-selections: the merged field keeps one defer id and the other fragment's sub-fields are fetched but never delivered",
    "defer-under-typed-list-dropped":
        "a @defer below a list field that was selected under a type condition on an abstract type is never announced nor delivered (deferInfoCollector.outermostListFieldIndex gives up, the descriptor path runs through the list and the anchor reads as dead)",
    "defer-merged-mount-wrong-anchor":
        "a @defer fragment whose top-level fields are all also selected outside the fragment (merged into the primary response) is anchored below its true mount: when the field carrying the anchor is null the fragment and its nested defers (mounted above the null) are cancelled; the other half (items of other branches with a subPath that does not compose with the pending path) was repaired by 98fef79",
    "defer-planner-empty-selection":
        "planning fails with 'selection set on path ... is empty' only when @defer is present (a composite field of a type served by two subgraphs whose merged selection set has direct children in two different active @defer fragments)",
}


def classify(case, detail):
    # the renderer / validation findings (null data announcing pending, silent completion, failed parent
    # announcing children, nested lists, label uniqueness) were repaired (work/c10_fix_*.patch, fixed: lines
    # in KNOWN_FINDINGS.txt): their corpus cases are passing regressions and have no mapping any more.
    # Each remaining key is recognised STRUCTURALLY on the operation by the harness (c10lab/diag.go: the tag in
    # [diag=...]) or by the extracted model (driver: [quirk=...]), never by the wording of the failure alone, so
    # that a new failure with the same symptom (a member missing, a planning error) stays unclassified.
    d = detail
    if d.startswith("exec_error"):
        m = re.search(r"\[diag=([\w+-]*)\]", d)
        tags = m.group(1).split("+") if m else []
        if "selection set on path" in d and "is empty" in d and "split-defer-scopes" in tags:
            return "defer-planner-empty-selection"
        return None
    if d.startswith("descriptor_path"):
        # plan level: the DeferDescriptor path is not cut at the outermost list; known only when the extracted
        # model reproduces the path and attributes it to the un-narrowed lookup (static_gives_up)
        if "[quirk=typed-list]" in d:
            return "defer-under-typed-list-dropped"
        return None
    if d.startswith("descriptor_anchor"):
        # plan level, half (a) of defer-merged-mount-wrong-anchor (a descriptor path that is not a prefix of every
        # selection set of its defer): repaired by 98fef79 -- its return is a violation
        return None
    if d.startswith("descriptor_parent"):
        # plan level, half (b): the parent is anchored below its mount, above which a nested defer sits; known only
        # when the model reproduces both descriptor paths
        if "[quirk=below-mount]" in d:
            return "defer-merged-mount-wrong-anchor"
        return None
    if d.startswith("reconstruct") and "addresses nothing in the data delivered so far" in d:
        # half (a) end to end (pending path ++ subPath addresses nothing): repaired, a violation if it returns
        return None
    if d.startswith("reconstruct"):
        m = re.search(r"\[d0=(\w+) silent=(\d+) failed=(\d+) monoerr=(\d+) diag=([\w+-]*)\]", d)
        if not m:
            return None
        d0, silent, failed, monoerr, diag = m.group(1), int(m.group(2)), int(m.group(3)), int(m.group(4)), m.group(5)
        tags = diag.split("+") if diag else []
        if d0 == "null" or "nested-list" in tags:
            return None
        if "typed-list" in tags and monoerr > 0 and ": null without @defer, " in d:
            # a field of the dropped fragment fails in the one-shot execution and nulls this position there
            return "defer-under-typed-list-dropped"
        if "missing in the reconstruction" not in d:
            return None
        if "typed-list" in tags:
            return "defer-under-typed-list-dropped"
        if "anchor-below-mount" in tags:
            # the member belongs to a defer cancelled by a dead ancestor anchor that lies below that ancestor's mount
            return "defer-merged-mount-wrong-anchor"
        # the losing fragment of a merged field may be left without any field: it is then completed with an
        # empty incremental list
        if "merged" in tags:
            return "defer-merged-field-lost"
        return None
    return None


def run(chk):
    quick = chk.tier == "quick"
    chk.coverage["rule"] = RULE
    chk.assumptions += [
        "Coq 8.16.1 kernel; extraction ExtrOcamlBasic only; ocaml/common/prelude.ml + ocaml/c10/driver.ml",
        "hand-written model (coq/C10/Model.v) of resolvable.go in defer mode, defer_tree.go and resolveDeferTree/resolveDeferSingle, "
        "tied by byte-exact correspondence of every frame (errors abstracted to (kind, path)) on hand-built plans run through the real "
        "postprocess and Resolver; the renderer is modelled on JSON trees (frame text = marshal of the frame tree; output that is not "
        "the text of a tree is flagged torn and not compared); leaves reuse the C02 pre-walk",
        "the model renders every batch on the data after all fetches (a group's fetch is a no-op on the data); slices per defer layer "
        "are exercised on the Go side only",
        "subgraph errors, authorization, custom field renderers, extensions, rate limiting and the FRAME of a hard fetch error (ResolveDeferError) are outside the model: "
        "runs with a hard failure are not compared with the model's frames; the specification (stream_ok_b, flushes_ok_b, frames whole) runs on them",
        "the DataBuffer lock and the writer's Flush boundaries are modelled in coq/C10/ModelFlush.v (Lock; write; Flush; Unlock per rendered group over the executor LTS; "
        "the short lock sections of a group's prepare / merge phases are not modelled: they write nothing); the harness writer (c10lab.Recorder) hands over at each Flush "
        "what was written since the previous one and can be slowed down (SlowFlush) -- hard failures and slow flushes exist on hand-built plans only, not end to end "
        "(ExecutionEngine.Execute offers no option to install a rate limiter)",
        "of the planner, deferInfoCollector.deferPath / outermostListFieldIndex (descriptor path from the ancestor chain, list-ness from the "
        "schema field by name) is modelled (coq/C10/DescPath.v) and tied by comparing the model's path with the real DeferDescriptors of "
        "every generated operation; which selection set a defer id is attributed to (first direct field child carrying the id, document "
        "order) is re-implemented in the harness (c10lab/desc.go chainsOf), not modelled; the rest of the planner / normaliser "
        "(astnormalization defer passes, path builder) is not modelled: covered by the direct spec checks on the engine only; "
        "defer_plan_wf states what they are assumed to produce",
        "known findings are recognised structurally on the operation by harness code (c10lab/diag.go) at the response position of the failure",
        "reconstruction is proved layer by layer (reconstruct_initial / reconstruct_layer / reconstruct_total) for the straight-line renderer of Spec.v section 4 "
        "(c_initial / c_batch / r_items), which is tied to the implementation and to the full model by the frame correspondence on every strict_clean case "
        "(corr:C10/clean) -- not by a Coq proof; NOT mechanised: that member-order differences left by earlier layers do not affect later merges (sequential "
        "composition of reconstruct_layer), that defers with a dead anchor contribute nothing, and that the executor's completion orders are exactly the "
        "parent-before-child linearisations of the live descriptors; the driver evaluates the composed statement (client_result vs C02 complete) on every clean case",
        "spec on the engine: harness-side frame parser, merger (path ++ subPath) and comparison (harness/c10lab/check.go); the reference "
        "for 'the same query without @defer' is bin/model_exec (Coq-extracted executor, mono mode) and the gateway's own non-deferred answer; "
        "completion orders are driven through an http.RoundTripper gate with a quiescence timeout (the order actually observed is what is recorded)",
    ]
    chk.proof_side(extra_dirs=["C02"])
    ok, log = vlib.build_model("C10")
    if not ok:
        chk.add_violation("tie:C10/model-build", log[-2000:], found_input=False)
        return
    ok, log, exe = vlib.build_harness("c10")
    if not ok:
        chk.add_violation("tie:C10/harness-build", log[-2000:], found_input=False)
        return
    model = os.path.join(vlib.BIN, "model_c10")
    state = {}
    samples = []
    dist = {}
    corpus = os.path.join(vlib.ROOT, "corpus", "C10", "cases.txt")
    b = vlib.run_batch(chk, "%s replay -in %s -orders 4 -out {out}" % (exe, corpus), model, "corpus")
    if b:
        vlib.digest_batch(chk, b[0], b[1], classify, state)
    # the two renderer-level witnesses of Properties.v (errors_reported_refuted, null_data_pending_refuted)
    plans = os.path.join(vlib.ROOT, "corpus", "C10", "hardfail_plans.txt")
    b = vlib.run_batch(chk, "%s witness -plans %s -out {out}" % (exe, plans), model, "witness")
    if b:
        vlib.digest_batch(chk, b[0], b[1], classify, state)
    n_spec, orders, allle = (300, 6, 3) if quick else (5000, 20, 4)
    n_corr = 1500 if quick else 60000
    workers = 8
    rep = os.path.join(chk.work, "spec.report")
    gdist = os.path.join(chk.work, "spec.dist")
    b = vlib.run_batch(chk, "%s spec -seed %d -n %d -orders %d -all %d -workers %d -report %s -dist %s -out {out}" % (
        exe, 100 + chk.seed, n_spec, orders, allle, workers, rep, gdist), model, "spec", timeout=7000)
    if b:
        vlib.digest_batch(chk, b[0], b[1], classify, state)
        samples += [c[:1200] for c in b[0][:2]]
        nd = {}
        for c in b[0]:
            if not c.startswith("(c10spec"):
                continue
            m = re.search(r"\(ndefer (\d+)\)", c)
            k = "announced=%s" % (m.group(1) if m else "?")
            nd[k] = nd.get(k, 0) + 1
        dist["spec_runs_by_announced_ids"] = nd
        dist["spec_runs"] = sum(1 for c in b[0] if c.startswith("(c10spec"))
        dist["spec_runs_with_failed_clause"] = sum(1 for c in b[0] if "(go (" in c)
        dist["descriptor_cases"] = sum(1 for c in b[0] if c.startswith("(c10desc"))
        dist["descriptor_cases_with_aliased_ancestor"] = sum(1 for c in b[0] if c.startswith("(c10desc") and c.endswith("(nt t))"))
        try:
            gen = {}
            for tok in open(gdist).read().split():
                if tok.startswith("gen.") and "=" in tok:
                    k, v = tok[4:].rsplit("=", 1)
                    gen[k] = int(v)
            dist["generator"] = gen
        except Exception:
            pass
    b = vlib.run_batch(chk, "%s corr -seed %d -n %d -out {out}" % (exe, 7 + chk.seed, n_corr), model, "corr", timeout=7000)
    if b:
        vlib.digest_batch(chk, b[0], b[1], classify, state)
        samples += [c[:1200] for c in b[0][:2]]
        dist["corr_cases"] = len(b[0])
        dist["corr_mode_slice"] = sum(1 for c in b[0] if "(mode slice)" in c)
        dist["corr_malformed_plans"] = sum(1 for c in b[0] if "(valid f)" in c)
        dist["corr_mutated_payloads"] = sum(1 for c in b[0] if '(mut "")' not in c)
        dist["corr_hard_fetch_failure_runs"] = sum(1 for c in b[0] if "(fail)" not in c)
        dist["corr_hard_failure_kinds"] = {k: sum(1 for c in b[0] if re.search(r"\(fail [^)]*\(\d+ %s\)" % k[0], c)) for k in ("1 rate limiter", "2 authorizer", "3 merge")}
        dist["corr_slow_flush_runs"] = sum(1 for c in b[0] if "(window t)" in c)
        dist["corr_hard_failure_with_slow_flush"] = sum(1 for c in b[0] if "(window t)" in c and "(fail)" not in c)
        dist["corr_descriptor_without_fetch"] = sum(1 for c in b[0] if "(nofetch)" not in c)
        fr = {}
        for c in b[0]:
            k = "frames=%d" % min(6, c.count("(fr "))
            fr[k] = fr.get(k, 0) + 1
        dist["corr_frames"] = fr
    chk.coverage["distribution"] = dist

    def more(st):
        for k in range(1, 4):
            bb = vlib.run_batch(chk, "%s corr -seed %d -n %d -out {out}" % (exe, chk.seed * 1000 + k, n_corr * 3), model, "more%d" % k, timeout=7000)
            if bb:
                vlib.digest_batch(chk, bb[0], bb[1], classify, st)
            bb = vlib.run_batch(chk, "%s spec -seed %d -n %d -orders %d -all %d -workers %d -out {out}" % (
                exe, chk.seed * 1000 + k, n_spec * 3, orders, allle, workers), model, "mores%d" % k, timeout=7000)
            if bb:
                vlib.digest_batch(chk, bb[0], bb[1], classify, st)
            if any(kk is None for (kk, _, _) in st.get("specfail", [])):
                break

    vlib.conclude_differential(chk, state, more)
    chk.coverage["samples"] = samples
    chk.coverage["known_keys"] = KEYS


def replay(chk, path):
    run(chk)
