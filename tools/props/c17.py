"""C17: introspection describes exactly the configured schema (generator, converter, engine) -- see DESIGN.md."""
import os
import re

import vlib

RULE = ("random well-formed schemas built as a tree and printed as SDL (schema block, directive definitions, types): "
        "scalars, enums with deprecated values, input objects with defaults of every value kind (ints, floats with "
        "exponents, plain/escaped/block strings, enums, lists, nested objects, null), interfaces, objects implementing "
        "them, unions, custom directives with several locations, optional Mutation/Subscription roots, wrapping depth "
        "0-4, and (since their repair) interfaces implementing interfaces, repeatable directives, deprecated "
        "arguments/input fields, @specifiedBy, reason: null, directive/type name collisions, non-root objects named "
        "Mutation/Subscription; 1 in 8 documents has no schema definition (default root operation type names); mode 'lossy' adds exactly one "
        "construct outside the theorems' hypotheses (@oneOf, escapes or quotes in reasons, redeclared built-in) or, 1 in 6, "
        "any of them (block-string defaults ending in a quote or backslash are ordinary since PrintValue was repaired); mode 'malformed' breaks one "
        "well-formedness rule.  Every 5th case is also run through the execution engine (full introspection query with "
        "includeDeprecated as literal / default / variable, __type lookups, nested aliases).  A case is distinct by the hash of its line and non-trivial when the schema is "
        "well-formed (wf_schema) and has an interface, a type reference of wrapping depth >= 2 and a default value.")

# lossy clause of coq/C17/Spec.v -> finding key.  Repaired findings (convert-drops-interface-implements,
# convert-drops-repeatable, convert-drops-specified-by, convert-drops-inputvalue-deprecation,
# deprecated-reason-null-panic, typeref-kind-name-collision, root-operation-invented) have no clause and no
# mapping any more: a regression shows up as an unclassified spec failure, i.e. a VIOLATION.  default-block-string-reprint
# is repaired too (in ast.Document.PrintValue, C05 rt-block-string-edge): the clause block-string-reprint that is left in
# Spec.v only excludes contents no parsed document can carry (leading / trailing white space) and maps to no finding.
KEYS = {
    "one-of": "oneof-not-introspected",
    "string-escapes": "introspection-raw-string-escapes",
    "builtin-redeclared": "builtin-redeclared-duplicate",
}
# which excluded construct can explain a failure of which spec clause (Properties.v *_refuted)
EXPLAINS = {
    "roundtrip": ["one-of", "string-escapes", "builtin-redeclared"],
    "complete_exact": ["string-escapes", "builtin-redeclared"],
    "typeref_faithful": [],
    "generate_total": [],
}


def classify(case, detail):
    spec = detail.split(" ", 1)[0]
    if spec == "engine_introspection":
        # engine-introspection-nested-alias and engine-include-deprecated-variable are repaired in /repo:
        # no engine difference is a known finding any more
        return None
    m = re.search(r"violated=\[([^\]]*)\]", detail)
    if not m:
        return None
    violated = [v for v in m.group(1).split(",") if v]
    for v in violated:
        if v in EXPLAINS.get(spec, []):
            return KEYS[v]
    return None


def _features(cases):
    dist = {}
    for c in cases:
        mode = c.split(" ", 2)[1] if c.startswith("(c17 ") else "?"
        dist["mode_" + mode] = dist.get("mode_" + mode, 0) + 1
        i = c.rfind("(features")
        if i >= 0:
            for f in re.findall(r'"([^"]*)"', c[i:]):
                dist[f] = dist.get(f, 0) + 1
        for tag in ("(gen (panic", "(conv (error", "(conv (panic", "(parse-error)", "(engine ok", "(engine (mismatch"):
            if tag in c:
                dist[tag.strip("(").replace(" (", "_").replace(" ", "_")] = dist.get(tag.strip("(").replace(" (", "_").replace(" ", "_"), 0) + 1
    return dist


def run(chk):
    quick = chk.tier == "quick"
    n = 900 if quick else 2000
    batches = 1 if quick else 10
    engine_every = 5 if quick else 4
    chk.coverage["rule"] = RULE
    chk.assumptions += [
        "Coq 8.16.1 kernel (coqc, full .vo build); vm_compute only in Witness.v (examples, refutation witnesses) and in "
        "compile-time byte-string literals (notation # in C17/Util.v)",
        "extraction with ExtrOcamlBasic only; ocamlfind ocamlopt 4.13.1; ocaml/common/prelude.ml + ocaml/c17/driver.ml "
        "(S-expression readers/printers for schema, JSON and introspection data)",
        "harness/schemadump (ast.Document -> schema tree dumper, SDL printer) and harness/cmd/c17 (generator, JSON token reader, "
        "engine projection); the dumper is cross-checked on every case: dump(parse(SDL)) must equal the generated tree",
        "modelled by hand and tied by correspondence on every case: asttransform.MergeDefinitionWithBaseSchema + base.graphql/"
        "internal.graphql (corr:C17/merge, including the empty document), introspection.Generator (corr:C17/generate, JSON tree with "
        "member order), introspection.JsonConverter incl. lexer/ParseValue/astimport for default values (corr:C17/convert); "
        "descriptions are out of scope (blanked); document order schema/directives/types is assumed and checked",
        "not modelled: encoding/json (strings compared decoded), ast index hashing (xxhash collisions), the engine: the engine part "
        "compares two Go code paths (engine response vs projection of Generator output) without a model; projection code in "
        "harness/cmd/c17/engine.go is trusted",
        "lexer deviations documented in C17/ValueSyntax.v ('#' comments, '.', column-based adjacency of '-'/'$'), unreachable "
        "from printed values",
    ]
    chk.proof_side()
    ok, log = vlib.build_model("C17")
    if not ok:
        chk.add_violation("tie:C17/model-build", log[-2000:], found_input=False)
        return
    ok, log, exe = vlib.build_harness("c17")
    if not ok:
        chk.add_violation("tie:C17/harness-build", log[-2000:], found_input=False)
        return
    model = os.path.join(vlib.BIN, "model_c17")
    state = {}
    samples = []
    dist = {}

    def short(c):
        return c if len(c) < 600 else c[:400] + " ... " + c[-180:]

    corpus = os.path.join(vlib.ROOT, "corpus", "C17", "cases.graphql")
    b = vlib.run_batch(chk, "%s corpus -in %s -out {out}" % (exe, corpus), model, "corpus")
    if b:
        vlib.digest_batch(chk, b[0], b[1], classify, state)
        samples += [short(c) for c in b[0][:1]]
    for k in range(batches):
        seed = chk.seed if k == 0 else chk.seed * 7919 + k
        b = vlib.run_batch(chk, "%s gen -seed %d -n %d -engine %d -out {out}" % (exe, seed, n, engine_every), model, "gen")
        if b:
            vlib.digest_batch(chk, b[0], b[1], classify, state)
            if k == 0:
                samples += [short(c) for c in b[0][1:4]]
            for kk, vv in _features(b[0]).items():
                dist[kk] = dist.get(kk, 0) + vv
    chk.coverage["distribution"] = dist

    def more(st):
        for k in range(1, 4):
            bb = vlib.run_batch(chk, "%s gen -seed %d -n %d -engine 3 -out {out}" % (exe, chk.seed * 1000 + k, n * 2), model, "more")
            if bb:
                vlib.digest_batch(chk, bb[0], bb[1], classify, st)
            if any(kk is None for (kk, _, _) in st.get("specfail", [])):
                break

    # keep the evidence small: case lines are tens of kilobytes
    for lst in ("specfail", "mismatch"):
        if lst in state:
            state[lst] = [(a, short(c), d[:600]) for (a, c, d) in state[lst]]
    vlib.conclude_differential(chk, state, more)
    chk.coverage["samples"] = samples
    chk.coverage["finding_keys"] = sorted(set(KEYS.values()))


def replay(chk, path):
    import json
    r = json.load(open(path))
    chk.log("replay: %s" % str(r.get("case"))[:300])
    run(chk)
