"""C03: normalisation preserves operation meaning, validity, is idempotent and canonical -- see DESIGN.md.

Semantic differential on the real code (engine order and options), per-pass model correspondence,
pass theorems in coq/C03."""
import json
import os
import re

import vlib

RULE = ("valid-by-construction operations over generated schemas (interfaces, unions, input objects with defaults, "
        "lists, enums) with nested named/inline fragments, repeated response names, aliases and self-aliases, "
        "@skip/@include on literals and variables, duplicated leaf and composite fields, pairs of mergeable selections "
        "(leaf / composite fields, inline fragments, spreads, also through fragments) with repeated applications of the "
        "repeatable @rtag in lists that are equal, permuted, equal as sets only, shorter, literal arguments of every kind "
        "(nested input objects, single values for lists, null), variables with/without defaults and values; 2-3 random "
        "universes per document. A case is distinct by the hash of its line and non-trivial when the ORIGINAL document "
        "contains a redex of at least one pass (a fragment or spread, a removable directive, a duplicated leaf, a "
        "self-alias, a literal argument, a variable default) -- decided by the extracted doc_has_redex.")

PASSES = {
    "proved: exec preserved (any two fuels at which both executions finish) + idempotent": [
        "remove_self_aliasing (self_alias)",
        "fragment_spread_inlining (frag_inline; idempotence once no spread is left -- refuted on fragment cycles)",
        "field_deduplication (dedup)",
        "directive_include_skip (include_skip; exec preserved when the pass reads the conditions like the executor and "
        "empties no selection set -- strict equality refuted when the __internal_typename placeholder is inserted; "
        "idempotent on every document since the walker ranges over a copy of the directive refs)",
        "fragment_definition_removal (remove_frag_defs; exec preserved when the operations are spread-free; idempotent)",
        "composition norm_proved = dedup . remove_frag_defs . self_alias . frag_inline . include_skip (c03_norm_preserves_exec_partial)",
    ],
    "modelled, correspondence only (corr:C03/<pass> on Go's own intermediate trees + corr:C03/composition)": [
        "inline_selections_from_inline_fragments (inline_sel)",
        "inline_fragment_selection_merging (merge_sel; arguments are compared, by name)",
    ],
    "not modelled (semantic differential only)": [
        "variables_extraction", "variables_default_value_extraction", "inject_input_default_values",
        "input_coercion_for_list", "variables_unused_deletion", "variables_mapper", "operation_definition_removal",
        "defer_* (enabled as in the engine, but no @defer in generated operations)"],
}


def flags_of(case):
    m = re.match(r'\(case "[^"]*" \(flags([^)]*)\)', case)
    return set(re.findall(r'"([^"]*)"', m.group(1))) if m else set()


def _strip_placeholder(s):
    return re.sub(r'__internal_typename: __typename ?', '', s).replace(' }', '}')


def _tokens(s):
    s = re.sub(r'\.\.\. on \w+ ?\{|\.\.\.\{', ' ', s)
    return sorted(set(re.sub(r'[{}]', ' ', s).split()))      # as a set: deduplication is per selection set


def _drop_unused_definitions(printed):
    """A printed operation without the variable definitions whose variable does not occur in the body, the used
    variables numbered in order of appearance in the body and their definitions sorted: the variables mapper does not
    hand out the name of a leftover definition, so the names of the used variables (and the order of the definitions,
    which follows the names) shift with the leftover ones."""
    m = re.match(r"^(\w+(?: \w+)?)\((.*?)\)(\{.*)$", printed)
    if not m:
        return printed
    order = {}
    num = lambda t: re.sub(r"\$(\w+)", lambda v: "$%d" % order.setdefault(v.group(1), len(order)), t)
    body = num(m.group(3))
    defs = sorted(num(d) for d in m.group(2).split(", ") if d.split(":")[0].lstrip("$") in order)
    return m.group(1) + ("(" + ", ".join(defs) + ")" if defs else "") + body


def classify(case, detail):
    """Known-finding key of a spec failure, or None.  Keys are tied to the input class (generator flags
    recorded in the case line) AND to the failed clause, so that another failure on the same input is
    not absorbed."""
    fl = flags_of(case)
    clause = detail.split(" ", 1)[0]
    # variables nested in list/object literals: their JSON value is inlined at extraction.  The value part of the finding
    # (the default of a variable that was not supplied was ignored) is repaired in /repo
    # (work/fix3_nested-variable-in-extracted-literal.patch): exec_preserved on such an input is no longer mapped, a
    # regression is a VIOLATION.  What is left: the nested variable stays DEFINED though it is no longer used.
    if "nestedvar" in fl:
        if clause in ("valid_preserved/final", "idempotent/norm", "idempotent/mapped") and "but never used" in detail:
            return "nested-variable-in-extracted-literal"
        if clause == "canonical":
            m = re.search(r' A="(.*)" B="(.*)" varsA=(.*) varsB=(.*) variant=', detail)
            if m and _drop_unused_definitions(m.group(1)) == _drop_unused_definitions(m.group(2)):
                return "nested-variable-in-extracted-literal"
    # (the keys list-coercion-skipped-when-operation-not-first and default-value-nested-list-not-coerced
    #  were repaired in /repo -- work/c03_fix_*.patch; they are no longer mapped, a regression is a VIOLATION)
    # (directive-after-dropped-directive-not-visited was repaired in /repo -- work/c03_fix_*.patch: the walker ranges
    #  over a copy of the directive refs; no longer mapped, a regression is a VIOLATION)
    if clause == "canonical":
        m = re.search(r' A="(.*)" B="(.*)" varsA=(.*) varsB=(.*) variant=', detail)
        if m and m.group(1) != m.group(2):
            a, b = m.group(1), m.group(2)
            # (placeholder-left-after-fragment-inlining was repaired in /repo -- work/c03_fix_*.patch; no longer mapped)
            # same selections, only the nesting of (non-inlinable) abstract-type fragments differs (and with
            # it the order in which the variables are met, hence their canonical names)
            anon = lambda t: re.sub(r'\$\w+', '$', t)
            if "fragwrap_in_fragment" in detail.split(" A=", 1)[0] and _tokens(anon(a)) == _tokens(anon(b)):
                return "inlining-depends-on-fragment-nesting"
    # (default-injection-null-list-item was repaired in /repo, 98cc10b: no longer mapped)
    return None


def _batch(chk, exe, model, tag, seed, n, state, samples, dist):
    stats = os.path.join(chk.work, tag + ".stats")
    b = vlib.run_batch(chk, "%s gen -seed %d -n %d -stats %s -out {out}" % (exe, seed, n, stats), model, tag)
    if not b:
        return
    vlib.digest_batch(chk, b[0], b[1], classify, state)
    dist["response_member_order_changed"] = dist.get("response_member_order_changed", 0) + \
        sum(1 for (_, st, d) in b[1] if st == "ok" and d.endswith(" reordered"))
    if len(samples) < 4:
        samples += [c[:600] for c in b[0][:2]]
    try:
        st = json.load(open(stats))
        for k in ("stages", "flags", "variant_kinds"):
            for kk, v in st.get(k, {}).items():
                dist.setdefault(k, {})
                dist[k][kk or "accepted"] = dist[k].get(kk or "accepted", 0) + v
        dist["query_bytes"] = st.get("query_bytes", dist.get("query_bytes"))
    except (OSError, ValueError):
        pass
    for p in (os.path.join(chk.work, tag + ".cases"),):
        if chk.tier != "quick" and os.path.exists(p):
            os.remove(p)


def run(chk):
    n = 500 if chk.tier == "quick" else 30000
    chk.coverage["rule"] = RULE
    chk.assumptions += [
        "Coq 8.16.1 kernel (coqc, full .vo build); vm_compute only in Examples",
        "extraction with ExtrOcamlBasic only; ocamlfind ocamlopt 4.13.1; ocaml/common/prelude.ml, gqlread.ml, ocaml/c03/driver.ml",
        "coq/lib/Exec.v is the meaning of an operation (reference executor, shared with FEDLAB); response comparison is "
        "up to object member order and drops the __internal_typename placeholder key (C03/Spec.v resp_equiv)",
        "harness/c03x: tree dump of ast.Document (dump.go), JSON reader, go:linkname access to the unexported pass "
        "registration functions (passes.go) used for the per-pass correspondence",
        "harness/cmd/c03: generator (validity by construction: one binding per response path), the copy of the call "
        "sequence of ExecutionEngine.Execute (engineSequence) -- graphql.Request.Normalize / ValidateForSchema / "
        "Normalize(WithExtractVariables) / VariablesMapper / variablesvalidation",
        "passes that are not modelled are covered by the semantic differential only: " + ", ".join(PASSES["not modelled (semantic differential only)"]),
    ]
    chk.proof_side()
    ok, log = vlib.build_model("C03")
    if not ok:
        chk.add_violation("tie:C03/model-build", log[-2000:], found_input=False)
        return
    ok, log, exe = vlib.build_harness("c03")
    if not ok:
        chk.add_violation("tie:C03/harness-build", log[-2000:], found_input=False)
        return
    model = os.path.join(vlib.BIN, "model_c03")
    state, samples, dist = {}, [], {}
    corpus = os.path.join(vlib.ROOT, "corpus", "C03", "cases.jsonl")
    if os.path.exists(corpus):
        b = vlib.run_batch(chk, "%s corpus -in %s -out {out}" % (exe, corpus), model, "corpus")
        if b:
            vlib.digest_batch(chk, b[0], b[1], classify, state)
            chk.coverage["corpus_cases"] = len(b[0])
    per = 500 if chk.tier == "quick" else 2000
    k = 0
    while k * per < n:
        _batch(chk, exe, model, "gen%d" % k, chk.seed * 100003 + k, min(per, n - k * per), state, samples, dist)
        k += 1

    def more(st):
        for j in range(1, 5):
            _batch(chk, exe, model, "more%d" % j, chk.seed * 7919 + 1000 + j, 1500, st, samples, dist)
            if any(kk is None for (kk, _, _) in st.get("specfail", [])):
                break

    vlib.conclude_differential(chk, state, more)
    chk.coverage["samples"] = samples
    chk.coverage["distribution"] = dist
    chk.coverage["passes"] = PASSES
    by_key = {}
    for (kk, c, d) in state.get("specfail", []):
        by_key.setdefault(kk or "UNCLASSIFIED", {}).setdefault(d.split(" ", 1)[0], 0)
        by_key[kk or "UNCLASSIFIED"][d.split(" ", 1)[0]] += 1
    chk.coverage["spec_failures_by_key_and_clause"] = by_key


def replay(chk, path):
    r = json.load(open(path))
    chk.log("replay: %s" % str(r.get("case"))[:400])
    run(chk)
