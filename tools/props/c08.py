"""C08 (structural part): the fetch tree built by post-processing respects the data dependencies
under every Sequence/Parallel schedule -- see DESIGN.md section 4 C08."""
import json
import os
import re

import vlib

RULE = ("random dependency DAGs of 1..30 resolve.SingleFetch items (chains/forks, layered, fan-out then joins, "
        "several components, random sparse; injective ids out of order with gaps; optional dependencies on ids "
        "that are not in the list; occasionally a repeated entry; list order as generated, reversed or shuffled; in 3 of 4 "
        "DAGs a quarter to three quarters of the fetches are entity / batch-entity fetches on 1-3 datasources that the real "
        "createMultiFetch stage merges when they share a wave, with differing and overlapping dependency lists in shuffled "
        "order, occasionally a differing request envelope that aborts a merge; 1 in 5 DAGs is built AROUND merge groups: 2-5 "
        "providers (roots, or a root and a layer behind it), 1-2 groups of 2-4 entity fetches whose dependency lists are kept in "
        "a fixed order and overlap -- a shared prefix followed by a tail of the member's own ([0 1] / [0 2]), ordered sub-lists "
        "of the providers overlapping in the middle ([0 1 3] / [1 2]), a repeated entry inside one list ([0 0 1]), a list that "
        "is a prefix of an earlier member's --, a few dependants of members and providers, ids in planner order or permuted; "
        "unionDependencies must keep the first occurrence of every entry whatever precedes it; the distribution counts the "
        "cases in which a scan that stops at a repeated entry would lose a dependency), "
        "each processed by the real postprocess.Processor in five configurations (legacy waves, scheduler, "
        "MultiFetch + scheduler, scheduler on a subscription plan, MultiFetch on legacy waves), three times each; 1 in 12 "
        "cases is malformed (a fetch listed twice, at most 12 fetches, no entity fetches). The tree dump carries, per node, "
        "id, DependsOnFetchIDs and MergedFetchIDs; the member-level spec is evaluated against the planner's original "
        "per-fetch dependencies. A case is distinct by the hash of its line and "
        "non-trivial when the plan is acyclic with unique ids and has at least one fork (an in-list fetch that "
        "two fetches depend on) and one join (a fetch with two distinct in-list dependencies). "
        "PATH CASES (kind paths, own stream): fetch lists of 2..24 fetches WITH response paths and merge paths over a generated "
        "tree of object positions (2-5 segment names drawn from a, ab, abc, b, bc, c, user, users, u, x so that sibling prefixes "
        "like b / bc meet; array segments '@' inside a path; deep chains), root fetches with and without a merge path, nested "
        "fetches with an empty merge path (the entity-fetch shape) or a one/two segment merge path leading towards another "
        "position; 42% of the nested fetches have NO declared dependency (left to addMissingNestedDependencies), the others "
        "declare the nearest fetch writing above them, or all of them, or arbitrary earlier fetches (possibly not covering), or a "
        "deeper fetch, plus ids outside the list (also as the only dependency); entity fetches on 1-3 datasources; shuffled ids and "
        "list order; 1 in 10 is malformed (kind pathodd: an empty segment, a segment containing '.', a lone dot). They run through the "
        "REAL postprocess.Processor with NOTHING switched off and the option sets the execution engine uses (none, "
        "EnableScheduleFetches, EnableMultiFetch, both), three times each, plus once with the two tree-building stages off to "
        "observe the output of the stage addMissingNestedDependencies itself. Model: ModelPaths.add_missing / pipeline; spec on the "
        "implementation's trees: members_once, respects_member_deps (declared), stage_reads_respected (every fetch without "
        "declared dependencies is sequenced strictly after every fetch that writes above its response path, segment-wise) and, "
        "when the planner-side hypothesis covers_b holds, reads_respected for every fetch. A path case is non-trivial when the "
        "stage has to complete a fetch whose provider is itself nested. 1 in 8 path cases is a merge-group plan of the DAG stream "
        "(overlapping dependency lists) with roots merging at a field of their own and every other fetch nested at a position of "
        "its own with declared dependencies.")


def classify(case, detail):
    return None


def _size(case):
    m = re.search(r"\(dag(.*?)\) \((?:res|crash) ", case)
    return case[:m.end()].count("(f ") if m else 0


def _first_tree(case, mode):
    """text of the first TREE of (res MODE TREE TREE TREE)"""
    i = case.find("(res %s " % mode)
    if i < 0:
        return None
    i += len("(res %s " % mode)
    depth, j = 0, i
    while j < len(case):
        if case[j] == "(":
            depth += 1
        elif case[j] == ")":
            depth -= 1
            if depth == 0:
                return case[i:j + 1]
        j += 1
    return None


def distribution_paths(cases, results):
    d = {"cases": len(cases), "kind_paths": sum(1 for c in cases if c.startswith("(c08 paths")),
         "kind_pathodd_malformed": sum(1 for c in cases if c.startswith("(c08 pathodd"))}
    sizes = {"2-5": 0, "6-12": 0, "13-24": 0}
    nested_empty_mp = nested_mp = root_mp = eligible = declared_nested = arrays = prefix_pairs = 0
    for c in cases:
        m = re.search(r"\(dag(.*?)\) \((?:res|crash) ", c)
        fs = re.findall(r'\(f (\d+) \(([\d ]*)\) (?:-|\(\d+ \d+\)) \(rp([^)]*)\) \(mp([^)]*)\)\)', m.group(1)) if m else []
        n = len(fs)
        sizes["2-5" if n <= 5 else "6-12" if n <= 12 else "13-24"] += 1
        segs = set()
        for _, deps, rp, mp in fs:
            rp, mp = rp.split(), mp.split()
            segs.update(x.strip('"') for x in rp)
            if rp and not mp:
                nested_empty_mp += 1
            if rp and mp:
                nested_mp += 1
            if not rp and mp:
                root_mp += 1
            if rp and not deps.strip():
                eligible += 1
            if rp and deps.strip():
                declared_nested += 1
            if '"@"' in rp:
                arrays += 1
        if any(a != b and b.startswith(a) for a in segs for b in segs if a and a != "@"):
            prefix_pairs += 1
    d["sizes"] = sizes
    d["fetches_nested_with_empty_merge_path"] = nested_empty_mp
    d["fetches_nested_with_merge_path"] = nested_mp
    d["fetches_root_with_merge_path"] = root_mp
    d["fetches_nested_without_declared_dependencies"] = eligible
    d["fetches_nested_with_declared_dependencies"] = declared_nested
    d["fetches_below_an_array_segment"] = arrays
    d["cases_with_sibling_prefix_segment_names"] = prefix_pairs
    cls = {}
    for (_, status, detail) in results or []:
        if status == "ok":
            k = detail.split(" ", 1)[-1] if " " in detail else detail
            cls[k] = cls.get(k, 0) + 1
    d["hypothesis_classes_of_ok_cases"] = cls
    d["with_merged_node_in_mode_m"] = sum(
        1 for c in cases if re.search(r"\(S \d+ \([\d ]*\) \(\d[\d ]*\)\)", _first_tree(c, "m") or ""))
    d["scheduler_tree_differs_from_waves"] = sum(
        1 for c in cases if _first_tree(c, "w") and _first_tree(c, "s") and _first_tree(c, "w") != _first_tree(c, "s"))
    d["cases_with_merged_node_shared_then_own_dependency_mode_m"] = sum(1 for c in cases if _shared_then_own(c, "m"))
    return d


def _shared_then_own(case, mode):
    """number of merged nodes of the first tree of MODE for which a member's list holds an entry that is new to the
    union AFTER an entry that is already collected (the situation of seeded C08-m2 / C09-m6)"""
    m = re.match(r"\(c08 \w+ \(dag(.*?)\) \((?:res|crash) ", case)
    if not m:
        return 0
    plan = {i: d.split() for i, d in re.findall(r"\(f (\d+) \(([\d ]*)\) ", m.group(1))}
    hits = 0
    for mem in re.findall(r"\(S \d+ \([\d ]*\) \((\d[\d ]*)\)\)", _first_tree(case, mode) or ""):
        mem = sorted(mem.split(), key=int)
        seen, hit = [], False
        for mm in mem:
            repeated = False
            for dep in plan.get(mm, []):
                if dep in mem:
                    continue
                if dep in seen:
                    repeated = True
                    continue
                if repeated:
                    hit = True
                seen.append(dep)
        hits += hit
    return hits


def distribution(cases):
    sizes = [_size(c) for c in cases]
    d = {"sizes": {"1-5": 0, "6-15": 0, "16-30": 0, "0": 0}}
    for s in sizes:
        k = "0" if s == 0 else "1-5" if s <= 5 else "6-15" if s <= 15 else "16-30"
        d["sizes"][k] += 1
    d["kind_dag"] = sum(1 for c in cases if c.startswith("(c08 dag"))
    d["kind_dup_malformed"] = sum(1 for c in cases if c.startswith("(c08 dup"))
    sched_differs = nested = panics = absent = 0
    for c in cases:
        w, s = _first_tree(c, "w"), _first_tree(c, "s")
        if w and s and w != s:
            sched_differs += 1
        if s and "(P (Q" in s:
            nested += 1
        if "(panic" in c:
            panics += 1
        m = re.match(r"\(c08 \w+ \(dag(.*?)\) \((?:res|crash) ", c)
        if m:
            fs = re.findall(r"\(f (\d+) \(([\d ]*)\) ", m.group(1))
            have = set(i for i, _ in fs)
            if any(x not in have for _, d in fs for x in d.split()):
                absent += 1
    d["with_dependency_on_absent_id"] = absent
    d["with_entity_fetches"] = sum(1 for c in cases if re.search(r"\(f \d+ \([\d ]*\) \(\d+ \d+\)\)", c))
    merged = [len(re.findall(r"\(S \d+ \([\d ]*\) \(\d[\d ]*\)\)", _first_tree(c, "m") or "")) for c in cases]
    d["with_merged_node_in_mode_m"] = sum(1 for m in merged if m > 0)
    d["merged_nodes_in_mode_m"] = sum(merged)
    d["cases_with_merged_node_shared_then_own_dependency_mode_m"] = sum(1 for c in cases if _shared_then_own(c, "m"))
    d["cases_with_merged_node_shared_then_own_dependency_mode_M"] = sum(1 for c in cases if _shared_then_own(c, "M"))
    d["merge_scheduler_tree_differs_from_merge_waves"] = sum(
        1 for c in cases if _first_tree(c, "m") and _first_tree(c, "M") and _first_tree(c, "m") != _first_tree(c, "M"))
    d["scheduler_tree_differs_from_waves"] = sched_differs
    d["scheduler_tree_with_sequence_inside_parallel"] = nested
    d["implementation_panics"] = panics
    d["process_killed"] = sum(1 for c in cases if "(crash " in c)
    return d


def _spread(chk, state):
    """conclude_differential reports the five smallest failing cases; a case that kills the process has no result
    part and is always among the smallest: keep the smallest cases of EVERY failed clause (round robin, five in all)
    so that one clause does not hide the others."""
    sf = state.get("specfail", [])
    if len(sf) <= 5:
        return
    chk.coverage["spec_failures_before_selection"] = len(sf)
    by = {}
    for x in sorted(sf, key=lambda x: len(x[1])):
        by.setdefault((x[0], x[2].split(" ")[0]), []).append(x)
    out, k = [], 0
    while len(out) < 5 and any(len(v) > k for v in by.values()):
        for key in sorted(by, key=str):
            if len(by[key]) > k and len(out) < 5:
                out.append(by[key][k])
        k += 1
    state["specfail"] = out


def _run_all(chk, exe, model, n, state, samples):
    corpus = os.path.join(vlib.ROOT, "corpus", "C08", "cases.tsv")
    b = vlib.run_batch(chk, "%s corpus -in %s -out {out}" % (exe, corpus), model, "corpus")
    if b:
        vlib.digest_batch(chk, b[0], b[1], classify, state)
        samples += [c[:400] for c in b[0][:2]]
    b = vlib.run_batch(chk, "%s gen -seed %d -n %d -out {out}" % (exe, chk.seed, n), model, "gen", timeout=3000)
    if b:
        vlib.digest_batch(chk, b[0], b[1], classify, state)
        samples += [c[:400] for c in sorted(b[0][:50], key=len)[:3]]
        chk.coverage["distribution"] = distribution(b[0])
    b = vlib.run_batch(chk, "%s genp -seed %d -n %d -out {out}" % (exe, chk.seed, n), model, "genp", timeout=3000)
    if b:
        vlib.digest_batch(chk, b[0], b[1], classify, state)
        samples += [c[:600] for c in sorted(b[0][:50], key=len)[:2]]
        chk.coverage.setdefault("distribution", {})["path_cases"] = distribution_paths(b[0], b[1])


def run(chk):
    n = 2000 if chk.tier == "quick" else 100000
    chk.coverage["rule"] = RULE
    chk.assumptions += [
        "Coq 8.16.1 kernel (coqc, full .vo build); vm_compute only in Examples",
        "extraction with ExtrOcamlBasic only; ocamlfind ocamlopt 4.13.1; ocaml/common/prelude.ml + ocaml/c08/driver.ml "
        "(S-expression parsing, tree printing, the non-triviality rule)",
        "execution semantics of a fetch tree (Spec.lin: Sequence = in order, Parallel = any interleaving, a fetch = "
        "Prepare then Merge) is read off resolve/loader.go resolveFetchNodeWithCtx/resolveParallel/resolveSerial/resolveSingle "
        "by hand; the loader itself is not modelled here (schedule replay on the federation lab is a separate part of C08)",
        "slices.SortFunc is modelled as insertion sort; c08_sort_unique shows every correct sort returns the same list on "
        "acyclic plans with unique ids, so only 'pdqsort sorts when the comparator is a strict total order' is assumed",
        "graph searches of schedule_fetches.go (weaklyConnectedComponents, colorExclusive) are modelled at the level of "
        "sets (Go iterates maps in random order); tied by correspondence over three runs per configuration",
        "createMultiFetch is modelled on wave trees (grouping by datasource inside a wave, envelope precondition, "
        "unionDependencies, survivor = least id, redirect of dependants); isCandidate and the document-level merge "
        "preconditions (buildMergedOperation) are an input attribute: the harness builds entity fetches whose documents "
        "always merge; for the DAG stream addMissingNestedDependencies, deduplication and all non-structural stages are "
        "switched off in the harness; for the path stream nothing is switched off (real stage order, engine option sets)",
        "addMissingNestedDependencies is modelled at the level of byte strings (ModelPaths.v: ResponsePath = Join(elements), "
        "providedPathByNode, strings.HasPrefix), the in-place loop as a map (of the other nodes it reads only path, merge path "
        "and id); ResponsePath = strings.Join(ResponsePathElements, \".\") is the planner's construction "
        "(plan/path_builder_visitor.go) and a generator invariant; deduplicateSingleFetches runs but finds nothing (pairwise "
        "different inputs; its transparency is C09); the stages after organizeFetchTree (renderSubgraphInputs, "
        "resolveInputTemplates, createConcreteSingleFetchTypes) run and are observed not to change id / DependsOnFetchIDs / "
        "tree shape",
        "the data-flow relation of SpecPaths.v (writes_above: a fetch merging at or above the object another fetch is prepared "
        "from, segment-wise, a fetch merging INTO the objects at p not counting as their creator) is read off "
        "resolve/loader.go (items selected by response path, mergeResult at MergePath) by hand; it is the may-write relation "
        "by position, the stage's own policy for fetches without declared dependencies; for fetches WITH declared "
        "dependencies the planner's list is the data-flow relation (hypothesis covers for the combined statement)",
        "the completed dependency lists are assumed acyclic (checked per generated plan with the extracted acyclic_b; "
        "c08_completion_keeps_acyclic gives the sufficient condition 'no declared dependency on a deeper fetch'); on a cyclic "
        "list the Go process dies (unguarded nodeDependsOn) -- outside the property, the generator filters such lists",
        "the model's scheduler recursion has fuel S(length l); sufficiency is proved for the legacy pipeline "
        "(c08_organize_waves_total) but not for the scheduler: an out-of-fuel model result is reported as a driver error",
        "harness/cmd/c08 (generator, tree printer, processor options that isolate the stages); every case is observed in a child process "
        "(header line with the fetch list first, then the result): a case that kills the process (fatal stack overflow, not recoverable) is "
        "reported as spec clause no_crash with the fetch list as replay, and a new child continues behind it (at most 12 per stream)",
    ]
    chk.proof_side()
    ok, log = vlib.build_model("C08")
    if not ok:
        chk.add_violation("tie:C08/model-build", log[-2000:], found_input=False)
        return
    ok, log, exe = vlib.build_harness("c08")
    if not ok:
        chk.add_violation("tie:C08/harness-build", log[-2000:], found_input=False)
        return
    model = os.path.join(vlib.BIN, "model_c08")
    state = {}
    samples = []
    _run_all(chk, exe, model, n, state, samples)

    def more(st):
        for k in range(1, 6):
            for sub in ("gen", "genp"):
                bb = vlib.run_batch(chk, "%s %s -seed %d -n %d -out {out}" % (exe, sub, chk.seed * 1000 + k, n * 4), model,
                                    "more%d%s" % (k, sub), timeout=3000)
                if bb:
                    vlib.digest_batch(chk, bb[0], bb[1], classify, st)
            if any(kk is None for (kk, _, _) in st.get("specfail", [])):
                break

    _spread(chk, state)
    vlib.conclude_differential(chk, state, more)
    chk.coverage["samples"] = samples
    try:  # schedule half (end to end on the federation lab): tools/props/c08e.py
        import props.c08e as c08e; c08e.run_part(chk)
    except ImportError:
        pass


def _corpus_line(case):
    """(c08 KIND (dag (f ID (DEPS))...) ...) -> corpus line"""
    m = re.match(r"\(c08 (\w+) \(dag(.*?)\) \((?:res|crash) ", case)
    if not m:
        return None
    if m.group(1) in ("paths", "pathodd"):
        def segs(txt):
            xs = re.findall(r'"((?:[^"\\\\]|\\\\.)*)"', txt)
            return "/".join(x if x != "" else "%e" for x in xs)
        fs = re.findall(r'\(f (\d+) \(([\d ]*)\) (-|\(\d+ \d+\)) \(rp([^)]*)\) \(mp([^)]*)\)\)', m.group(2))
        return "%s\t%s" % (m.group(1), " ".join(
            "%s:%s%s~%s~%s" % (i, ",".join(d.split()), "" if src == "-" else "@" + src.strip("()").replace(" ", "."),
                               segs(rp), segs(mp))
            for i, d, src, rp, mp in fs))
    fs = re.findall(r"\(f (\d+) \(([\d ]*)\) (-|\(\d+ \d+\))\)", m.group(2))
    return "%s\t%s" % (m.group(1), " ".join(
        "%s:%s%s" % (i, ",".join(d.split()), "" if src == "-" else "@" + src.strip("()").replace(" ", "."))
        for i, d, src in fs))


def replay(chk, path):
    r = json.load(open(path))
    case = r.get("case")
    lines = []
    if isinstance(case, str):
        lines = [case]
    elif isinstance(case, dict):
        lines = [e.get("case") for e in case.get("examples", []) if isinstance(e, dict)]
    lines = [l for l in (_corpus_line(c) for c in lines if c) if l]
    if not lines:
        chk.log("replay: no recorded input, running the whole check")
        run(chk)
        return
    chk.coverage["rule"] = RULE
    chk.proof_side()
    ok, log = vlib.build_model("C08")
    ok2, log2, exe = vlib.build_harness("c08")
    if not (ok and ok2):
        chk.add_violation("tie:C08/build", (log + log2)[-2000:], found_input=False)
        return
    inp = os.path.join(chk.work, "replay.tsv")
    with open(inp, "w") as f:
        f.write("\n".join(lines) + "\n")
    chk.log("replay: %s" % lines)
    state = {}
    b = vlib.run_batch(chk, "%s corpus -in %s -out {out}" % (exe, inp), os.path.join(vlib.BIN, "model_c08"), "replay")
    if b:
        vlib.digest_batch(chk, b[0], b[1], classify, state)
        chk.coverage["samples"] = [c[:400] for c in b[0][:3]]
    vlib.conclude_differential(chk, state, None)
