"""C08 (structural part): the fetch tree built by post-processing respects the data dependencies
under every Sequence/Parallel schedule -- see DESIGN.md section 4 C08."""
import json
import os
import re

import vlib

RULE = ("random dependency DAGs of 1..30 resolve.SingleFetch items (chains/forks, layered, fan-out then joins, "
        "several components, random sparse; injective ids out of order with gaps; optional dependencies on ids "
        "that are not in the list; occasionally a repeated entry; list order as generated, reversed or shuffled; in 3 of 4 "
        "DAGs a quarter to three quarters of the fetches are entity / batch-entity fetches on 1-3 datasources that the real "
        "createMultiFetch stage merges when they share a wave, with differing and overlapping dependency lists in shuffled "
        "order, occasionally a differing request envelope that aborts a merge), "
        "each processed by the real postprocess.Processor in five configurations (legacy waves, scheduler, "
        "MultiFetch + scheduler, scheduler on a subscription plan, MultiFetch on legacy waves), three times each; 1 in 12 "
        "cases is malformed (a fetch listed twice, at most 12 fetches, no entity fetches). The tree dump carries, per node, "
        "id, DependsOnFetchIDs and MergedFetchIDs; the member-level spec is evaluated against the planner's original "
        "per-fetch dependencies. A case is distinct by the hash of its line and "
        "non-trivial when the plan is acyclic with unique ids and has at least one fork (an in-list fetch that "
        "two fetches depend on) and one join (a fetch with two distinct in-list dependencies).")


def classify(case, detail):
    return None


def _size(case):
    m = re.search(r"\(dag(.*?)\) \(res ", case)
    return case[:m.end()].count("(f ") if m else 0


def _first_tree(case, mode):
    """text of the first TREE of (res MODE TREE TREE TREE)"""
    i = case.find("(res %s " % mode)
    if i < 0:
        return None
    i += len("(res %s " % mode)
    depth, j = 0, i
    while j < len(case):
        if case[j] == "(":
            depth += 1
        elif case[j] == ")":
            depth -= 1
            if depth == 0:
                return case[i:j + 1]
        j += 1
    return None


def distribution(cases):
    sizes = [_size(c) for c in cases]
    d = {"sizes": {"1-5": 0, "6-15": 0, "16-30": 0, "0": 0}}
    for s in sizes:
        k = "0" if s == 0 else "1-5" if s <= 5 else "6-15" if s <= 15 else "16-30"
        d["sizes"][k] += 1
    d["kind_dag"] = sum(1 for c in cases if c.startswith("(c08 dag"))
    d["kind_dup_malformed"] = sum(1 for c in cases if c.startswith("(c08 dup"))
    sched_differs = nested = panics = absent = 0
    for c in cases:
        w, s = _first_tree(c, "w"), _first_tree(c, "s")
        if w and s and w != s:
            sched_differs += 1
        if s and "(P (Q" in s:
            nested += 1
        if "(panic" in c:
            panics += 1
        m = re.match(r"\(c08 \w+ \(dag(.*?)\) \(res ", c)
        if m:
            fs = re.findall(r"\(f (\d+) \(([\d ]*)\) ", m.group(1))
            have = set(i for i, _ in fs)
            if any(x not in have for _, d in fs for x in d.split()):
                absent += 1
    d["with_dependency_on_absent_id"] = absent
    d["with_entity_fetches"] = sum(1 for c in cases if re.search(r"\(f \d+ \([\d ]*\) \(\d+ \d+\)\)", c))
    merged = [len(re.findall(r"\(S \d+ \([\d ]*\) \(\d[\d ]*\)\)", _first_tree(c, "m") or "")) for c in cases]
    d["with_merged_node_in_mode_m"] = sum(1 for m in merged if m > 0)
    d["merged_nodes_in_mode_m"] = sum(merged)
    d["merge_scheduler_tree_differs_from_merge_waves"] = sum(
        1 for c in cases if _first_tree(c, "m") and _first_tree(c, "M") and _first_tree(c, "m") != _first_tree(c, "M"))
    d["scheduler_tree_differs_from_waves"] = sched_differs
    d["scheduler_tree_with_sequence_inside_parallel"] = nested
    d["implementation_panics"] = panics
    return d


def _run_all(chk, exe, model, n, state, samples):
    corpus = os.path.join(vlib.ROOT, "corpus", "C08", "cases.tsv")
    b = vlib.run_batch(chk, "%s corpus -in %s -out {out}" % (exe, corpus), model, "corpus")
    if b:
        vlib.digest_batch(chk, b[0], b[1], classify, state)
        samples += [c[:400] for c in b[0][:2]]
    b = vlib.run_batch(chk, "%s gen -seed %d -n %d -out {out}" % (exe, chk.seed, n), model, "gen", timeout=3000)
    if b:
        vlib.digest_batch(chk, b[0], b[1], classify, state)
        samples += [c[:400] for c in sorted(b[0][:50], key=len)[:3]]
        chk.coverage["distribution"] = distribution(b[0])


def run(chk):
    n = 2000 if chk.tier == "quick" else 100000
    chk.coverage["rule"] = RULE
    chk.assumptions += [
        "Coq 8.16.1 kernel (coqc, full .vo build); vm_compute only in Examples",
        "extraction with ExtrOcamlBasic only; ocamlfind ocamlopt 4.13.1; ocaml/common/prelude.ml + ocaml/c08/driver.ml "
        "(S-expression parsing, tree printing, the non-triviality rule)",
        "execution semantics of a fetch tree (Spec.lin: Sequence = in order, Parallel = any interleaving, a fetch = "
        "Prepare then Merge) is read off resolve/loader.go resolveFetchNodeWithCtx/resolveParallel/resolveSerial/resolveSingle "
        "by hand; the loader itself is not modelled here (schedule replay on the federation lab is a separate part of C08)",
        "slices.SortFunc is modelled as insertion sort; c08_sort_unique shows every correct sort returns the same list on "
        "acyclic plans with unique ids, so only 'pdqsort sorts when the comparator is a strict total order' is assumed",
        "graph searches of schedule_fetches.go (weaklyConnectedComponents, colorExclusive) are modelled at the level of "
        "sets (Go iterates maps in random order); tied by correspondence over three runs per configuration",
        "createMultiFetch is modelled on wave trees (grouping by datasource inside a wave, envelope precondition, "
        "unionDependencies, survivor = least id, redirect of dependants); isCandidate and the document-level merge "
        "preconditions (buildMergedOperation) are an input attribute: the harness builds entity fetches whose documents "
        "always merge; addMissingNestedDependencies, deduplication and all non-structural stages are switched off in the "
        "harness: the theorems quantify over the dependency lists those stages output, assumed acyclic",
        "the model's scheduler recursion has fuel S(length l); sufficiency is proved for the legacy pipeline "
        "(c08_organize_waves_total) but not for the scheduler: an out-of-fuel model result is reported as a driver error",
        "harness/cmd/c08 (generator, tree printer, processor options that isolate the stages)",
    ]
    chk.proof_side()
    ok, log = vlib.build_model("C08")
    if not ok:
        chk.add_violation("tie:C08/model-build", log[-2000:], found_input=False)
        return
    ok, log, exe = vlib.build_harness("c08")
    if not ok:
        chk.add_violation("tie:C08/harness-build", log[-2000:], found_input=False)
        return
    model = os.path.join(vlib.BIN, "model_c08")
    state = {}
    samples = []
    _run_all(chk, exe, model, n, state, samples)

    def more(st):
        for k in range(1, 6):
            bb = vlib.run_batch(chk, "%s gen -seed %d -n %d -out {out}" % (exe, chk.seed * 1000 + k, n * 4), model,
                                "more%d" % k, timeout=3000)
            if bb:
                vlib.digest_batch(chk, bb[0], bb[1], classify, st)
            if any(kk is None for (kk, _, _) in st.get("specfail", [])):
                break

    vlib.conclude_differential(chk, state, more)
    chk.coverage["samples"] = samples
    try:  # schedule half (end to end on the federation lab): tools/props/c08e.py
        import props.c08e as c08e; c08e.run_part(chk)
    except ImportError:
        pass


def _corpus_line(case):
    """(c08 KIND (dag (f ID (DEPS))...) ...) -> corpus line"""
    m = re.match(r"\(c08 (\w+) \(dag(.*?)\) \(res ", case)
    if not m:
        return None
    fs = re.findall(r"\(f (\d+) \(([\d ]*)\) (-|\(\d+ \d+\))\)", m.group(2))
    return "%s\t%s" % (m.group(1), " ".join(
        "%s:%s%s" % (i, ",".join(d.split()), "" if src == "-" else "@" + src.strip("()").replace(" ", "."))
        for i, d, src in fs))


def replay(chk, path):
    r = json.load(open(path))
    case = r.get("case")
    lines = []
    if isinstance(case, str):
        lines = [case]
    elif isinstance(case, dict):
        lines = [e.get("case") for e in case.get("examples", []) if isinstance(e, dict)]
    lines = [l for l in (_corpus_line(c) for c in lines if c) if l]
    if not lines:
        chk.log("replay: no recorded input, running the whole check")
        run(chk)
        return
    chk.coverage["rule"] = RULE
    chk.proof_side()
    ok, log = vlib.build_model("C08")
    ok2, log2, exe = vlib.build_harness("c08")
    if not (ok and ok2):
        chk.add_violation("tie:C08/build", (log + log2)[-2000:], found_input=False)
        return
    inp = os.path.join(chk.work, "replay.tsv")
    with open(inp, "w") as f:
        f.write("\n".join(lines) + "\n")
    chk.log("replay: %s" % lines)
    state = {}
    b = vlib.run_batch(chk, "%s corpus -in %s -out {out}" % (exe, inp), os.path.join(vlib.BIN, "model_c08"), "replay")
    if b:
        vlib.digest_batch(chk, b[0], b[1], classify, state)
        chk.coverage["samples"] = [c[:400] for c in b[0][:3]]
    vlib.conclude_differential(chk, state, None)
