"""C15: variable values survive extraction and forwarding unchanged -- see DESIGN.md."""
import os
import re

import vlib

RULE = ("cases are generated literal SPELLINGS (every escape, \\u forms incl. surrogate pairs and the braced form, raw TAB and "
        "other raw characters, block strings with mixed indentation / CRLF / escaped triple quotes / blank lines / lone quotes, "
        "big, exponent and negative-zero numbers, enums, nested list and object literals mixing literals with variables that are "
        "supplied, null or omitted), forwarding cases (1-5 arguments, each a literal or a variable with a generated JSON value, "
        "null, or omitted; client names chosen to collide with the engine's renaming), variable-default cases, and a malformed "
        "stream of source-level spellings. A case is distinct by the hash of its line and non-trivial when the literal nests to "
        "depth >= 2 or contains an escape, a block string or an exponent (literal cases), has >= 2 arguments (forwarding cases), "
        "is an input-default case whose value is a list or object, or is a default-value / accepted-malformed case.")

# findings still open; the repaired ones (raw-control-char, default-null-list-wrapped, block-blank-only,
# block-escaped-triple-quote, braced-unicode-escape, block-quote-next-to-whitespace) have no cause any more:
# a regression is reported as a violation
KEYS = ["malformed-literal-accepted"]

_known = set()


def classify(case, detail):
    """detail: '<clause> cause=a+b ...'.  A failure is attributed to one cause; when several are
    present the first one that is NOT a listed finding wins, so that nothing new hides behind a
    known defect."""
    m = re.search(r"cause=([A-Za-z0-9+\-]+)", detail)
    if not m:
        return None
    causes = m.group(1).split("+")
    if "unexplained" in causes:
        return None
    for c in causes:
        if c not in _known or c not in KEYS:
            return c
    return causes[0]


def distribution(cases):
    d = {}

    def inc(k, n=1):
        d[k] = d.get(k, 0) + n
    for c in cases:
        inc("kind_" + c[1:5].strip())
        if "(block " in c:
            inc("with_block_string")
        if "\\5cu" in c:
            inc("with_unicode_escape")
        if "\\5cuD8" in c or "\\5cud8" in c:
            inc("with_surrogate_pair")
        if "\\5cu{" in c:
            inc("with_braced_escape")
        if "(var " in c:
            inc("with_variable_in_literal")
        if re.search(r'\((?:float) "[^"]*[eE]', c):
            inc("with_exponent")
        if "(l1 parse-err)" in c:
            inc("impl_parse_error")
        if "(l3 ok" in c:
            inc("level3_executed")
        if "absent)" in c:
            inc("upstream_variable_absent")
        if c.startswith("(inp "):
            m = re.match(r'\(inp \(mode (\w+)\) \(arg "(\w+)"\) \(ty .*?\)\) (.*?) \(src ', c)
            if m:
                inc("inp_mode_" + m.group(1))
                inc("inp_arg_" + m.group(2))
                v = m.group(4 - 1)
                for name, pat in (("empty_string", '(str "")'), ("zero", '(int "0")'), ("false", "(bool f)"), ("empty_list", "(list)"),
                                  ("empty_object", "(obj)"), ("null", "(null)")):
                    if pat in v:
                        inc("inp_supplies_" + name)
    return d


def run(chk):
    n = 3000 if chk.tier == "quick" else 200000
    chk.coverage["rule"] = RULE
    _known.clear()
    _known.update(k["key"] for k in chk.known)
    chk.assumptions += [
        "Coq 8.16.1 kernel (coqc, full .vo build); vm_compute only in Examples and refutation witnesses",
        "extraction with ExtrOcamlBasic only; ocamlfind ocamlopt 4.13.1; ocaml/common/prelude.ml + ocaml/c15/driver.ml "
        "(S-expression decoding, cause attribution by the extracted Diag predicates)",
        "modelled by hand and tied by byte-exact correspondence: ast.Document.ValueToJSON/writeJSONValue, "
        "BlockStringValueContentRawBytes/ContentBytes with the lexer's Literal.Start/End trimming, helpers.go line functions, "
        "the escaping of bytes below 0x20 and the rewriting of braced unicode escapes (bytes.IndexByte, strconv.ParseUint(16, 32), "
        "utf16.EncodeRune, fmt %04x) in quoted strings, quotes.WrapBytes, encoding/json appendString (escapeHTML off, go1.25), value level of variables_extraction.go and "
        "variables_default_value_extraction.go",
        "modelled at value level only (tree compare on the recorded upstream body): resolve input-template rendering of context "
        "variables, SetInputUndefinedVariables, graphql_datasource compactAndUnNullVariables/cleanupVariables; astjson's "
        "parse/marshal is represented by its string un-escaping rule (Spec.json_str strict=false); jsonparser / sjson / gjson, "
        "the planner's variable renaming and the variables mapper are outside the model (observed through level 3 only)",
        "not modelled: the GraphQL lexer/parser (the Go parser's tree is compared with the generator's tree; the lexer's "
        "delimiting of block strings is a hypothesis go_block_lexable), uploads, variable values inside directives",
        "input-field default injection (inject_input_default_values.go): no C15 model of the byte-level jsonparser code; its "
        "outputs (Input.Variables after normalisation, upstream variables) are evaluated against the specification "
        "Defaults.spec_defaults / dval_incl (supplied members unchanged, omitted members defaulted) with the schema description "
        "the harness reads off the parsed SDL; the tree-level model of that code is C06's (Model.inject), about which "
        "c15_supplied_field_not_defaulted is proved",
        "client variables inside literals are assumed to be self-delimiting JSON value texts (hypothesis vars_framed)",
        "harness: harness/cmd/c15 (generator, splitObject span extraction, engine with one subgraph and a recording RoundTripper)",
    ]
    chk.proof_side()
    ok, log = vlib.build_model("C15")
    if not ok:
        chk.add_violation("tie:C15/model-build", log[-2000:], found_input=False)
        return
    ok, log, exe = vlib.build_harness("c15")
    if not ok:
        chk.add_violation("tie:C15/harness-build", log[-2000:], found_input=False)
        return
    model = os.path.join(vlib.BIN, "model_c15")
    state = {}
    samples = []
    corpus = os.path.join(vlib.ROOT, "corpus", "C15", "cases.tsv")
    b = vlib.run_batch(chk, "%s corpus -in %s -out {out}" % (exe, corpus), model, "corpus")
    if b:
        vlib.digest_batch(chk, b[0], b[1], classify, state)
        samples += [c[:400] for c in b[0][:2]]
    b = vlib.run_batch(chk, "%s gen -seed %d -n %d -out {out}" % (exe, chk.seed, n), model, "gen")
    if b:
        vlib.digest_batch(chk, b[0], b[1], classify, state)
        samples += [c[:400] for c in b[0][:4]]
        dist = distribution(b[0])
        causes = {}
        for (_, st, detail) in b[1]:
            if st == "specfail":
                m = re.search(r"^(\S+) cause=(\S+)", detail)
                if m:
                    k = m.group(1).split("/")[0] + ":" + m.group(2)
                    causes[k] = causes.get(k, 0) + 1
        dist["spec_failures_by_clause_and_cause"] = causes
        dist["cases_clean"] = sum(1 for (_, st, _) in b[1] if st == "ok")
        chk.coverage["distribution"] = dist

    def more(st):
        for k in range(1, 6):
            bb = vlib.run_batch(chk, "%s gen -seed %d -n %d -out {out}" % (exe, chk.seed * 1000 + k, n * 4), model, "more%d" % k)
            if bb:
                vlib.digest_batch(chk, bb[0], bb[1], classify, st)
            if any(kk is None or chk.match_known(kk) is None for (kk, _, _) in st.get("specfail", [])):
                break

    vlib.conclude_differential(chk, state, more)
    chk.coverage["samples"] = samples


def replay(chk, path):
    import json
    r = json.load(open(path))
    case = r.get("case")
    chk.log("replay: %s" % (case if not isinstance(case, str) else case[:300]))
    run(chk)
