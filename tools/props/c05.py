"""C05: parsing is total, printing round-trips, limits are sound -- see DESIGN.md section C05."""
import json
import os
import re

import anchors
import vlib
from anchors import AnchorError, coq_bytes, coq_list, func_body, go_unquote, write_if_changed

RULE = ("inputs: grammar-generated executable documents (operations, fragments, all selection and value kinds, "
        "keyword-spelled names, odd separators/comments/BOM), grammar-generated SDL documents with descriptions and "
        "extensions, token-level mutations of both, raw byte strings over an alphabet biased to quotes, backslashes, "
        "'#', NUL, digits/'.'/'e'/'-', '\"\"\"', multi-byte UTF-8 and BOM, and nesting/field-count documents around "
        "random (MaxDepth, MaxFields). A case is distinct by the hash of its line and non-trivial when the "
        "implementation lexed at least 5 tokens or at least one string/block-string/integer/float token.")

LEX = "v2/pkg/lexer/lexer.go"


# --------------------------------------------------------------------------- anchors
def _consts(src, typ=None):
    """name -> int for a Go const block of runes / ints written as literals or iota."""
    out = {}
    for m in re.finditer(r"^\s*([A-Z_a-z0-9]+)\s*=\s*('(?:\\.|[^'\\])+'|\d+)\s*$", src, re.M):
        lit = m.group(2)
        out[m.group(1)] = go_unquote(lit[1:-1])[0] if lit.startswith("'") else int(lit)
    return out


def _iota_names(src, typ):
    m = re.search(r"const \(\s*\n\s*(\w+)\s+%s\s*=\s*iota\s*\n(.*?)\n\)" % typ, src, re.S)
    if not m:
        raise AnchorError("iota block of %s not found" % typ)
    names = [m.group(1)]
    for line in m.group(2).splitlines():
        line = line.strip()
        if line and not line.startswith("//"):
            names.append(line.split()[0])
    return names


def _rune_val(expr, runes):
    expr = expr.strip()
    if expr.startswith("runes."):
        n = expr[len("runes."):]
        if n not in runes:
            raise AnchorError("unknown rune constant " + n)
        return runes[n]
    if expr.startswith("'"):
        return go_unquote(expr[1:-1])[0]
    raise AnchorError("rune expression " + expr)


def _identkeywords(src):
    """(literal bytes, CONSTANT) in the order of the return statements of KeywordFromLiteral."""
    body = func_body(src, "KeywordFromLiteral")
    stack, out, cur_len = [], [], None
    for line in body.splitlines():
        s = line.strip()
        m = re.match(r"case (\d+):", s)
        if m:
            cur_len = int(m.group(1))
            stack = []
            continue
        if s.startswith("if "):
            conds = dict((int(i), c) for i, c in re.findall(r"literal\[(\d+)\] == '(.)'", s))
            stack.append(conds)
            continue
        if s == "}":
            if stack:
                stack.pop()
            continue
        m = re.match(r"return (\w+)$", s)
        if m and m.group(1) != "UNDEFINED":
            merged = {}
            for c in stack:
                merged.update(c)
            if cur_len is None or sorted(merged) != list(range(cur_len)):
                raise AnchorError("KeywordFromLiteral: incomplete comparison for " + m.group(1))
            out.append((bytes("".join(merged[i] for i in range(cur_len)), "ascii"), m.group(1)))
    if len(out) < 10:
        raise AnchorError("KeywordFromLiteral: too few keywords")
    return out


def gen_anchors():
    rd = anchors._read
    runes = _consts(rd("v2/pkg/lexer/runes/runes.go"))
    kw = _iota_names(rd("v2/pkg/lexer/keyword/keyword.go"), "Keyword")
    lx = rd(LEX)
    # matchSingleRuneToken
    body = func_body(lx, "matchSingleRuneToken")
    singles = re.findall(r"case runes\.(\w+):\s*\n\s*tok\.Keyword = keyword\.(\w+)", body)
    if len(singles) < 10:
        raise AnchorError("matchSingleRuneToken shape changed")
    # byteIsWhitespace
    body = func_body(lx, "byteIsWhitespace")
    m = re.search(r"case (.*?):", body, re.S)
    ws = [_rune_val(x, runes) for x in m.group(1).split(",")]
    # runeIsIdent
    body = func_body(lx, "runeIsIdent")
    ranges = [(_rune_val(a, runes), _rune_val(b, runes)) for a, b in re.findall(r"case r >= ('.'|runes\.\w+) && r <= ('.'|runes\.\w+):", body)]
    single_id = [_rune_val(a, runes) for a in re.findall(r"case r == ('.'|runes\.\w+):", body)]
    body = func_body(lx, "runeIsDigit")
    dig = [(_rune_val(a, runes), _rune_val(b, runes)) for a, b in re.findall(r"case r >= ('.'|runes\.\w+) && r <= ('.'|runes\.\w+):", body)]
    if len(ranges) != 3 or len(dig) != 1:
        raise AnchorError("runeIsIdent / runeIsDigit shape changed")
    ik = _identkeywords(rd("v2/pkg/lexer/identkeyword/identkeyword.go"))
    tk = rd("v2/pkg/astparser/tokenizer.go")
    body = func_body(tk, "TokenizeWithLimits")
    m = re.search(r"case ((?:identkeyword\.\w+,?\s*)+):", body)
    if not m:
        raise AnchorError("TokenizeWithLimits: definition keyword case not found")
    defkw = re.findall(r"identkeyword\.(\w+)", m.group(1))
    # the repair: the reset is guarded by "outside of any selection set"
    case_body = body[m.end():body.index("default:", m.end())]
    guarded = bool(re.search(r"if localDepth <= 0 \{[^}]*globalDepth \+= localDepthPeak", case_body, re.S)) and "fallthrough" in case_body
    # the second repair: a brace at the start / after a closing brace, outside parentheses, starts a shorthand operation
    lb = re.search(r"case keyword\.LBRACE:(.*?)case keyword\.RBRACE:", body, re.S)
    shorthand = bool(lb and re.search(
        r"if localDepth <= 0 && parenDepth <= 0 && \(prev == keyword\.UNDEFINED \|\| prev == keyword\.RBRACE\) \{\s*(?://[^\n]*\n\s*)*"
        r"globalDepth \+= localDepthPeak\s*localDepth = 0\s*localDepthPeak = 0\s*\}\s*globalDepth\+\+", lb.group(1), re.S)) \
        and bool(re.search(r"case keyword\.LPAREN:\s*parenDepth\+\+\s*case keyword\.RPAREN:\s*parenDepth--", body)) \
        and bool(re.search(r"if next\.Keyword != keyword\.COMMENT \{\s*prev = next\.Keyword\s*\}", body))
    # the repairs of the lexer and of ast.PrintValue that the model follows (coq/C05/PreFix.v has the code they replaced)
    rr = func_body(lx, "readRune")
    nul_kept = bool(re.search(r"if r == runes\.EOF \{\s*(?://[^\n]*\n\s*)*return\s*\}.*InputPosition\+\+", rr, re.S))
    rb = func_body(lx, "readBlockString")
    quotes_content = bool(re.search(
        r"next := l\.readRune\(\)\s*if quoteCount != 0 && next != runes\.QUOTE \{\s*(?://[^\n]*\n\s*)*if !reachedFirstNonWhitespace \{\s*"
        r"reachedFirstNonWhitespace = true\s*leadingWhitespaceToken = whitespaceCount\s*\}\s*whitespaceCount = 0\s*\}\s*switch next", rb, re.S)) \
        and bool(re.search(r"case runes\.BACKSLASH:\s*if !reachedFirstNonWhitespace \{\s*reachedFirstNonWhitespace = true\s*"
                           r"leadingWhitespaceToken = whitespaceCount\s*\}\s*escaped = !escaped", rb, re.S))
    pv = func_body(rd("v2/pkg/ast/ast_value.go"), "PrintValue")
    block_nl = bool(re.search(
        r"if isBlockString && len\(content\) > 0 && \(content\[len\(content\)-1\] == '\"' \|\| content\[len\(content\)-1\] == '\\\\'\) \{\s*"
        r"(?://[^\n]*\n\s*)*_, err = w\.Write\(literal\.LINETERMINATOR\)", pv, re.S))
    special = ["HASHTAG", "QUOTE", "DOT", "BACKSLASH", "LINETERMINATOR", "CARRIAGERETURN", "SPACE", "TAB",
               "EXPONENT_LOWER", "EXPONENT_UPPER", "SUB", "ADD"]
    txt = "(* GENERATED by tools/props/c05.py from /repo -- do not edit *)\n"
    txt += "From Gv Require Import lib.Bytes.\nOpen Scope N_scope.\n"
    txt += "Definition anchor_keyword_names : list bytes := %s.\n" % coq_list(coq_bytes(n.encode()) for n in kw)
    txt += "Definition anchor_single_runes : list (byte * bytes) := %s.\n" % coq_list(
        "(%d, %s)" % (runes[r], coq_bytes(k.encode())) for r, k in singles)
    txt += "Definition anchor_ws : list byte := %s.\n" % coq_bytes(ws)
    txt += "Definition anchor_ident_ranges : list (byte * byte) := %s.\n" % coq_list("(%d, %d)" % p for p in ranges)
    txt += "Definition anchor_ident_singles : list byte := %s.\n" % coq_bytes(single_id)
    txt += "Definition anchor_digit_range : (byte * byte) := (%d, %d).\n" % dig[0]
    txt += "Definition anchor_special_runes : list byte := %s.\n" % coq_bytes([runes[n] for n in special])
    txt += "Definition anchor_identkeywords : list (bytes * bytes) := %s.\n" % coq_list(
        "(%s, %s)" % (coq_bytes(lit), coq_bytes(name.encode())) for lit, name in ik)
    txt += "Definition anchor_limit_def_keywords : list bytes := %s.\n" % coq_list(coq_bytes(n.encode()) for n in defkw)
    txt += "Definition anchor_limit_reset_guarded : bool := %s.\n" % ("true" if guarded else "false")
    txt += "Definition anchor_limit_shorthand_period : bool := %s.\n" % ("true" if shorthand else "false")
    txt += "Definition anchor_lexer_nul_not_consumed : bool := %s.\n" % ("true" if nul_kept else "false")
    txt += "Definition anchor_lexer_block_quotes_are_content : bool := %s.\n" % ("true" if quotes_content else "false")
    txt += "Definition anchor_print_block_newline_after_quote : bool := %s.\n" % ("true" if block_nl else "false")
    return write_if_changed(os.path.join(vlib.COQ, "gen", "Anchors_C05.v"), txt)


# --------------------------------------------------------------------------- known-finding classification
def classify(case, detail):
    """Narrow keys for the genuine defects this property found (matched against KNOWN_FINDINGS.txt).  The driver
    emits no [cause: ...] tag any more: every round-trip defect that had one is repaired (only the thorough-tier
    stack-overflow probe still reports under a key, passed explicitly)."""
    m = re.search(r"\[cause: ([a-z0-9-]+)\]", detail)
    if m:
        return m.group(1)
    return None


# --------------------------------------------------------------------------- run
def _distribution(cases):
    d = {}
    for c in cases:
        m = re.match(r"\(c05 (\w+) ", c)
        cls = m.group(1) if m else "?"
        d.setdefault("class_" + cls, 0)
        d["class_" + cls] += 1
        for tag, pat in (("parse_ok", "(parse ok)"), ("parse_err", "(parse err)"), ("lim_depth", "(lim depth"),
                         ("lim_fields", "(lim fields"), ("with_nul", "\\00"), ("with_block_string", "\\22\\22\\22"),
                         ("with_backslash", "\\5c")):
            if pat in c:
                d[tag] = d.get(tag, 0) + 1
    sizes = sorted(len(c) for c in cases)
    if sizes:
        d["line_bytes_median"] = sizes[len(sizes) // 2]
        d["line_bytes_max"] = sizes[-1]
    return d


def run(chk, only_corpus=False):
    n = 3000 if chk.tier == "quick" else 300000
    chk.coverage["rule"] = RULE
    chk.assumptions += [
        "Coq 8.16.1 kernel (coqc, full .vo build); vm_compute only in Examples and refutation witnesses",
        "extraction with ExtrOcamlBasic only; ocamlfind ocamlopt 4.13.1; ocaml/common/prelude.ml + ocaml/c05/driver.ml "
        "(S-expression reader, tree <-> dump conversion)",
        "tools/props/c05.py anchor translator (regex over gofmt'ed lexer.go, runes.go, keyword.go, identkeyword.go, tokenizer.go)",
        "harness/gqldump (index-based ast.Document -> tree S-expression) and harness/cmd/c05 (generators, observables)",
        "modelled by hand and tied by correspondence: lexer.go Read, tokenizer.go Tokenize/TokenizeWithLimits/Read/Peek, "
        "parser.go for executable documents, astprinter.go + ast.PrintValue/PrintType/PrintArgument for executable documents",
        "limits are read cumulatively, as the tokenizer's comments and tests do: MaxDepth bounds the SUM over all "
        "definitions of their selection depth (brace nesting of selection sets incl. inline fragments), which bounds the depth "
        "of every operation with named fragments spread (depth_inlined_le_sum; a fragment is expanded at most once per path, "
        "cycles cut); MaxFields bounds the number of field nodes of the whole document; both computed on the dumped tree",
        "uint32 token offsets: theorems assume an input shorter than 2^32 bytes; line/column counters and Go ints are "
        "modelled unbounded",
        "the parser model stops at the first error; the Go control flow between the first recorded error and the return "
        "is not modelled (no panic / hang there is observed by the correspondence run only)",
        "type-system definitions and descriptions are outside the parser/printer model (model answers Unsup); for them only "
        "the Go-side round-trip and totality checks apply",
        "round trip: proved on the model in full (c05_lex_print, c05_roundtrip, c05_print_fixpoint): for every document "
        "parse_bytes returns, lexing the printed bytes yields the token-level print, hence parse(print d) = d and the print is a "
        "fixed point; side conditions: input and print shorter than 2^32 bytes, PrintIndent's indent argument consists of "
        "insignificant characters only (necessary: c05_indent_must_be_ws). The driver still evaluates lex_print_ok_b on every "
        "accepted executable document as a correspondence check of the implementation (corr:C05/lex-print)",
        "no round-trip failure of the implementation is attributed to a listed finding any more (the four causes "
        "rt-nul-in-string, rt-block-string-edge, rt-sdl-empty-body-dropped, rt-string-line-continuation are repaired; their "
        "inputs are regression cases in corpus/C05); the driver only adds a diagnostic when a stored string is not re-quotable "
        "per the extracted string_stable_b / description_stable_b",
        "c05_block_string_requotable is stated over C15's model of readBlockString's trimming (C15.Model.blex_step, "
        "block_start/block_end/go_block_lexable) and Print.print_block_string; the trimming model is compared with every "
        "terminated block-string token of the implementation (corr:C05/block-trim; body = the bytes between the delimiters "
        "found by undoing the trimming); it is not proved equal to Lex.bstring_loop (the same loop with cursor positions), "
        "both are tied to the Go lexer by comparison",
        "the pre-repair lexer and printer (coq/C05/PreFix.v, module V0) are kept for the historical refutations only; they "
        "are not extracted and not tied to any code",
        "block-string descriptions are compared by BlockStringValue (harness/gqldump.BlockStringValue, written for this "
        "check) because the printer re-indents them by design",
        "goroutine stack exhaustion at about 3e6 nesting levels (lists, list types, selection sets) is outside every "
        "fuelled model: fatal error, not a recoverable panic (DESIGN.md C05, key stack-overflow)",
    ]
    try:
        gen_anchors()
    except AnchorError as e:
        chk.add_violation("tie:C05/anchors", "anchor translator: %s" % e, found_input=False)
    chk.proof_side()
    ok, log = vlib.build_model("C05")
    if not ok:
        chk.add_violation("tie:C05/model-build", log[-2000:], found_input=False)
        return
    ok, log, exe = vlib.build_harness("c05")
    if not ok:
        chk.add_violation("tie:C05/harness-build", log[-2000:], found_input=False)
        return
    model = os.path.join(vlib.BIN, "model_c05")
    state, samples, dist = {}, [], {}
    corpus = os.path.join(vlib.ROOT, "corpus", "C05", "cases.tsv")
    b = vlib.run_batch(chk, "%s corpus -in %s -out {out}" % (exe, corpus), model, "corpus")
    if b:
        vlib.digest_batch(chk, b[0], b[1], classify, state)
        samples += [c[:600] for c in b[0][:2]]
    if not only_corpus:
        per = 25000
        k = 0
        left = n
        while left > 0:
            m = min(per, left)
            b = vlib.run_batch(chk, "%s gen -seed %d -n %d -out {out}" % (exe, chk.seed * 7919 + k, m), model, "gen", timeout=3000)
            if b:
                vlib.digest_batch(chk, b[0], b[1], classify, state)
                if k == 0:
                    samples += [c[:600] for c in b[0][:4]]
                for kk, vv in _distribution(b[0]).items():
                    if kk.endswith("_median") or kk.endswith("_max"):
                        dist[kk] = max(dist.get(kk, 0), vv)
                    else:
                        dist[kk] = dist.get(kk, 0) + vv
            left -= m
            k += 1
        chk.coverage["distribution"] = dist

    def more(st):
        for k in range(1, 6):
            bb = vlib.run_batch(chk, "%s gen -seed %d -n %d -out {out}" % (exe, chk.seed * 1000003 + k, 12000), model, "more%d" % k, timeout=3000)
            if bb:
                vlib.digest_batch(chk, bb[0], bb[1], classify, st)
            if any(kk is None for (kk, _, _) in st.get("specfail", [])):
                break

    vlib.conclude_differential(chk, state, more)
    chk.coverage["samples"] = samples
    if chk.tier == "thorough":
        stack_probe(chk, exe)


def stack_probe(chk, exe):
    """Non-proof probe, thorough tier only: the parser recurses on nesting without a bound; the goroutine stack
    is finite.  Run in a child process with an address-space cap; a crash is the known finding."""
    res = {}
    for site in ("list", "type", "sel"):
        for nlev in (100000, 4000000):
            rc, out = vlib.sh("ulimit -v 16000000; %s deep -site %s -n %d" % (exe, site, nlev), cwd=vlib.ROOT, timeout=600, env=vlib.GOENV)
            crashed = rc != 0
            res["%s/%d" % (site, nlev)] = "crash rc=%s" % rc if crashed else out.strip()[-60:]
            if crashed:
                chk.add_violation("spec:total/stack-overflow", "parser process died at %d nested %s: %s" % (nlev, site, out[-300:]),
                                  case={"site": site, "levels": nlev}, key="stack-overflow")
    chk.coverage["stack_probe"] = res


def replay(chk, path):
    r = json.load(open(path))
    case = r.get("case")
    chk.log("replay: %s" % (str(case)[:400]))
    # re-run the recorded input through harness + model when it is a single case line
    if isinstance(case, str) and case.startswith("(c05 "):
        m = re.match(r'\(c05 \w+ ("(?:[^"])*") (-?\d+) (-?\d+) ', case)
        if m:
            tmp = os.path.join(chk.work, "replay.tsv")
            raw = re.sub(r"\\([0-9a-f]{2})", lambda mm: "\\x" + mm.group(1), m.group(1))
            with open(tmp, "w") as f:
                f.write("%s\t%s\t%s\n" % (m.group(2), m.group(3), raw))
            chk.coverage["rule"] = RULE
            chk.proof_side()
            ok, _ = vlib.build_model("C05")
            ok2, _, exe = vlib.build_harness("c05")
            if ok and ok2:
                st = {}
                b = vlib.run_batch(chk, "%s corpus -in %s -out {out}" % (exe, tmp), os.path.join(vlib.BIN, "model_c05"), "replay")
                if b:
                    vlib.digest_batch(chk, b[0], b[1], classify, st)
                vlib.conclude_differential(chk, st, None)
                return
    run(chk)
