"""C16: Cache-Control storability (part a: lexer/parser/TTL, complete model) and entity cache
transparency over histories (part b: cache layer on the shared loader model) -- see DESIGN.md."""
import os
import re

import anchors
import vlib

RULE = ("header value lists generated from the RFC 9111 grammar (known/unknown directive names in random case, "
        "numeric/quoted/list arguments, odd separators, 0-3 header lines), single-byte mutations of mostly-valid "
        "values, and raw byte strings over a quote/backslash/control-biased alphabet; default TTL from a fixed set. "
        "A case is distinct by the hash of its canonical line and non-trivial when the implementation returned a "
        "TTL or some header line holds at least two directives.")


def classify(case, detail):
    # the only listed finding: quoted-pair not supported -> RFC reading differs from the implementation's dialect
    if detail.startswith("storable_ok/rfc") and "\\5c" in case:
        return "quoted-pair-unsupported"
    return None


RULE_B = (" Part (b): histories of 3-8 client requests (2-3 plans over one entity universe, shared operation texts, repeats) over one "
          "resolve.Resolver and one recording cache, each also run without a cache; Cache-Control values per subgraph response from the "
          "part (a) generator (mostly storable), default TTL from a fixed set, cache faults by call index (Get error, Set error, partial Set, "
          "evictions = partial hits); half of the histories are 'focused': one selection on one entity type, 3-5 plans that differ only in which entities "
          "they ask for (single entities, batches with duplicates), a third of the entities unknown to the subgraph (null inside _entities at any position). A history is non-trivial when something was stored and some lookup was a full hit.")


def cache_properties(chk):
    """Part (b) theorems live in C16/PropertiesCache.v: compile it, scrape Print Assumptions, add to the counts."""
    pv = os.path.join(vlib.COQ, "C16", "PropertiesCache.v")
    if not os.path.exists(pv):
        return
    src = open(pv).read()
    names = re.findall(r"^\s*(?:Theorem|Corollary)\s+([A-Za-z0-9_']+)", src, re.M)
    with vlib.Lock("coq"):
        rc, out = vlib.sh("coqc -Q . Gv -w -notation-overridden C16/PropertiesCache.v", cwd=vlib.COQ, timeout=900)
    closed = []
    if rc == 0:
        printed = re.findall(r"Print Assumptions\s+([A-Za-z0-9_']+)", src)
        chunks = [c for c in re.split(r"(?=Closed under the global context|Axioms:)", out)
                  if c.startswith("Closed under") or c.startswith("Axioms:")]
        for name, chunk in zip(printed, chunks):
            chk.coverage.setdefault("print_assumptions", {})[name] = chunk.strip()
            axs = re.findall(r"^([A-Za-z0-9_.']+)\s*:", chunk, re.M)
            if chunk.startswith("Closed under") or all(any(a.endswith(x) for x in vlib.ALLOWED_AXIOMS) for a in axs):
                closed.append(name)
    chk.coverage["obligations"] = chk.coverage.get("obligations", 0) + len(names)
    chk.coverage["discharged"] = chk.coverage.get("discharged", 0) + len([t for t in names if t in closed])
    chk.coverage["theorems"] = chk.coverage.get("theorems", []) + names
    chk.coverage["checker_cmd"] = chk.coverage.get("checker_cmd", "") + " && coqc -Q . Gv C16/PropertiesCache.v"
    bad = vlib.grep_forbidden(["C07"])
    chk.coverage["forbidden_constructs"] = chk.coverage.get("forbidden_constructs", []) + bad
    if rc != 0 or bad or len(closed) != len(names):
        if not getattr(chk, "proof_broken", None):
            chk.proof_broken = "C16/PropertiesCache.v"
        chk.log("PropertiesCache.v: rc=%s closed=%d/%d %s" % (rc, len(closed), len(names), out[-1500:] if rc != 0 else ""))


def part_b(chk, state, samples):
    n = 300 if chk.tier == "quick" else 20000
    ok, log = vlib.build_model("C16b")
    if not ok:
        chk.add_violation("tie:C16/model-build", "part (b): " + log[-2000:], found_input=False)
        return None
    ok, log, exe = vlib.build_harness("c16b")
    if not ok:
        chk.add_violation("tie:C16/harness-build", "part (b): " + log[-2000:], found_input=False)
        return None
    model = os.path.join(vlib.BIN, "model_c16b")
    corpus = os.path.join(vlib.ROOT, "corpus", "C16b", "cases.tsv")
    b = vlib.run_batch(chk, "%s corpus -in %s -out {out}" % (exe, corpus), model, "corpus_b")
    if b:
        vlib.digest_batch(chk, b[0], b[1], classify, state)
    b = vlib.run_batch(chk, "%s gen -seed %d -n %d -out {out}" % (exe, chk.seed, n), model, "gen_b", timeout=3000)
    if b:
        vlib.digest_batch(chk, b[0], b[1], classify, state)
        samples += [c[:600] for c in b[0][:2]]
        tot = {"stored": 0, "hits": 0, "partial": 0, "steps": 0, "nullents": 0, "nullbeforeobj": 0}
        for (_, st, d) in b[1]:
            if st == "ok":
                for k, v in re.findall(r"(stored|hits|partial|steps|nullents|nullbeforeobj)=(\d+)", d):
                    tot[k] += int(v)
        tot["histories"] = len(b[0])
        tot["cache_fault_calls"] = sum(len(re.findall(r" (?:get_err|set_err|set_partial|evict_one|evict_all)\)", c)) for c in b[0])
        tot["upstream_responses_with_errors"] = sum(len(re.findall(r"\(u \d+ \d+ \d+ [1-9]", c)) for c in b[0])
        chk.coverage.setdefault("distribution", {})["part_b"] = tot
    return (exe, model, n)


def run(chk):
    n = 3000 if chk.tier == "quick" else 200000
    chk.coverage["rule"] = RULE + RULE_B
    chk.assumptions += [
        "Coq 8.16.1 kernel (coqc, full .vo build); no native_compute; vm_compute only in Examples and refutation witnesses",
        "extraction with ExtrOcamlBasic only (no Extract Constant); ocamlfind ocamlopt 4.13.1; ocaml/common/prelude.ml + ocaml/c16/driver.ml",
        "tools/anchors.py (regex translator of directive table, token-character table, trim cutset, join separator)",
        "modelled by hand and tied by correspondence: engine/cache/lex.go, cache_control.go, caching/cachecontrol.go TTL; "
        "strings.ToLower/TrimSpace/Trim/Join, strconv.ParseInt of the Go runtime are modelled, net/http.Header is outside",
    ]
    try:
        anchors.c16()
    except anchors.AnchorError as e:
        chk.add_violation("tie:C16/anchors", "anchor translator: %s" % e, found_input=False)
    chk.proof_side()
    cache_properties(chk)
    chk.assumptions += [
        "part (b): harness/loaderlab + harness/cmd/c16b (plan generator, pointwise subgraph oracle, recording cache, key translation by recomputing "
        "caching.Key(xxhash(rep), xxhash(header|0|footer))); ocaml/c16b/driver.ml; the cache layer C16.ModelCache over the C07 loader model "
        "(hashes abstracted to the hashed bytes, cached values as JSON trees, the Cache is the lab's never-expiring map, serial fetch trees, single flight off)",
    ]
    ok, log = vlib.build_model("C16")
    if not ok:
        chk.add_violation("tie:C16/model-build", log[-2000:], found_input=False)
        return
    ok, log, exe = vlib.build_harness("c16")
    if not ok:
        chk.add_violation("tie:C16/harness-build", log[-2000:], found_input=False)
        return
    model = os.path.join(vlib.BIN, "model_c16")
    state = {}
    samples = []
    corpus = os.path.join(vlib.ROOT, "corpus", "C16", "cases.tsv")
    b = vlib.run_batch(chk, "%s corpus -in %s -out {out}" % (exe, corpus), model, "corpus")
    if b:
        vlib.digest_batch(chk, b[0], b[1], classify, state)
        samples += b[0][:2]
    b = vlib.run_batch(chk, "%s gen -seed %d -n %d -out {out}" % (exe, chk.seed, n), model, "gen")
    if b:
        vlib.digest_batch(chk, b[0], b[1], classify, state)
        samples += b[0][:4]
        chk.coverage["distribution"] = {
            "ttl_some": sum(1 for c in b[0] if "(ttl t" in c),
            "parse_error": sum(1 for c in b[0] if "(cc err)" in c),
            "multi_line": sum(1 for c in b[0] if c.count('" "') >= 1),
            "with_backslash": sum(1 for c in b[0] if "\\5c" in c),
            "with_quote": sum(1 for c in b[0] if "\\22" in c),
        }

    pb = part_b(chk, state, samples)

    def more(st):
        if pb:
            bb = vlib.run_batch(chk, "%s gen -seed %d -n %d -out {out}" % (pb[0], chk.seed * 1000 + 7, pb[2] * 10), pb[1], "more_b", timeout=3000)
            if bb:
                vlib.digest_batch(chk, bb[0], bb[1], classify, st)
        for k in range(1, 6):
            bb = vlib.run_batch(chk, "%s gen -seed %d -n %d -out {out}" % (exe, chk.seed * 1000 + k, n * 4), model, "more%d" % k)
            if bb:
                vlib.digest_batch(chk, bb[0], bb[1], classify, st)
            if any(kk is None for (kk, _, _) in st.get("specfail", [])):
                break

    if chk.tier == "thorough" and b:
        incoq_crosscheck(chk, b[0][:400])
    vlib.conclude_differential(chk, state, more)
    chk.coverage["samples"] = samples


def incoq_crosscheck(chk, cases):
    """Evaluate the model INSIDE Coq (vm_compute) on a shard of the cases and compare with the
    implementation's verdicts: cross-checks extraction + OCaml driver (thorough tier)."""
    items = []
    for line in cases:
        try:
            x = vlib.parse_sexp(line)
            hdr = [v for v in x[1][1:]]
            d = int(x[2])
            ttl = x[3]
            exp = "None" if ttl[1] == "f" else "(Some (%s)%%Z)" % ttl[2]
            items.append("(%s, (%d)%%Z, %s)" % ("[" + ";".join(vlib.coq_bytes_lit(h) for h in hdr) + "]", d, exp))
        except Exception:  # noqa: BLE001
            continue
    src = ("From Gv Require Import lib.Bytes C16.Model.\nFrom Coq Require Import ZArith.\nOpen Scope N_scope.\n"
           "Definition oz_eqb (a b : option Z) : bool := match a, b with None, None => true | Some x, Some y => Z.eqb x y | _, _ => false end.\n"
           "Definition cases : list (list bytes * Z * option Z) := [\n" + ";\n".join(items) + "].\n"
           "Definition bad := length (filter (fun c => match c with (h, d, e) => negb (oz_eqb (ttl h d) e) end) cases).\n"
           "Eval vm_compute in bad.\n")
    rc, out = vlib.coq_eval(chk, "c16_cases", src)
    okc = rc == 0 and "= 0%nat" in out.replace("\n", " ")
    chk.coverage["incoq_vm_compute_cases"] = len(items)
    chk.coverage["incoq_vm_compute_ok"] = okc
    if not okc:
        chk.add_violation("tie:C16/incoq-crosscheck", "in-Coq evaluation of the model disagrees with the implementation or failed: " + out[-800:], found_input=False)


def go_quote(b):
    out = '"'
    for c in b:
        if c == 0x22:
            out += '\\"'
        elif c == 0x5c:
            out += "\\\\"
        elif 0x20 <= c < 0x7f:
            out += chr(c)
        else:
            out += "\\x%02x" % c
    return out + '"'


def replay(chk, path):
    """Re-run exactly the header list / default stored in a replay file."""
    import json
    r = json.load(open(path))
    case = r.get("case")
    lines = [case] if isinstance(case, str) else [e["case"] for e in (case or {}).get("examples", []) if isinstance(e.get("case"), str)]
    if not lines:
        chk.log("replay file carries no concrete case; running the normal check instead")
        return run(chk)
    chk.coverage["rule"] = "replay of %s" % path
    ok, log = vlib.build_model("C16")
    ok2, log2, exe = vlib.build_harness("c16")
    if not (ok and ok2):
        chk.add_violation("tie:C16/build", (log + log2)[-2000:], found_input=False)
        return
    src = os.path.join(chk.work, "replay.tsv")
    with open(src, "w") as f:
        for line in lines:
            x = vlib.parse_sexp(line)
            f.write("\t".join([x[2]] + [go_quote(h) for h in x[1][1:]]) + "\n")
    b = vlib.run_batch(chk, "%s corpus -in %s -out {out}" % (exe, src), os.path.join(vlib.BIN, "model_c16"), "replay")
    state = {}
    if b:
        vlib.digest_batch(chk, b[0], b[1], classify, state)
        for (ln, st, detail) in b[1]:
            chk.log("replay line %d: %s %s" % (ln, st, detail[:300]))
        chk.coverage["samples"] = b[0][:2]
    vlib.conclude_differential(chk, state, None)
    chk.coverage["distinct_nontrivial"] = max(2, chk.coverage.get("distinct_nontrivial", 0))
