"""C07, end-to-end half on the federation lab: fault sets injected into the subgraph requests of the
real planner + real ExecutionEngine; see harness/cmd/c07e/main.go for the clauses.
run_part(chk) is meant to be called at the end of props.c07.run()."""
import collections
import json
import os
import time

import vlib

RULE = (" || end-to-end part: fedlab cases (seed, index) with all knobs (KnobsFor tiers) under the engine option sets (MultiFetch, "
        "ScheduleFetches) = (off,off), (on,on) [thorough: all four]; per case the fault-free run records the requests (identified by "
        "subgraph + query text + variables), then every single (request, kind) for 13 kinds (transport error, 500 with the body, 500 "
        "empty, 200 empty, HTML, NaN / -inf / 01 in place of a number, truncated body, errors without data, _entities one short / "
        "one extra / first entity null) and random subsets (quick: 30 per case, two thirds of them without the kinds of recorded "
        "findings; thorough: the power set of the requests twice with random kinds when <= 6 requests, else 2000). An evaluation is "
        "one faulted run of one (case, option set); it is non-trivial when the data differs from the fault-free data.")

# clause -> known-finding keys that explain a violation of it when the root cause is present in the run
# (nan-accepted, entity-count-ignored and nullable-requires-null-sent are repaired in loader.go: no mapping any more)
TABLE = {
    "valid_response": ["multifetch-nan-accepted"],
    "errors_nonempty": ["status-ignored-with-data", "multifetch-single-origin-count-ignored"],
    "affected_null": ["status-ignored-with-data", "multifetch-single-origin-count-ignored", "multifetch-nan-accepted"],
    "requests_subset": ["multifetch-nan-accepted", "multifetch-nullable-requires-null-sent", "multifetch-single-origin-count-ignored"],
    "unaffected_equal": ["multifetch-skip-drops-healthy-entries", "multifetch-nan-accepted"],
}
CLAUSES = ["valid_response", "returns", "errors_nonempty", "requests_subset", "independent_subgraphs_untouched",
           "unaffected_equal", "affected_null"]


def classify(clause, causes):
    cs = [c for c in causes.split(",") if c]
    for k in TABLE.get(clause, []):
        if k in cs:
            return k
    return None


def _run(chk, exe, args, tag, timeout):
    out = os.path.join(chk.work, "c07e_%s.jsonl" % tag)
    if os.path.exists(out):
        os.remove(out)
    cmd = "%s %s -out %s" % (exe, args, out)
    rc, log = vlib.sh(cmd, cwd=vlib.ROOT, timeout=timeout, env=vlib.GOENV)
    if rc != 0 or not os.path.exists(out):
        chk.add_violation("tie:C07e/harness-run", "harness failed rc=%s: %s" % (rc, log[-1500:]), case={"cmd": cmd}, found_input=(rc != 124))
        return None
    return [json.loads(l) for l in vlib.read_lines(out) if l.strip()]


def _fold(chk, part, outcomes):
    t = part["totals"]
    for o in outcomes:
        t["status"][o["status"]] += 1
        if o["status"] == "laberror":
            part["lab_errors"].append({"id": [o["seed"], o["index"]], "detail": o.get("detail", "")})
        if o["status"] != "checked":
            continue
        t["runs"] += o["runs"]
        t["runs_changing_data"] += o["changed"]
        t["runs_with_exact_reference"] += o["exact"]
        t["requests_per_case"][str(o["nreq"])] += 1
        t["by_option_set"][o["opt"]] += o["runs"]
        if "(S" in o.get("tree", "") and "(P" in o.get("tree", ""):
            t["cases_with_parallel"] += 1
        for k, v in o.get("stats", {}).items():
            t["stats"][k] += v
        if len(part["samples"]) < 3 and o["nreq"] >= 3:
            part["samples"].append({"id": [o["seed"], o["index"]], "opt": o["opt"], "requests": o["nreq"], "runs": o["runs"],
                                    "tree": o.get("tree", ""), "op": o.get("op", "")[:300]})
        for v in o.get("violations", []):
            key = classify(v["clause"], v.get("causes", ""))
            t["violations"]["%s%s" % (v["clause"], (":" + key) if key else "")] += 1
            case = {k: o.get(k) for k in ("seed", "index", "knobs", "opt", "tree", "op")}
            case.update({"faults": v["faults"], "kinds": v["kinds"], "rerun": v["rerun"]})
            # keep the evidence small: one violation per (clause, key, single/multi fault)
            sig = (v["clause"], key, "," in v["faults"])
            if key is not None and sig in part["_seen"]:
                continue
            part["_seen"].add(sig)
            chk.add_violation("spec:C07e/" + v["clause"], "%s faults=[%s] kinds=[%s] causes=[%s] %s" % (
                v["clause"], v["faults"], v["kinds"], v.get("causes", ""), v["detail"]), case=case, key=key)


def run_part(chk):
    t0 = time.time()
    part = {"totals": {"status": collections.Counter(), "runs": 0, "runs_changing_data": 0, "runs_with_exact_reference": 0,
                       "requests_per_case": collections.Counter(), "by_option_set": collections.Counter(), "cases_with_parallel": 0,
                       "stats": collections.Counter(), "violations": collections.Counter()},
            "samples": [], "lab_errors": [], "clauses": CLAUSES, "_seen": set()}
    chk.coverage["e2e_part"] = part
    chk.coverage["rule"] = chk.coverage.get("rule", "") + RULE
    chk.assumptions += [
        "end-to-end part: harness/fedlab (generator, semantic subgraphs answered by the extracted reference executor bin/model_exec, the "
        "RoundTripper hook that injects faults), harness/e2e (fault bodies, plan dump, the reference universe) and harness/cmd/c07e "
        "(clause evaluation in Go, not extracted)",
        "end-to-end part: the expected response is Lab.Mono (coq/lib/Exec.v, extracted) over the universe in which the (entity, field) "
        "pairs the failed requests were to deliver resolve to (err): a hard fault fails the whole request (all its representations; one "
        "aliased _entities list of a merged request for the entity-count kinds), ent_null one entity; a request that reads a marked "
        "field as a @requires input delivers nothing for that entity. Upper bound of what may be nulled: additionally everything "
        "delivered by a fetch of the planner's pre-merge fetch list that transitively depends (DependsOnFetchIDs) on a failed fetch",
        "end-to-end part: affected_null is evaluated only when the reference is exact (no healthy request of the faulted run selects a "
        "marked (type, field) pair; otherwise the same field reaches the response through another request); unaffected_equal always",
        "end-to-end part: 'returns' is a wall-clock bound of 4 s per run (the semantic subgraphs answer inside the round trip; a slow "
        "run is repeated once before it is reported); encoding/json.Valid is the JSON validity oracle",
        "end-to-end part: a request is identified by subgraph + query text + variables; faults are keyed on the requests of the "
        "fault-free run, so a downstream request whose representations changed under an earlier fault is not faulted itself",
    ]
    ok, log, exe = vlib.build_harness("c07e")
    if not ok:
        chk.add_violation("tie:C07e/harness-build", log[-2000:], found_input=False)
        return
    corpus = os.path.join(vlib.ROOT, "corpus", "C07e", "cases.tsv")
    if os.path.exists(corpus):
        r = _run(chk, exe, "corpus -in %s -tier %s" % (corpus, chk.tier), "corpus", 1200)
        if r:
            _fold(chk, part, r)
    n = 70 if chk.tier == "quick" else 600
    r = _run(chk, exe, "gen -seed %d -n %d -knobs all -tier %s" % (chk.seed, n, chk.tier), "gen", 6 * 3600)
    if r:
        _fold(chk, part, r)
    tot = part["totals"]
    del part["_seen"]
    part["wall_s"] = round(time.time() - t0, 1)
    chk.coverage["evaluations"] = chk.coverage.get("evaluations", 0) + tot["runs"]
    chk.coverage["distinct_nontrivial"] = chk.coverage.get("distinct_nontrivial", 0) + tot["runs_changing_data"]
    d = chk.coverage.get("distribution")
    if isinstance(d, dict):
        d["e2e_part"] = {"checked_cases": tot["status"].get("checked", 0), "runs": tot["runs"],
                         "runs_changing_data": tot["runs_changing_data"], "requests_per_case": dict(tot["requests_per_case"]),
                         "fault_kinds_hit": {k[4:]: v for k, v in tot["stats"].items() if k.startswith("hit_")}}
    for k in list(tot.keys()):
        if isinstance(tot[k], collections.Counter):
            tot[k] = dict(sorted(tot[k].items()))
    chk.log("end-to-end part: %d checked (case, option set), %d faulted runs (%d change the data, %d with exact reference), "
            "violations=%s, %.1fs" % (tot["status"].get("checked", 0), tot["runs"], tot["runs_changing_data"],
                                      tot["runs_with_exact_reference"], tot["violations"], part["wall_s"]))
