"""C12: subscription delivery is ordered, exact, and stops at completion (shares model, harness and
driver with C13) -- see DESIGN.md section 4 C12/C13 and Appendix A."""
import json
import os
import re
import time

import vlib

PROP = "C12"

RULE = ("one evaluation = one schedule of one scenario executed on a fresh Resolver under the cooperative scheduler "
        "(11 fixed scenario families enumerated depth-first up to a cap plus seeded random schedules; seeded random "
        "scenarios with 1-3 subscribers on 1-2 triggers: same / different input, different forwarded headers, filters, "
        "failing hooks / Start / Write / Flush / Heartbeat, hook emissions, synchronous subscribers, heartbeat ticks, "
        "shutdown) and replayed step by step on the extracted LTS. Distinct by the hash of (scenario, schedule); "
        "non-trivial when the schedule switches away from an actor that is parked inside an operation (after its first "
        "yield) or blocked, i.e. two actors overlap inside a modelled critical window.")

ASSUMPTIONS = [
    "Coq 8.16.1 kernel (coqc, full .vo build); no native_compute; vm_compute only in Examples and refutation witnesses",
    "extraction with ExtrOcamlBasic only; ocamlfind ocamlopt 4.13.1; ocaml/common/prelude.ml + ocaml/c12/driver.ml "
    "(trace replay with search over Go map iteration order, observables of one release compared as a multiset)",
    "the LTS is sequentially consistent over lock / atomic regions (Resolver.mu, trigger.mu, writeMu, updater mu, "
    "removed, initialized, completed); Go scheduler, mutexes, channels, WaitGroup, context cancellation are modelled",
    "modelled rather than verified: response rendering (resolvable / loader: one Write per event, outcome oracle), "
    "SubscriptionFilter.SkipEvent (oracle pass / skip / error), xxhash trigger ids treated as injective, heartbeat "
    "timing (always due, or skipped by an environment-chosen 'recent' set), client never reuses a SubscriptionIdentifier",
    "harness: cooperative scheduler parking goroutines at verifYield call sites and data-source gates, quiescence read "
    "off runtime.Stack goroutine states, goroutine identity via per-subscriber context wrappers",
    "subscriptionUpdater.Heartbeat (not in the SubscriptionUpdater interface) and SkipLoader / authorization early exits are not modelled",
]


def classify(case, detail):
    return None


def _mtime(p):
    try:
        return os.path.getmtime(p)
    except OSError:
        return 0


def harness_cases(chk, exe, race=False):
    """Run (or reuse, when younger than 60 s and built from the same sources) the shared exploration."""
    cdir = os.path.join(vlib.WORK, "c12cache")
    os.makedirs(cdir, exist_ok=True)
    tag = "%s-%d%s" % (chk.tier, chk.seed, "-race" if race else "")
    cases = os.path.join(cdir, tag + ".cases")
    meta = os.path.join(cdir, tag + ".meta")
    import hashlib
    stamp = hashlib.sha1(open(exe, "rb").read()).hexdigest()
    with vlib.Lock("c12cache"):
        if os.path.exists(cases) and os.path.exists(meta):
            m = open(meta).read().split("\n")
            if m and m[0] == stamp and time.time() - _mtime(cases) < 60:
                chk.log("reusing harness run %s" % cases)
                return cases, None
        if chk.tier == "quick":
            opts = "-ms 26000 -perfam 120 -nrand 500 -perrand 3"
            to = 120
        elif race:
            opts = "-ms 240000 -perfam 400 -nrand 3000 -perrand 3"
            to = 900
        else:
            opts = "-ms 600000 -perfam 3000 -nrand 20000 -perrand 4"
            to = 1500
        tmp = cases + ".tmp"
        rc, out = vlib.sh("%s explore -seed %d %s -out %s" % (exe, chk.seed, opts, tmp), cwd=vlib.ROOT, timeout=to, env=vlib.GOENV)
        if rc != 0 or not os.path.exists(tmp):
            # a crash (e.g. a panic in a goroutine of the library) loses the buffered lines: report it
            return None, "harness rc=%s: %s" % (rc, out[-3000:])
        os.replace(tmp, cases)
        open(meta, "w").write(stamp + "\n" + out[-200:])
        return cases, None


def run_driver(chk, model, cases, tag):
    res = os.path.join(chk.work, tag + ".res")
    if os.path.exists(res):
        os.remove(res)
    rc, out = vlib.sh("%s %s %s" % (model, cases, res), cwd=vlib.ROOT, timeout=1200)
    if rc != 0 or not os.path.exists(res):
        chk.add_violation("tie:%s/model-run" % chk.prop, "model driver failed rc=%s: %s" % (rc, out[-1500:]), found_input=False)
        return None
    return vlib.read_lines(cases), vlib.read_results(res)


def own(results, prop):
    """Keep correspondence results and the spec verdicts of this property; a line whose only failures belong to the
    sibling property counts as ok for this one."""
    other = "C13:" if prop == "C12" else "C12:"
    byline = {}
    for (ln, status, detail) in results:
        byline.setdefault(ln, []).append((status, detail))
    out = []
    for ln in sorted(byline):
        kept = [(s, d) for (s, d) in byline[ln] if not (s == "specfail" and d.startswith(other))]
        if not kept:
            kept = [("ok", "nt q")]
        for (s, d) in kept:
            if s == "specfail":
                d = d[len(prop) + 1:]
            out.append((ln, s, d))
    return out


def distribution(cases):
    d = {"runs": len(cases), "steps": 0, "blocked_steps": 0, "subscribers": {}, "sync_subscribers": 0, "filters": 0,
         "failing_hook_or_start": 0, "shutdown": 0, "heartbeat_ticks": 0, "yield_points": {}}
    for c in cases:
        d["steps"] += c.count("((start ") + c.count("((go ")
        d["blocked_steps"] += c.count("(blk)")
        m = re.search(r"\(subs(.*?)\) \(lanes", c)
        n = m.group(1).count("(") if m else 0
        d["subscribers"][str(n)] = d["subscribers"].get(str(n), 0) + 1
        if m:
            for sc in re.findall(r"\(([^()]*)\)", m.group(1)):
                f = sc.split()
                if len(f) == 12:
                    d["sync_subscribers"] += f[4] == "t"
                    d["filters"] += f[5] != "0"
                    d["failing_hook_or_start"] += (f[9] == "fail") + (f[11] == "fail")
        d["shutdown"] += "(shutdown)" in c
        d["heartbeat_ticks"] += c.count("((go hb)")
        for p in re.findall(r"\(at ([a-zA-Z0-9.]+)\)", c):
            d["yield_points"][p] = d["yield_points"].get(p, 0) + 1
    return d


def run_common(chk, prop, extra_dirs):
    chk.coverage["rule"] = RULE
    chk.assumptions += ASSUMPTIONS
    chk.proof_side(extra_dirs=extra_dirs)
    ok, log = vlib.build_model("C12")
    if not ok:
        chk.add_violation("tie:%s/model-build" % prop, log[-2000:], found_input=False)
        return
    ok, log, exe = vlib.build_harness("c12")
    if not ok:
        chk.add_violation("tie:%s/harness-build" % prop, log[-2000:], found_input=False)
        return
    model = os.path.join(vlib.BIN, "model_c12")
    state, samples = {}, []
    corpus = os.path.join(vlib.ROOT, "corpus", prop, "cases.txt")
    b = vlib.run_batch(chk, "%s corpus -in %s -out {out}" % (exe, corpus), model, "corpus")
    if b:
        vlib.digest_batch(chk, b[0], own(b[1], prop), classify, state)
        samples += [c[:600] for c in b[0][:1]]
    cases, err = harness_cases(chk, exe)
    if cases is None:
        chk.add_violation("tie:%s/harness-run" % prop, err, found_input=False)
    else:
        b = run_driver(chk, model, cases, "gen")
        if b:
            vlib.digest_batch(chk, b[0], own(b[1], prop), classify, state)
            samples += [c[:600] for c in b[0][:2]] + [c[:600] for c in b[0][-1:]]
            chk.coverage["distribution"] = distribution(b[0])
    if chk.tier == "thorough":
        ok, log, exe_r = vlib.build_harness("c12", race=True)
        if not ok:
            chk.add_violation("tie:%s/harness-build-race" % prop, log[-2000:], found_input=False)
        else:
            cases_r, err = harness_cases(chk, exe_r, race=True)
            if cases_r is None:
                key = "race" if "DATA RACE" in (err or "") else None
                chk.add_violation("tie:%s/harness-run-race" % prop, err, found_input=False, key=key)
            else:
                b = run_driver(chk, model, cases_r, "race")
                if b:
                    vlib.digest_batch(chk, b[0], own(b[1], prop), classify, state)
                    chk.coverage["race_build_runs"] = len(b[0])

    def more(st):
        for k in range(1, 4):
            tmp = os.path.join(chk.work, "more%d.cases" % k)
            rc, out = vlib.sh("%s explore -seed %d -ms 40000 -perfam 300 -nrand 800 -out %s" % (exe, chk.seed * 1000 + k, tmp),
                              cwd=vlib.ROOT, timeout=200, env=vlib.GOENV)
            if rc == 0:
                bb = run_driver(chk, model, tmp, "more%d" % k)
                if bb:
                    vlib.digest_batch(chk, bb[0], own(bb[1], prop), classify, st)
            if any(kk is None for (kk, _, _) in st.get("specfail", [])):
                break

    vlib.conclude_differential(chk, state, more)
    chk.coverage["samples"] = samples


def run(chk):
    run_common(chk, "C12", ["C13"])


def replay_common(chk, prop, path):
    r = json.load(open(path))
    case = r.get("case")
    if isinstance(case, dict):
        ex = case.get("examples") or []
        case = ex[0]["case"] if ex else None
    m = re.match(r'\(run \(scn (-?\d+) (\d+) (\d+)\) \(choices "([^"]*)"\)', case or "")
    if not m:
        chk.log("replay: no schedule in %s" % path)
        chk.add_violation("tie:%s/replay" % prop, "replay file carries no schedule", found_input=False)
        return
    ok, log = vlib.build_model("C12")
    ok2, log2, exe = vlib.build_harness("c12")
    if not (ok and ok2):
        chk.add_violation("tie:%s/harness-build" % prop, (log + log2)[-2000:], found_input=False)
        return
    model = os.path.join(vlib.BIN, "model_c12")
    cmd = '%s replay -scn "%s %s %s" -choices "%s" -out {out}' % (exe, m.group(1), m.group(2), m.group(3), m.group(4))
    chk.log("replay: scenario %s schedule %s" % (m.group(1, 2, 3), m.group(4)))
    state = {}
    b = vlib.run_batch(chk, cmd, model, "replay")
    if b:
        for (ln, st, d) in own(b[1], prop):
            chk.log("replay verdict: %s %s" % (st, d[:300]))
        vlib.digest_batch(chk, b[0], own(b[1], prop), classify, state)
    vlib.conclude_differential(chk, state, None)
    chk.coverage["rule"] = RULE
    chk.coverage["samples"] = [c[:600] for c in (b[0] if b else [])]


def replay(chk, path):
    replay_common(chk, "C12", path)
