"""C12: subscription delivery is ordered, exact, and stops at completion (shares model, harness and
driver with C13) -- see DESIGN.md section 4 C12/C13 and Appendix A."""
import json
import os
import re
import time

import vlib

PROP = "C12"

RULE = ("one evaluation = one schedule of one scenario executed on a fresh Resolver under the cooperative scheduler "
        "(23 fixed scenario families explored depth-first and with seeded random schedules inside equal time slices, plus "
        "seeded random scenarios with 1-3 subscribers on 1-2 triggers: same / different input, different forwarded headers, "
        "filters, failing hooks / Start / Write / Flush / Heartbeat, hook emissions, synchronous subscribers, heartbeat "
        "ticks, shutdown, sources that call the updater from two goroutines, histories in which nobody is asked to leave) "
        "and replayed step by step on the extracted LTS. Parking points: the verifYield call sites of resolve.go, the gates "
        "of the scripted data source, and EVERY call on the subscriber's writer (Write / Flush / Complete / Error / "
        "Heartbeat / AsyncErrorWriter.WriteError park inside the call, i.e. while the real code holds writeMu), so client "
        "operations, joins, teardown and further updater calls are scheduled DURING a write. "
        "Families 18-20: the subscriber that CREATED a shared trigger (synchronous or asynchronous) leaves by cancellation of "
        "its request context while one or two others stay, the source goes on emitting / completes / fails / says Done; "
        "21: a FAILED update (event is not valid JSON) is inside WriteError while the client unsubscribes / a heartbeat "
        "ticks; 22: a synchronous subscriber whose Flush fails must be completed (a Flush / Heartbeat error RETURNED on a "
        "subscriber's own writer is an implementation-side premise of the quiescence clauses). "
        "Besides the correspondence, three clauses are evaluated on the implementation's log ALONE for every run (also after "
        "the correspondence broke), for trigger keys whose membership is unambiguous from the observables (one Start per key, "
        "no scripted failure): an Update(e) that returned while s was subscribed and not asked to leave wrote e to s "
        "(delivery_order); a Complete()/Error() of the source that returned in that period reached s's writer "
        "(every_subscriber_completed); the trigger context is not observed cancelled in that period (teardown_has_cause). "
        "C13 adds the trigger-identity "
        "stream: the real graphql_datasource.SubscriptionSource (from the real planner, over a fake "
        "GraphQLSubscriptionClient) driven through the real Resolver on ~60 subscription specs that are equal or differ in "
        "exactly one component (url, header, body.query / variables / extensions, use_sse, sse_method_post, ws_sub_protocol, "
        "forwarded-header rules, forwarded / non-forwarded client header values, initial_payload). Distinct by the hash of "
        "(scenario, schedule); non-trivial when the schedule switches away from an actor that is parked inside an operation "
        "(after its first yield) or blocked, i.e. two actors overlap inside a modelled critical window.")

ASSUMPTIONS = [
    "Coq 8.16.1 kernel (coqc, full .vo build); no native_compute; vm_compute only in Examples and refutation witnesses",
    "extraction with ExtrOcamlBasic only; ocamlfind ocamlopt 4.13.1; ocaml/common/prelude.ml + ocaml/c12/driver.ml "
    "(trace replay with search over Go map iteration order and over silent progress of blocked actors, observables of "
    "one release compared as a multiset)",
    "the LTS is sequentially consistent over lock / atomic regions (Resolver.mu, trigger.mu, writeMu, updater mu, "
    "removed, initialized, completed); Go scheduler, mutexes, channels, WaitGroup, context cancellation are modelled",
    "modelled rather than verified: response rendering (resolvable / loader: one message Write per event followed by "
    "Flush, outcome oracle; a message is several io.Writer chunks, the harness treats the chunk that identifies the "
    "event as the entry of the Write), SubscriptionFilter.SkipEvent (oracle pass / skip / error), heartbeat timing "
    "(always due, or skipped by an environment-chosen 'recent' set), client never reuses a SubscriptionIdentifier",
    "trigger identity: the model's key is a function keyof(rendered input, forwarded-headers hash) ASSUMED injective "
    "(c13_shared_iff_same_input states it as a hypothesis, c13_sharing_needs_injective_key shows it is needed): no "
    "xxhash64 collision, HashTriggerInput feeds every byte of the rendered input. The ident stream tests exactly this on "
    "the real SubscriptionSource / prepareTrigger for generated inputs; collisions of the 64-bit hash on inputs outside "
    "the generated families are outside the check",
    "completion of an ASYNCHRONOUS subscriber is not observable by any client (its completed channel is internal): the "
    "harness takes the return of the call that reported its removal (SubscriptionCountDec) as the witness; for "
    "synchronous subscribers the return of ResolveGraphQLSubscription is the witness",
    "the premise of the quiescence clauses (every registered subscriber was asked to leave / its trigger ended / "
    "shutdown) is read off the schedule and, for trigger membership, off the LTS replay of the prefix on which model and "
    "implementation agree; the clauses themselves use implementation observables only",
    "harness: cooperative scheduler parking goroutines at verifYield call sites, data-source gates and writer calls, "
    "quiescence read off runtime.Stack goroutine states, goroutine identity via per-subscriber context wrappers",
    "subscriptionUpdater.Heartbeat (not in the SubscriptionUpdater interface) and SkipLoader / authorization early exits are not modelled",
]


def classify(case, detail):
    return None


def _mtime(p):
    try:
        return os.path.getmtime(p)
    except OSError:
        return 0


def harness_cases(chk, exe, race=False):
    """Run (or reuse, when younger than 60 s and built from the same sources) the shared exploration."""
    cdir = os.path.join(vlib.WORK, "c12cache")
    os.makedirs(cdir, exist_ok=True)
    tag = "%s-%d%s" % (chk.tier, chk.seed, "-race" if race else "")
    cases = os.path.join(cdir, tag + ".cases")
    meta = os.path.join(cdir, tag + ".meta")
    import hashlib
    stamp = hashlib.sha1(open(exe, "rb").read()).hexdigest()
    with vlib.Lock("c12cache"):
        if os.path.exists(cases) and os.path.exists(meta):
            m = open(meta).read().split("\n")
            if m and m[0] == stamp and time.time() - _mtime(cases) < 60:
                chk.log("reusing harness run %s" % cases)
                return cases, None
        if chk.tier == "quick":
            opts = "-ms 32000 -perfam 120 -nrand 600 -perrand 3"
            to = 120
        elif race:
            opts = "-ms 240000 -perfam 400 -nrand 3000 -perrand 3"
            to = 900
        else:
            opts = "-ms 600000 -perfam 3000 -nrand 20000 -perrand 4"
            to = 1500
        tmp = cases + ".tmp"
        rc, out = vlib.sh("%s explore -seed %d %s -out %s" % (exe, chk.seed, opts, tmp), cwd=vlib.ROOT, timeout=to, env=vlib.GOENV)
        if rc != 0 or not os.path.exists(tmp):
            # a crash (e.g. a panic in a goroutine of the library) loses the buffered lines: report it
            return None, "harness rc=%s: %s" % (rc, out[-3000:])
        os.replace(tmp, cases)
        open(meta, "w").write(stamp + "\n" + out[-200:])
        return cases, None


def run_driver(chk, model, cases, tag):
    res = os.path.join(chk.work, tag + ".res")
    if os.path.exists(res):
        os.remove(res)
    rc, out = vlib.sh("%s %s %s" % (model, cases, res), cwd=vlib.ROOT, timeout=1200)
    if rc != 0 or not os.path.exists(res):
        chk.add_violation("tie:%s/model-run" % chk.prop, "model driver failed rc=%s: %s" % (rc, out[-1500:]), found_input=False)
        return None
    return vlib.read_lines(cases), vlib.read_results(res)


def own(results, prop):
    """Keep correspondence results and the spec verdicts of this property; a line whose only failures belong to the
    sibling property counts as ok for this one."""
    other = "C13:" if prop == "C12" else "C12:"
    byline = {}
    for (ln, status, detail) in results:
        byline.setdefault(ln, []).append((status, detail))
    out = []
    for ln in sorted(byline):
        kept = [(s, d) for (s, d) in byline[ln] if not (s == "specfail" and d.startswith(other))]
        if not kept:
            kept = [("ok", "nt q")]
        for (s, d) in kept:
            if s == "specfail":
                d = d[len(prop) + 1:]
            out.append((ln, s, d))
    return out


def distribution(cases):
    d = {"runs": len(cases), "steps": 0, "blocked_steps": 0, "subscribers": {}, "sync_subscribers": 0, "filters": 0,
         "failing_hook_or_start": 0, "shutdown": 0, "heartbeat_ticks": 0, "yield_points": {},
         "switches_while_a_writer_call_is_in_progress": 0, "runs_with_two_updater_calls_in_flight": 0, "families": {}}
    for c in cases:
        d["steps"] += c.count("((start ") + c.count("((go ")
        d["blocked_steps"] += c.count("(blk)")
        m = re.search(r"\(subs(.*?)\) \(lanes", c)
        n = m.group(1).count("(") if m else 0
        d["subscribers"][str(n)] = d["subscribers"].get(str(n), 0) + 1
        if m:
            for sc in re.findall(r"\(([^()]*)\)", m.group(1)):
                f = sc.split()
                if len(f) == 12:
                    d["sync_subscribers"] += f[4] == "t"
                    d["filters"] += f[5] != "0"
                    d["failing_hook_or_start"] += (f[9] == "fail") + (f[11] == "fail")
        d["shutdown"] += "(shutdown)" in c
        fm = re.match(r"\(run \(scn (-?\d+)", c)
        if fm:
            d["families"][fm.group(1)] = d["families"].get(fm.group(1), 0) + 1
        # a step that leaves an actor parked inside a writer call, followed by a step of another actor
        st = re.findall(r"\(\((?:start|go) ([a-z:0-9#]+)[^()]*(?:\([^()]*\))?\) \((at [a-zA-Z0-9.]+|fin|blk|run|panic)\)", c)
        for i in range(len(st) - 1):
            if st[i][1] == "at ext.w" and st[i + 1][0] != st[i][0]:
                d["switches_while_a_writer_call_is_in_progress"] += 1
        srcs = re.findall(r"\(\(start (src:\d+) \((?:update|complete|error|done|close) ", c)
        if len(srcs) >= 2:
            # two updater calls started before the first one finished
            first_fin = re.search(r"\(%s \(fin\)\)|\(\(go %s\) \(fin\)" % (srcs[0], srcs[0]), c)
            second = c.find("((start %s " % srcs[1])
            if first_fin is None or second < first_fin.start():
                d["runs_with_two_updater_calls_in_flight"] += 1
        d["heartbeat_ticks"] += c.count("((go hb)")
        for p in re.findall(r"\(at ([a-zA-Z0-9.]+)\)", c):
            d["yield_points"][p] = d["yield_points"].get(p, 0) + 1
    return d


def run_common(chk, prop, extra_dirs):
    chk.coverage["rule"] = RULE
    chk.assumptions += ASSUMPTIONS
    chk.proof_side(extra_dirs=extra_dirs)
    ok, log = vlib.build_model("C12")
    if not ok:
        chk.add_violation("tie:%s/model-build" % prop, log[-2000:], found_input=False)
        return
    ok, log, exe = vlib.build_harness("c12")
    if not ok:
        chk.add_violation("tie:%s/harness-build" % prop, log[-2000:], found_input=False)
        return
    model = os.path.join(vlib.BIN, "model_c12")
    state, samples = {}, []
    corpus = os.path.join(vlib.ROOT, "corpus", prop, "cases.txt")
    b = vlib.run_batch(chk, "%s corpus -in %s -out {out}" % (exe, corpus), model, "corpus")
    if b:
        vlib.digest_batch(chk, b[0], own(b[1], prop), classify, state)
        samples += [c[:600] for c in b[0][:1]]
    if prop == "C13":
        # trigger identity on the real SubscriptionSource / prepareTrigger (deterministic, ~1 s)
        b = vlib.run_batch(chk, "%s ident -seed %d -out {out}" % (exe, chk.seed), model, "ident")
        if b:
            vlib.digest_batch(chk, b[0], own(b[1], prop), classify, state)
            samples += [c[:600] for c in b[0][1:2]]
            chk.coverage["ident_observations"] = len(b[0])
    cases, err = harness_cases(chk, exe)
    if cases is None:
        chk.add_violation("tie:%s/harness-run" % prop, err, found_input=False)
    else:
        b = run_driver(chk, model, cases, "gen")
        if b:
            vlib.digest_batch(chk, b[0], own(b[1], prop), classify, state)
            samples += [c[:600] for c in b[0][:2]] + [c[:600] for c in b[0][-1:]]
            chk.coverage["distribution"] = distribution(b[0])
    if chk.tier == "thorough":
        ok, log, exe_r = vlib.build_harness("c12", race=True)
        if not ok:
            chk.add_violation("tie:%s/harness-build-race" % prop, log[-2000:], found_input=False)
        else:
            cases_r, err = harness_cases(chk, exe_r, race=True)
            if cases_r is None:
                key = "race" if "DATA RACE" in (err or "") else None
                chk.add_violation("tie:%s/harness-run-race" % prop, err, found_input=False, key=key)
            else:
                b = run_driver(chk, model, cases_r, "race")
                if b:
                    vlib.digest_batch(chk, b[0], own(b[1], prop), classify, state)
                    chk.coverage["race_build_runs"] = len(b[0])

    def more(st):
        for k in range(1, 4):
            tmp = os.path.join(chk.work, "more%d.cases" % k)
            rc, out = vlib.sh("%s explore -seed %d -ms 40000 -perfam 300 -nrand 800 -out %s" % (exe, chk.seed * 1000 + k, tmp),
                              cwd=vlib.ROOT, timeout=200, env=vlib.GOENV)
            if rc == 0:
                bb = run_driver(chk, model, tmp, "more%d" % k)
                if bb:
                    vlib.digest_batch(chk, bb[0], own(bb[1], prop), classify, st)
            if any(kk is None for (kk, _, _) in st.get("specfail", [])):
                break

    vlib.conclude_differential(chk, state, more)
    chk.coverage["samples"] = samples


def run(chk):
    run_common(chk, "C12", ["C13"])


def replay_common(chk, prop, path):
    r = json.load(open(path))
    case = r.get("case")
    if isinstance(case, dict):
        ex = case.get("examples") or []
        case = ex[0]["case"] if ex else None
    if (case or "").startswith("(ident"):
        ok, log = vlib.build_model("C12")
        ok2, log2, exe = vlib.build_harness("c12")
        if not (ok and ok2):
            chk.add_violation("tie:%s/harness-build" % prop, (log + log2)[-2000:], found_input=False)
            return
        model = os.path.join(vlib.BIN, "model_c12")
        chk.log("replay: trigger-identity stream, seed %s" % r.get("seed", chk.seed))
        state = {}
        b = vlib.run_batch(chk, "%s ident -seed %d -out {out}" % (exe, int(r.get("seed", chk.seed))), model, "replay")
        if b:
            for (ln, st, d) in own(b[1], prop):
                if st != "ok":
                    chk.log("replay verdict: %s %s" % (st, d[:300]))
            vlib.digest_batch(chk, b[0], own(b[1], prop), classify, state)
        vlib.conclude_differential(chk, state, None)
        chk.coverage["rule"] = RULE
        chk.coverage["samples"] = [c[:600] for c in (b[0][:2] if b else [])]
        return
    m = re.match(r'\(run \(scn (-?\d+) (\d+) (\d+)\) \(choices "([^"]*)"\)', case or "")
    if not m:
        chk.log("replay: no schedule in %s" % path)
        chk.add_violation("tie:%s/replay" % prop, "replay file carries no schedule", found_input=False)
        return
    ok, log = vlib.build_model("C12")
    ok2, log2, exe = vlib.build_harness("c12")
    if not (ok and ok2):
        chk.add_violation("tie:%s/harness-build" % prop, (log + log2)[-2000:], found_input=False)
        return
    model = os.path.join(vlib.BIN, "model_c12")
    cmd = '%s replay -scn "%s %s %s" -choices "%s" -out {out}' % (exe, m.group(1), m.group(2), m.group(3), m.group(4))
    chk.log("replay: scenario %s schedule %s" % (m.group(1, 2, 3), m.group(4)))
    state = {}
    b = vlib.run_batch(chk, cmd, model, "replay")
    if b:
        for (ln, st, d) in own(b[1], prop):
            chk.log("replay verdict: %s %s" % (st, d[:300]))
        vlib.digest_batch(chk, b[0], own(b[1], prop), classify, state)
    vlib.conclude_differential(chk, state, None)
    chk.coverage["rule"] = RULE
    chk.coverage["samples"] = [c[:600] for c in (b[0] if b else [])]


def replay(chk, path):
    replay_common(chk, "C12", path)
