"""C08, schedule half (end to end on the federation lab): completion orders of concurrently running
subgraph requests are enumerated with gates on the real planner + real ExecutionEngine; see
harness/cmd/c08e/main.go for the clauses and coq/C08/PropertiesSchedule.v for the theorems.
run_part(chk) is called at the end of props.c08.run()."""
import collections
import json
import os
import re
import time

import vlib

RULE = (" || schedule part: fedlab cases (seed, index) with all knobs (KnobsFor tiers), each under the engine option sets "
        "(MultiFetch, ScheduleFetches) = (off,off), (on,on) [thorough: all four]; a case is CHECKED when its real plan has two or more "
        "concurrently runnable fetches and two or more requests; every subgraph response is then held and released one at a time, "
        "completion orders enumerated depth-first over the decisions (quick: up to 24, plus 8 seeded random orders when the tree "
        "of decisions is not exhausted; thorough: 720 / 200). An evaluation is one gated run (one completion order) of one "
        "(case, option set); a checked case is non-trivial when at least two distinct completion orders were run. "
        "Fault mixes (after seeded C08-m6): every checked case is run again on a second engine built under a GENERATED resolver "
        "option set (presets default / apollo = value completion in extensions + suppress fetch errors / apollo-propagate / "
        "apollo-vc / apollo-suppress / wrapped / passthrough / router-http / validate-external / custom-ext / custom-ext-last "
        "(forwarded subgraph extensions) / random bits; one per "
        "(seed, configuration, engine option set)) with 2-3 of the requests that are in flight at the same time answered by "
        "drawn fault kinds (errors without data, {} and {\"data\":null} = neither data nor errors, errors with partial data, a "
        "dropped / nulled member, null / missing entity, transport error, status 500, extra extensions member); the faulted responses are released in "
        "EVERY relative order (merge order = release order: 0.4 ms pause after a release) plus seeded random orders (quick: one, for the no-data mix) and the "
        "WHOLE response (top-level members and their order, data and extensions byte for byte, errors as a multiset) and the "
        "request multiset must be the same in all of them; the fault-free gated runs compare the whole response too.")

CLAUSES = ["response_order_independent", "response_order_independent/whole", "response_order_independent/faults",
           "request_set_order_independent", "request_set_order_independent/faults", "issued_after_dependencies",
           "tree_respected_at_runtime", "exactly_once", "deps_cover_reads", "writes_compatible"]


EXT_KEY = "extension-forwarding-order"


def classify(clause, detail):
    """known-finding key of a violation of the schedule part.  Only one is recorded: under the resolver presets that
    forward subgraph extensions (custom-ext, custom-ext-last) first_write / last_write follow the merge order.  The
    harness marks exactly that shape -- the responses differ ONLY in the value of forwarded extension keys that two
    fetches in flight together returned; everything else (e.g. another key order) stays a violation."""
    if clause == "response_order_independent/faults" and "resolver options custom-ext" in detail \
            and "[forwarded-extension-value-conflict keys=" in detail:
        return EXT_KEY
    return None


def schedule_properties():
    """compile coq/C08/PropertiesSchedule.v and scrape Print Assumptions (as vlib.coq_properties does for Properties.v)"""
    pv = os.path.join(vlib.COQ, "C08", "PropertiesSchedule.v")
    res = {"theorems": [], "assumptions": {}, "ok": False, "log": "", "closed": []}
    if not os.path.exists(pv):
        res["log"] = "no PropertiesSchedule.v"
        return res
    src = open(pv).read()
    res["theorems"] = re.findall(r"^\s*(?:Theorem|Corollary)\s+([A-Za-z0-9_']+)", src, re.M)
    with vlib.Lock("coq"):
        rc, out = vlib.sh("coqc -Q . Gv -w -notation-overridden C08/PropertiesSchedule.v", cwd=vlib.COQ, timeout=900)
    res["log"], res["ok"] = out, rc == 0
    if rc != 0:
        return res
    printed = re.findall(r"Print Assumptions\s+([A-Za-z0-9_']+)", src)
    chunks = [c for c in re.split(r"(?=Closed under the global context|Axioms:)", out)
              if c.startswith("Closed under") or c.startswith("Axioms:")]
    for name, chunk in zip(printed, chunks):
        res["assumptions"][name] = chunk.strip()
        if chunk.startswith("Closed under"):
            res["closed"].append(name)
        else:
            axs = re.findall(r"^([A-Za-z0-9_.']+)\s*:", chunk, re.M)
            if all(any(a.endswith(x) for x in vlib.ALLOWED_AXIOMS) for a in axs):
                res["closed"].append(name)
    return res


def _proof_part(chk, part):
    pr = schedule_properties()
    n = len(pr["theorems"])
    done = len([t for t in pr["theorems"] if t in pr["closed"]]) if pr["ok"] else 0
    chk.coverage["obligations"] = chk.coverage.get("obligations", 0) + n
    chk.coverage["discharged"] = chk.coverage.get("discharged", 0) + done
    chk.coverage["theorems"] = list(chk.coverage.get("theorems", [])) + pr["theorems"]
    pa = dict(chk.coverage.get("print_assumptions", {}))
    pa.update(pr["assumptions"])
    chk.coverage["print_assumptions"] = pa
    chk.coverage["checker_cmd"] = (chk.coverage.get("checker_cmd", "") + " && coqc -Q . Gv C08/PropertiesSchedule.v").strip(" &")
    part["theorems"] = pr["theorems"]
    part["discharged"] = done
    bad = vlib.grep_forbidden(["C09"])
    bad = [b for b in bad if b.startswith("C09/ProofsCommute.v") or b.startswith("C09/ProofsSchedule.v")]
    if not pr["ok"] or done != n or n == 0 or bad:
        chk.proof_broken = "C08/PropertiesSchedule.v"
        chk.add_violation("proof:C08/PropertiesSchedule.v", (pr["log"][-1500:] + "\n".join(bad)) or "theorems not closed", found_input=False)
        return False
    return True


def _run_harness(chk, exe, args, tag, timeout):
    out = os.path.join(chk.work, "c08e_%s.jsonl" % tag)
    trees = os.path.join(chk.work, "c08e_%s.trees" % tag)
    res = os.path.join(chk.work, "c08e_%s.res" % tag)
    for p in (out, trees, res):
        if os.path.exists(p):
            os.remove(p)
    cmd = "%s %s -out %s -trees %s" % (exe, args, out, trees)
    rc, log = vlib.sh(cmd, cwd=vlib.ROOT, timeout=timeout, env=vlib.GOENV)
    if rc != 0 or not os.path.exists(out):
        chk.add_violation("tie:C08e/harness-run", "harness failed rc=%s: %s" % (rc, log[-1500:]), case={"cmd": cmd},
                          found_input=(rc != 124))
        return None
    outcomes = [json.loads(l) for l in vlib.read_lines(out) if l.strip()]
    tree_lines, tree_res = [], []
    if os.path.exists(trees) and os.path.getsize(trees) > 0:
        model = os.path.join(vlib.BIN, "model_c08")
        rc, log = vlib.sh("%s %s %s" % (model, trees, res), cwd=vlib.ROOT, timeout=timeout)
        if rc != 0 or not os.path.exists(res):
            chk.add_violation("tie:C08e/model-run", "bin/model_c08 failed on the dumped real plans rc=%s: %s" % (rc, log[-1000:]),
                              case={"cmd": cmd}, found_input=False)
        else:
            tree_lines, tree_res = vlib.read_lines(trees), vlib.read_results(res)
    return outcomes, tree_lines, tree_res


def _fold(chk, part, outcomes, tree_lines, tree_res):
    st = part["totals"]
    for o in outcomes:
        st["status"][o["status"]] += 1
        st["by_option_set"][o["opt"] + ":" + o["status"]] += 1
        if o["status"] in ("laberror",):
            part["lab_errors"].append({"id": [o["seed"], o["index"]], "detail": o.get("detail", "")})
        if o["status"] == "checked":
            st["orders"] += o["orders"]
            st["runs"] += o["runs"]
            st["diverged"] += o["diverged"]
            st["exhaustive" if o["exhaustive"] else "sampled"] += 1
            if o["orders"] >= 2:
                st["nontrivial"] += 1
            st["requests"][str(o["nreq"])] += 1
            st["max_parallel_in_plan"][str(o["maxpar"])] += 1
            st["max_held_at_once"][str(o["maxheld"])] += 1
            if re.search(r"\(P [^()]*\(Q|\(P \(Q", o.get("tree", "")):
                st["sequence_inside_parallel"] += 1
            if "mf=t" in o["opt"] and re.search(r"\(S \d+ \([\d ]*\)\)", o.get("tree", "")) and "merged" in json.dumps(o):
                pass
            for k, v in o.get("stats", {}).items():
                st["clause_evaluations"][k] += v
            if len(part["samples"]) < 3 and o["orders"] >= 4:
                part["samples"].append({"id": [o["seed"], o["index"]], "opt": o["opt"], "tree": o["tree"], "requests": o["nreq"],
                                        "orders": o["orders"], "exhaustive": o["exhaustive"], "op": o.get("op", "")[:300]})
        for v in o.get("violations", []):
            clause = v.split(" ", 1)[0]
            key = classify(clause, v)
            case = {k: o.get(k) for k in ("seed", "index", "knobs", "opt", "tree", "raw", "op", "faults", "rerun")}
            chk.add_violation("spec:C08e/" + clause, v, case=case, key=key)
            st["violations"][clause] += 1
    # the extracted structural checkers on the real planner's trees
    for (ln, status, detail) in tree_res:
        line = tree_lines[ln - 1] if 0 < ln <= len(tree_lines) else ""
        if status == "ok":
            st["real_plans_checked_by_extracted_checkers"] += 1
            if detail.startswith("nt"):
                st["real_plans_with_fork_and_join"] += 1
        elif status == "specfail":
            chk.add_violation("spec:C08e/structural/" + detail.split(" ", 1)[0], "on a plan the real planner produced: " + detail[:600],
                              case={"line": line[:2000]})
            st["violations"]["structural:" + detail.split(" ", 1)[0]] += 1
        elif status == "mismatch":
            st["real_plan_tree_differs_from_model"] += 1
            if len(part["model_tree_mismatch_examples"]) < 3:
                part["model_tree_mismatch_examples"].append(detail[:500])
        else:
            st["driver_errors"] += 1
            if st["driver_errors"] == 1:
                chk.add_violation("tie:C08e/driver-error", "ocaml/c08/driver.ml does not read the real-plan lines of harness/cmd/c08e "
                                  "(format drift?): " + detail[:300], case={"line": line[:1000]}, found_input=False)


def _plain(d):
    if isinstance(d, dict):
        return {k: _plain(v) for k, v in sorted(d.items())}
    return d


def run_part(chk):
    t0 = time.time()
    part = {"totals": {"status": collections.Counter(), "by_option_set": collections.Counter(), "orders": 0, "runs": 0, "diverged": 0,
                       "exhaustive": 0, "sampled": 0, "nontrivial": 0, "requests": collections.Counter(),
                       "max_parallel_in_plan": collections.Counter(), "max_held_at_once": collections.Counter(),
                       "sequence_inside_parallel": 0, "clause_evaluations": collections.Counter(),
                       "violations": collections.Counter(), "real_plans_checked_by_extracted_checkers": 0,
                       "real_plans_with_fork_and_join": 0, "real_plan_tree_differs_from_model": 0, "driver_errors": 0},
            "samples": [], "lab_errors": [], "model_tree_mismatch_examples": [], "clauses": CLAUSES}
    chk.coverage["schedule_part"] = part
    chk.coverage["rule"] = chk.coverage.get("rule", "") + RULE
    chk.assumptions += [
        "schedule part: harness/fedlab (generator, semantic subgraphs answered by bin/model_exec, the RoundTripper hook), harness/e2e "
        "(gates: a response is held on a channel and released by a controller; 'the gateway has gone quiet' is decided by a settle "
        "time of 1.5 ms without arrivals, so an enumeration reported as exhaustive is exhaustive up to that heuristic) and "
        "harness/cmd/c08e (clause evaluation in Go, not extracted)",
        "schedule part: the dumped plan is built by harness/e2e.Planner with the same calls as execution_engine.go getCachedPlan "
        "(plan.NewPlanner(conf).Plan, postprocess.NewProcessor(opts).Process) over a planner configuration rebuilt from the lab's "
        "Config; it is tied to the engine's own plan only through tree_respected_at_runtime and planning determinism (C09)",
        "schedule part: requests are matched to fetches by (subgraph, query text); fetches with the same text are ambiguous and "
        "checked existentially; two identical concurrent requests may be merged by subgraph single flight (C11), so request "
        "multisets are compared up to multiplicity of identical requests",
        "schedule part: coq/C08/ProofsSchedule.v models data as a finite map position -> value with overwriting merge, a request as "
        "the values read at the fetch's static read positions, a response as a function of (fetch, request); the hypotheses "
        "deps_cover_reads_b / writes_compatible_b are evaluated on (real plan, fault-free request log) by harness/cmd/c08e with "
        "read positions = the members of the representations sent and write positions = the members of the entities returned, "
        "a hand transcription of the Coq definitions; C09/ProofsCommute.v and C09/ProofsSchedule.v are used",
    ]
    ok = _proof_part(chk, part)
    if not ok:
        chk.log("schedule part: proof side broken")
    ok, log, exe = vlib.build_harness("c08e")
    if not ok:
        chk.add_violation("tie:C08e/harness-build", log[-2000:], found_input=False)
        return
    okm, logm = vlib.build_model("C08")
    if not okm:
        chk.add_violation("tie:C08e/model-build", logm[-2000:], found_input=False)
    corpus = os.path.join(vlib.ROOT, "corpus", "C08e", "cases.tsv")
    if os.path.exists(corpus):
        r = _run_harness(chk, exe, "corpus -in %s -tier %s" % (corpus, chk.tier), "corpus", 1200)
        if r:
            _fold(chk, part, *r)
    n = 200 if chk.tier == "quick" else 1500
    r = _run_harness(chk, exe, "gen -seed %d -n %d -knobs all -tier %s" % (chk.seed, n, chk.tier), "gen", 3 * 3600)
    if r:
        _fold(chk, part, *r)
    tot = part["totals"]
    if tot["violations"] and chk.tier == "quick" and not any(v.get("key") for v in chk.violations):
        pass
    part["wall_s"] = round(time.time() - t0, 1)
    chk.coverage["evaluations"] = chk.coverage.get("evaluations", 0) + tot["orders"]
    chk.coverage["distinct_nontrivial"] = chk.coverage.get("distinct_nontrivial", 0) + tot["nontrivial"]
    d = chk.coverage.get("distribution")
    if isinstance(d, dict):
        d["schedule_part"] = {"checked_cases": tot["status"].get("checked", 0), "completion_orders": tot["orders"],
                              "requests_per_case": dict(tot["requests"]), "max_held_at_once": dict(tot["max_held_at_once"])}
    for k in list(tot.keys()):
        if isinstance(tot[k], collections.Counter):
            tot[k] = dict(sorted(tot[k].items()))
    chk.log("schedule part: %d checked cases, %d completion orders (%d exhaustive, %d sampled), %d real plans through the extracted "
            "checkers, violations=%s, %.1fs" % (tot["status"].get("checked", 0), tot["orders"], tot["exhaustive"], tot["sampled"],
                                                tot["real_plans_checked_by_extracted_checkers"], tot["violations"], part["wall_s"]))
