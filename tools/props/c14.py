"""C14: denied fields never reach the client and denied mutations never reach a subgraph -- see DESIGN.md.

Two parts, one check, one evidence file:
 * renderer part (post-fetch decisions; a denied field is null, reported at its path, null-propagates):
   the C02 model carries the decision function -- c02.run(prop="C14", auth=True), unchanged;
 * planner / loader part on the federation lab (harness/cmd/c14 + harness/c14lab, coq/C14, ocaml/c14):
   coordinate collector, pre-fetch seeding, fetch gate, coordinate per mode, both authorizer modes."""
import json
import os
import re

import vlib
from props import c02

RULE_FED = ("fedlab part: (a) two hand-written federations -- an interface whose implementers are entities extended by two other "
            "subgraphs with a @requires field, a shareable field and a second key (27 operations x 12 protected sets), and a "
            "federation with mutation root fields in two subgraphs, and a federation whose protected fields sit below LISTS OF LISTS "
            "([[Cell]], [[[Cell!]!]!], [[Shape]] with an interface item, [[Tag]] inside an entity-fetched subtree; 16 operations x 5 "
            "protected sets) (mutation federation: 16 operations x 8 protected sets: protected / denied mutation root fields, two and three root fields executed serially, a root field returning an entity with nested query-typed entity fetches that carry two or three protected root fields); the interface federation also "
            "has object- and list-valued interface fields (one covariant) selected bare and under `... on T`, and three @defer "
            "operations (for those only sentinel_absent over all flushed frames, fetch_gate on the request log and "
            "collector_complete on the questions asked are evaluated) -- and (b) generated "
            "federations (gvh/fedlab, all knobs; universes re-written so that every stored String/ID leaf is a unique "
            "sentinel) with 5 generated operations each and two protected sets per configuration drawn from the coordinates "
            "the operations reach (plan-time and runtime types, plus up to two unreached ones; closed across interfaces "
            "except for the second set of every third configuration). For every operation the decision functions range over "
            "all coordinates an authorizer can be asked about for it (response positions and the collector's list, which "
            "includes planner-added @key/@requires inputs): all 2^n when n <= 6, else 200 (thorough tier; 64 in the quick tier) random ones "
            "incl. allow-all and deny-all; each runs through ExecutionEngine.Execute with engine.WithAuthorizer (post-fetch) "
            "and with engine.WithPreFetchFieldAuthorizer (pre-fetch). The loader's OTHER pre-fetch hooks are a generated dimension of "
            "the runs (`(hooks ..)`): rate limiting (RateLimitOptions.Enable + a RateLimiter that lets every request pass / rejects "
            "every request; put on the request's resolve.Context by the authorizer when the engine first hands the context out) and "
            "request tracing; hand-written federations: every run with a denial also under an allowing limiter and one of (rejecting "
            "limiter | tracing | both), generated ones: one hook set per run (5/10 none, 2/10 allowing limiter, 1/10 each limiter + "
            "tracing, tracing, rejecting limiter); an allowing limiter and tracing must be transparent for every clause, under a "
            "rejecting limiter nothing that carries a FetchInfo may be sent. In every fourth generated configuration up to three "
            "list-valued fields are turned into lists of lists (type and stored values). Operations whose un-authorized run already differs "
            "from the monolith are skipped (C01 territory). A run is non-trivial when at least one denied position holds a "
            "non-null value in the un-authorized response; an operation line is non-trivial when the plan carries a protected "
            "coordinate. Distinct by hash of the line.")

# narrow keys of the recorded findings of the fedlab part: (key, regex on the failed clause + detail).
# Two earlier findings are REPAIRED in /repo (work/c14_fix_*.patch) and deliberately have no mapping any more, so
# that a regression shows as a VIOLATION; their reproductions stay in the corpus (fixture stream) as passing cases:
#   gate-entity-fetch-below-fragment-has-no-root-fields  (clause fetch_gate/no-rootfields)  plan/path_builder_visitor.go fieldIsChildNode
#   merged-field-keeps-rule-of-unconditioned-occurrence  (clauses */merged)                 postprocess/merge_fields.go
KNOWN = [
    ("deferred-fetch-never-gated", r"^fetch_gate/deferred "),
    ("prefetch-gate-starves-fetch-depending-on-denied-input",
     r"^(requires_input_intact |(allowed_untouched|propagates_like_null)/input-fetch-held-back\[)"),
]

KNOWN_TEXT = {
    "deferred-fetch-never-gated":
        "resolve.go resolveDeferSingle creates the loader of every deferred group with a nil FieldAuthorization "
        "(NewLoader(..., dc.db, nil)); isFetchAuthorizedFromCache returns true when l.authorization == nil, so in pre-fetch mode a "
        "deferred fetch is sent even when all of its root fields are denied: `{ me { email ... @defer { secret title } } }` with "
        "User.secret and User.title denied still sends `_entities{... on User{__typename secret title}}` to home, while the same "
        "selection without @defer is held back. The deferred payload is nulled and reported by the renderer; only request-not-sent "
        "is lost (proposed fix: carry the request's FieldAuthorization in deferContext, work/c14_proposed_fix_deferred-fetch-never-gated.patch).",
    "prefetch-gate-starves-fetch-depending-on-denied-input":
        "pre-fetch mode authorizes (and gates on) root fields the planner added itself: a protected @requires input or @key field "
        "that the client did not select is put before the batch authorizer, and when it is denied the fetch that only provides it "
        "is skipped. The dependent fetch then runs with a fabricated input -- `{ featured { ship } }` with Product.price denied sends "
        "users `_entities(representations:[{__typename:Product, price:null, id:p2}])` and the client gets ship:null with NO error "
        "(a real subgraph would compute ship from price=null) -- or, for a key, is not sent at all and an allowed non-null field "
        "fails (`Cannot return null for non-nullable field`). Post-fetch mode resolves the same allowed fields normally.",
}


def classify(case, detail):
    for key, pat in KNOWN:
        if re.search(pat, detail):
            return key
    return None


def _distribution(cases, results):
    d = {"operation_lines": 0, "run_lines": 0, "skipped_baseline_diverges": 0, "modes": {}, "optypes": {},
         "runs_with_denied_position": 0, "runs_with_effective_denial": 0, "runs_protected_abstract_parent": 0,
         "runs_protected_two_paths": 0, "runs_reference_skipped_mixed": 0, "runs_with_requires_dependents": 0,
         "runs_with_held_back_input_fetch": 0, "requests_sent": 0, "requests_saved_vs_baseline": 0,
         "planned_fetches_held_back": 0, "gate_verdicts_compared": 0, "plans_with_protected_coordinate": 0,
         "decision_domain_sizes": {}, "denied_positions_per_run": {}}
    for c in cases:
        if c.startswith("(c14 op"):
            d["operation_lines"] += 1
            if "(gocoords)" not in c:
                d["plans_with_protected_coordinate"] += 1
            if "(arr (arr " in c:
                d["plans_with_list_of_lists"] = d.get("plans_with_list_of_lists", 0) + 1
                if re.search(r"\(arr \(arr (?:\(arr )*\(obj[^\n]*?\(info \"[^\"]*\" \"[^\"]*\" t ", c):
                    d["plans_with_rule_below_list_of_lists"] = d.get("plans_with_rule_below_list_of_lists", 0) + 1
            m = re.search(r"\(domain((?: \"[^\"]*\")*)\)", c)
            if m:
                n = str(len(m.group(1).split()))
                d["decision_domain_sizes"][n] = d["decision_domain_sizes"].get(n, 0) + 1
        elif c.startswith("(c14 skip"):
            d["skipped_baseline_diverges"] += 1
        elif c.startswith("(c14 run"):
            d["run_lines"] += 1
            m = re.search(r"\(mode (\w+)\) \(optype (\w+)\)", c)
            if m:
                d["modes"][m.group(1)] = d["modes"].get(m.group(1), 0) + 1
                d["optypes"][m.group(2)] = d["optypes"].get(m.group(2), 0) + 1
            m = re.search(r"\(sum \(positions (\d+)\) \(protected (\d+)\) \(abstract (\d+)\) \(twopath (\d+)\) \(denied (\d+)\) "
                          r"\(effective (\d+)\) \(requests (\d+)\) \(baserequests (\d+)\)", c)
            if m:
                den = int(m.group(5))
                d["denied_positions_per_run"][str(min(den, 9))] = d["denied_positions_per_run"].get(str(min(den, 9)), 0) + 1
                d["runs_with_denied_position"] += den > 0
                d["runs_with_effective_denial"] += int(m.group(6)) > 0
                d["runs_protected_abstract_parent"] += int(m.group(3)) > 0
                d["runs_protected_two_paths"] += int(m.group(4)) > 0
                d["requests_sent"] += int(m.group(7))
                d["requests_saved_vs_baseline"] += max(0, int(m.group(8)) - int(m.group(7)))
            m = re.search(r"\(hooks (\w+) (\w) (\d+)\)", c)
            if m:
                hk = d.setdefault("hooks", {})
                hk[m.group(1)] = hk.get(m.group(1), 0) + 1
                if m.group(2) == "t":
                    d["runs_limiter_on_context"] = d.get("runs_limiter_on_context", 0) + 1
                    d["limiter_consultations"] = d.get("limiter_consultations", 0) + int(m.group(3))
            if "(deferred t)" in c:
                d["runs_deferred"] = d.get("runs_deferred", 0) + 1
            if "(ref (skip))" in c:
                d["runs_reference_skipped_mixed"] += 1
            m = re.search(r"\(dependent (\d+)\)", c)
            if m and int(m.group(1)) > 0:
                d["runs_with_requires_dependents"] += 1
            if re.search(r'\(starving \d', c):
                d["runs_with_held_back_input_fetch"] += 1
            for g in re.finditer(r"\(g \d+ \"[^\"]*\" \w+ \(roots[^)]*(?:\([^)]*\))*\) (\w) (\w) (\w) \(req ", c):
                if g.group(2) == "t":
                    d["gate_verdicts_compared"] += 1
                    if g.group(1) == "f":
                        d["planned_fetches_held_back"] += 1
    for k in ("decision_domain_sizes", "denied_positions_per_run"):
        d[k] = dict(sorted(d[k].items(), key=lambda kv: int(kv[0])))
    return d


def _builds(chk):
    ok, log = vlib.build_model("Exec")
    if not ok:
        chk.add_violation("tie:C14/exec-build", log[-2000:], found_input=False)
        return None
    ok, log = vlib.build_model("C14")
    if not ok:
        chk.add_violation("tie:C14/model-build", log[-2000:], found_input=False)
        return None
    ok, log, exe = vlib.build_harness("c14")
    if not ok:
        chk.add_violation("tie:C14/harness-build", log[-2000:], found_input=False)
        return None
    return exe, os.path.join(vlib.BIN, "model_c14")


def _corpus_cmds(exe):
    """corpus/C14/cases.tsv: one harness invocation per line (run first on every check)."""
    p = os.path.join(vlib.ROOT, "corpus", "C14", "cases.tsv")
    cmds = []
    if os.path.exists(p):
        for line in open(p):
            line = line.strip()
            if line and not line.startswith("#"):
                cmds.append(line.split("\t")[0])
    return cmds or ["fixture"]


def run_fed(chk):
    """The planner / loader part. Returns (state, all_cases)."""
    b = _builds(chk)
    state, allcases, allres = {}, [], []
    if b is None:
        return state, allcases
    exe, model = b
    quick = chk.tier == "quick"
    maxd = 64 if quick else 200
    ncfg = 60 if quick else 1500
    for i, cmd in enumerate(_corpus_cmds(exe)):
        bb = vlib.run_batch(chk, "%s %s -maxd %d -out {out}" % (exe, cmd, maxd), model, "fed_corpus%d" % i, timeout=3000)
        if bb:
            vlib.digest_batch(chk, bb[0], bb[1], classify, state)
            allcases += bb[0]
            allres += bb[1]
    bb = vlib.run_batch(chk, "%s gen -seed %d -n %d -maxd %d -out {out}" % (exe, 7919 * chk.seed + 14, ncfg, maxd), model, "fed_gen",
                        timeout=6000)
    if bb:
        vlib.digest_batch(chk, bb[0], bb[1], classify, state)
        allcases += bb[0]
        allres += bb[1]

    def more(st):
        for k in range(1, 4):
            bx = vlib.run_batch(chk, "%s gen -seed %d -n %d -maxd %d -out {out}" % (exe, chk.seed * 1000 + k, ncfg * 2, maxd), model,
                                "fed_more%d" % k, timeout=6000)
            if bx:
                vlib.digest_batch(chk, bx[0], bx[1], classify, st)
            if any(kk is None for (kk, _, _) in st.get("specfail", [])):
                break

    state["_more"] = more
    return state, allcases


def run(chk):
    # ---- renderer part, as before
    c02.run(chk, prop="C14", auth=True)
    rend = {k: chk.coverage.get(k) for k in ("evaluations", "distinct_nontrivial", "correspondence_mismatches",
                                              "spec_failures_on_impl_output", "distribution", "samples", "rule")}
    chk.assumptions.append("renderer part: post-fetch (AuthorizeObjectField) mode through resolve.Context.SetAuthorizer on generated "
                           "response plans (coq/C02 model with the decision function)")
    # ---- planner / loader part on the federation lab
    state, cases = run_fed(chk)
    more = state.pop("_more", None)
    # conclude_differential reports the five SHORTEST failing cases: keep the shortest unclassified case per clause so
    # that the replays cover the distinct clauses that fail (plan-level AND run-level: the leak itself, the request log)
    full = list(state.get("specfail", []))
    if full:
        best = {}
        for (k, c, dd) in full:
            if k is None:
                name = dd.split(" ")[0]
                if name not in best or len(c) < len(best[name][1]):
                    best[name] = (k, c, dd)
        state["specfail"] = [x for x in full if x[0] is not None] + list(best.values())
    vlib.conclude_differential(chk, state, more)
    if full:
        chk.coverage["spec_failures_on_impl_output"] = max(chk.coverage.get("spec_failures_on_impl_output") or 0, len(full))
    fed = {k: chk.coverage.get(k) for k in ("evaluations", "distinct_nontrivial", "correspondence_mismatches",
                                             "spec_failures_on_impl_output")}
    chk.coverage["parts"] = {"renderer": {k: rend[k] for k in ("evaluations", "distinct_nontrivial", "correspondence_mismatches",
                                                               "spec_failures_on_impl_output")},
                             "fedlab": fed}
    for k in ("evaluations", "distinct_nontrivial", "correspondence_mismatches", "spec_failures_on_impl_output"):
        chk.coverage[k] = (rend[k] or 0) + (fed[k] or 0)
    chk.coverage["rule"] = ("renderer part: as C02, with an authorization rule on ~1/3 of the fields that have a data path and a random "
                            "decision function over (runtime-or-declared parent type, field) coordinates (each denied with probability "
                            "1/3); non-trivial when a mutation was applied and at least one error is reported. " + RULE_FED)
    chk.coverage["distribution"] = {"renderer": rend["distribution"], "fedlab": _distribution(cases, None)}
    runs = [c for c in cases if c.startswith("(c14 run") and "(effective 0)" not in c]
    chk.coverage["samples"] = (rend["samples"] or [])[:2] + [c[:1500] for c in ([c for c in cases if c.startswith("(c14 op")][:1] + runs[:2])]
    chk.coverage["known_finding_texts"] = KNOWN_TEXT
    chk.assumptions += [
        "fedlab part: Coq 8.16.1 kernel; extraction ExtrOcamlBasic only; ocaml/common/prelude.ml + ocaml/c14/driver.ml (S-expression "
        "reader, member sorting before json_eqb, native substring search re-checking the Go sentinel scan)",
        "hand-written model (coq/C14/Model.v) of collect_authorization_coordinates.go, FieldAuthorization.authorizePreFetch/decide/"
        "denyReason, fieldAuthorizationCoordinate/authorizeField up to the decide call, isFetchAuthorizedFromCache/fetchOperationType, "
        "validatePreFetch/rateLimitFetch; "
        "tied by exact equality of the coordinate list on the real plan, of the batch authorizer's recorded questions, and of the "
        "sent / not-sent verdict per planned fetch; the decision cache is keyed by the triple itself (Go: xxhash64 of it -- "
        "collisions are outside the model)",
        "the plan that is dumped is built by harness/c14lab.BuildPlan with the same normalisation, plan.Planner configuration (captured "
        "from the engine configuration) and postprocess.Processor as ExecutionEngine.Execute, not taken from the engine's plan cache; "
        "a planned fetch is matched to a request by subgraph + upstream operation text",
        "gvh/fedlab (generator, Lab, RoundTripper) and bin/model_exec (Coq-extracted reference executor) as in C01; the reference "
        "response under denials is the executor's monolithic run of the operation in which each denied occurrence selects an "
        "always-failing twin field (harness/c14lab/walk.go Reference, protect.go TwinReference) -- the operation rewriting and the "
        "operation+response walker that classifies positions (CollectFields with @skip/@include, fragments) are harness code",
        "pre-fetch mode: the plan-time coordinate of an occurrence on an abstract type is read off the real plan (the planner may "
        "rewrite the abstract selection per possible type); that the planner marks every protected field (HasAuthorizationRule) is "
        "checked by the position walk and the sentinel scan, not proved",
        "hooks dimension: the ExecutionEngine exposes no execution option for a rate limiter, so the harness' recording authorizer "
        "puts it on the request's resolve.Context (SetRateLimiter, RateLimitOptions.Enable) when the engine first hands the context "
        "out -- AuthorizeFields before any fetch (pre-fetch mode; not at all when the plan carries no protected coordinate), "
        "AuthorizePreFetch of the first protected mutation root field (legacy mode); the run line records whether it was installed "
        "and how often it was consulted; limiter errors and per-fetch selective limiters are covered by the theorems only "
        "(validate_pre_fetch is stated for every limiter function); loader hooks (LoaderHooks.OnLoad) are not reachable through the engine",
        "list-of-lists coverage: entity fetches whose parents sit below a list of lists are exercised since repair 3202cc0; the "
        "hand-written `grid` federation is StrictBaseline (clause baseline_agrees: its un-authorized gateway answer must equal the "
        "monolith -- a C01 statement, evaluated here as the regression guard of that repair)",
        "out of the lab's reach: subscriptions (authorizeSubscriptionPreFetch and per-update authorization); @defer only on three "
        "hand-written operations (frames scanned for sentinels, deferred fetches gated; the incremental payloads are not merged and "
        "compared position by position); "
        "authorizer errors, reasons/wording of errors; the gate theorem covers subscriptions as a non-query operation type",
    ]


def replay(chk, path):
    r = json.load(open(path))
    case = r.get("case")
    lines = []
    if isinstance(case, str):
        lines = [case]
    elif isinstance(case, dict):
        lines = [e["case"] for e in case.get("examples", []) if isinstance(e.get("case"), str)]
    fed = [l for l in lines if l.startswith("(c14 ")]
    if not fed:
        return c02.replay(chk, path, prop="C14")
    chk.coverage["rule"] = "replay of %s" % path
    chk.proof_side(extra_dirs=["C02"])
    b = _builds(chk)
    if b is None:
        return
    exe, model = b
    state = {}
    for i, l in enumerate(fed[:5]):
        m = re.search(r"\(id (gen|fix) (\S+) (\d+) (\d+)(?: (\d+))?\)", l)
        if not m:
            chk.log("replay: no case identity in %s" % l[:120])
            continue
        flt = ""
        mm = re.search(r'\(mode (\w+)\) \(optype \w+\) \(d "([^"]*)"\)(?: \(hooks (\w+) )?', l)
        if mm:
            flt = " -mode %s -d %s -hooks %s" % (mm.group(1), mm.group(2) or "-", mm.group(3) or "none")
        if m.group(1) == "gen":
            cmd = "%s gen -seed %s -from %s -n 1 -p %s -op %s%s -out {out}" % (exe, m.group(2), m.group(3), m.group(4), m.group(5), flt)
        else:
            cmd = "%s fixture -name %s -p %s -op %s%s -out {out}" % (exe, m.group(2), m.group(3), m.group(4), flt)
        bb = vlib.run_batch(chk, cmd, model, "replay%d" % i)
        if bb:
            vlib.digest_batch(chk, bb[0], bb[1], classify, state)
            for (ln, st, detail) in bb[1]:
                chk.log("replay line %d: %s %s" % (ln, st, detail[:300]))
            chk.coverage["samples"] = [c[:1500] for c in bb[0][:2]]
    vlib.conclude_differential(chk, state, None)
    chk.coverage["distinct_nontrivial"] = max(2, chk.coverage.get("distinct_nontrivial", 0))
