"""C14: denied fields never reach the client (renderer part: post-fetch decisions) -- see DESIGN.md.
Shares the C02 model (which carries the decision function) and harness (with -auth 1)."""
import vlib
from props import c02


def run(chk):
    c02.run(chk, prop="C14", auth=True)
    chk.coverage["rule"] = ("as C02, with an authorization rule on ~1/3 of the fields that have a data path and a random "
                            "decision function over (runtime-or-declared parent type, field) coordinates (each denied with "
                            "probability 1/3); non-trivial when a mutation was applied and at least one error is reported")
    chk.assumptions.append("post-fetch (AuthorizeObjectField) mode through resolve.Context.SetAuthorizer; the pre-fetch batch mode, "
                           "the coordinate collector and the fetch gate are exercised on the federation lab (pending)")


def replay(chk, path):
    c02.replay(chk, path, prop="C14")
