"""C02: rendered response is well-formed and type-safe whatever subgraphs return -- see DESIGN.md."""
import glob
import json
import os

import vlib

RULE = ("random response-plan trees (depth <= 5; objects concrete/abstract with PossibleTypes, OnTypeNames and "
        "ParentOnTypeNames conditions, nested lists, all scalar kinds, enums with inaccessible values, static nodes, "
        "unresolvable objects) and 1-4 payloads per tree derived from the tree (well-typed by construction) and then "
        "mutated 0-5 times (null, deleted key, wrong scalar kind, wrong/missing/inaccessible __typename, invalid or "
        "inaccessible enum value, array<->object, null list item, __skipErrors, duplicate key). A second stream gives "
        "every node a data path of length 0..3 (field path mappings such as [data,user]; empty path = the enclosing "
        "object itself, i.e. flattened objects; list items read below a key; siblings sharing a proper prefix; a segment "
        "equal to a sibling's key) with the payload nested accordingly, with and without authorization rules. A third stream "
        "(typeshapes) gives objects every (TypeName, PossibleTypes) shape -- none, {own}, {own + others} (entity interface), "
        "{others}, {one other} --, selects __typename as String{IsTypeName:true} on 3/5 of the objects (so also on list items "
        "and below nullable / non-null parents) and, in 3/4 of the payloads, rewrites \"__typename\" at one data object to "
        "missing / null / valid / unknown / inaccessible / empty string / number / boolean / object / array. Distinct by "
        "hash of the case line; non-trivial when at least one mutation was applied and the completion semantics reports an error.")

# Findings on plans outside plan_wf (the driver tags the violated clause); each has a corpus file
# corpus/C02/known-<key>.case and, for the first, a generated stream.  They run only once the finding is recorded.
KEY_OVERLAP = "overlapping-sibling-paths"
KEY_DENIED_EMPTY = "denied-empty-path-panic"


def classify(case, detail):
    if "[outside plan_wf: sibling data paths overlap]" in detail:
        return KEY_OVERLAP
    if "[outside plan_wf: authorization rule on a field without a data key]" in detail and detail.startswith("no_panic"):
        return KEY_DENIED_EMPTY
    return None


def corpus_files(chk):
    """corpus/C02/*.case: minimised regression cases, replayed first. known-<key>.case only when <key> is recorded."""
    out = []
    for f in sorted(glob.glob(os.path.join(vlib.ROOT, "corpus", "C02", "*.case"))):
        b = os.path.basename(f)
        if b.startswith("known-"):
            key = b[len("known-"):-len(".case")]
            if chk.match_known(key) is None:
                chk.log("corpus %s not run: finding %s is not recorded in KNOWN_FINDINGS.txt" % (b, key))
                continue
        out.append(f)
    return out


def run(chk, prop="C02", auth=False):
    n = 4000 if chk.tier == "quick" else 300000
    chk.coverage["rule"] = RULE
    chk.assumptions += [
        "Coq 8.16.1 kernel; extraction ExtrOcamlBasic only; ocaml/common/prelude.ml + ocaml/c02/driver.ml",
        "hand-written model of resolvable.go (default ResolvableOptions, non-defer mode) tied by byte-exact correspondence of the data member and (kind,path) of every error",
        "astjson (Get/SetNull/SetArrayItem/MarshalTo/Parse) is modelled on JSON trees, not verified; error message wording is not modelled",
        "node paths: any key sequence (get_path / set_path navigate exactly like Value.Get / astjson.SetValue on objects); a path segment that is a decimal number would index an array in astjson -- never generated, not modelled; an empty path is built as a nil slice (what the planner emits for list items), a non-nil empty slice is not distinguished",
        "plan_wf (hypothesis of the refinement theorem): within one object value the data paths read by its fields, looking through flattened (empty-path) objects, are pairwise prefix-incomparable; authorization rules sit on fields with a non-empty path not starting with __typename; objects/lists are not read through the key __typename. Plans violating exactly one of the two path clauses are still held to no-panic / valid JSON / envelope / type-safety (findings overlapping-sibling-paths, denied-empty-path-panic)",
        "Object.PossibleTypes (a Go map) is the duplicate-free list of its keys in the model (is_abstract_exact: length = len(map), In = lookup); resolve.String{IsTypeName:true} is the model node NStr -- with no type renames configured walkString differs from a plain String only in calling printNode instead of renderScalarFieldValue, which print the same bytes under default options (tied byte for byte by the typeshapes stream)",
        "Apollo-compatibility options, custom field renderers, UnescapeResponseJson, type-name renaming, cost control and extensions are outside the model",
        "go harness: harness/plan (generator, plan builder), harness/cmd/c02; Go's encoding/json.Valid is the validity oracle for the output text",
    ]
    chk.proof_side(extra_dirs=([] if prop == "C02" else ["C02"]))
    ok, log = vlib.build_model("C02")
    if not ok:
        chk.add_violation("tie:%s/model-build" % prop, log[-2000:], found_input=False)
        return
    ok, log, exe = vlib.build_harness("c02")
    if not ok:
        chk.add_violation("tie:%s/harness-build" % prop, log[-2000:], found_input=False)
        return
    model = os.path.join(vlib.BIN, "model_c02")
    state = {}
    samples = []
    authf = " -auth 1" if auth else ""
    for f in corpus_files(chk):
        b = vlib.run_batch(chk, "%s replay -in %s -out {out}" % (exe, f), model, "corpus-" + os.path.basename(f)[:-5])
        if b:
            vlib.digest_batch(chk, b[0], b[1], classify, state)
    # fixed seeds that reproduced the three repaired defects (nested list panic, [,] output, doubled path)
    for tag, seed, cnt in (("corpus", 1, 3000),):
        b = vlib.run_batch(chk, "%s gen -seed %d -n %d%s -out {out}" % (exe, seed, cnt, authf), model, tag)
        if b:
            vlib.digest_batch(chk, b[0], b[1], classify, state)
    b = vlib.run_batch(chk, "%s gen -seed %d -n %d%s -out {out}" % (exe, 7919 * chk.seed + 13, n, authf), model, "gen")
    if b:
        vlib.digest_batch(chk, b[0], b[1], classify, state)
        samples += [c[:1500] for c in b[0][:3]]
        muts = {}
        for c in b[0]:
            m = c.rsplit('(mut "', 1)[-1].rstrip('")')
            for lab in (m.split(",") if m else ["(well-typed)"]):
                muts[lab] = muts.get(lab, 0) + 1
        chk.coverage["distribution"] = {
            "mutations": muts,
            "with_errors": sum(1 for c in b[0] if "(errs (e" in c),
            "data_null": sum(1 for c in b[0] if '(data "null")' in c),
            "avg_case_bytes": sum(len(c) for c in b[0]) // max(1, len(b[0])),
        }
    # data paths of length 0..3 on every node: without and with authorization rules (the model and the theorems
    # are parametric in the decision function), then -- recorded finding -- overlapping sibling paths
    npaths = 3000 if chk.tier == "quick" else 150000
    streams = [("paths", "", 104729 * chk.seed + 7, npaths if not auth else npaths // 2),
               ("paths-auth", " -auth 1", 104729 * chk.seed + 11, npaths // 2)]
    if auth:
        streams = streams[1:]
    if chk.match_known(KEY_OVERLAP) is not None:
        streams.append(("paths-overlap", " -overlap 1" + authf, 104729 * chk.seed + 13, npaths // 2))
    pstats = {}
    for tag, flags, seed, cnt in streams:
        stf = os.path.join(chk.work, tag + ".stats.json")
        b = vlib.run_batch(chk, "%s gen -seed %d -n %d -paths 1%s -stats %s -out {out}" % (exe, seed, cnt, flags, stf), model, tag)
        if b:
            vlib.digest_batch(chk, b[0], b[1], classify, state)
            if tag == "paths":
                samples += [c[:1500] for c in b[0][:2]]
            try:
                st = json.load(open(stf))
                st["cases"] = len(b[0])
                st["with_errors"] = sum(1 for c in b[0] if "(errs (e" in c)
                pstats[tag] = st
            except (OSError, ValueError):
                pass
    if pstats:
        chk.coverage.setdefault("distribution", {})["path_streams"] = pstats
    # abstract-type guard and __typename leaves (harness/plan/typeshapes.go): every (TypeName, PossibleTypes) shape
    # -- none, {own}, {own + others} (entity interface), {others}, {one other} -- crossed with "__typename" in the
    # data missing / null / valid / unknown / inaccessible string / number / boolean / object / array, and
    # `__typename` selected as String{IsTypeName:true}; single-key paths and paths of any length
    if not auth:
        ntn = 2500 if chk.tier == "quick" else 150000
        tstats = {}
        for tag, flags, seed, cnt in (("typeshapes", "", 15485863 * chk.seed + 3, ntn),
                                      ("typeshapes-paths", " -paths 1", 15485863 * chk.seed + 5, ntn // 2)):
            stf = os.path.join(chk.work, tag + ".tstats.json")
            b = vlib.run_batch(chk, "%s gen -seed %d -n %d -tn 1%s -tstats %s -out {out}" % (exe, seed, cnt, flags, stf), model, tag)
            if b:
                vlib.digest_batch(chk, b[0], b[1], classify, state)
                if tag == "typeshapes":
                    samples += [c[:1500] for c in b[0][:2]]
                try:
                    st = json.load(open(stf))
                except (OSError, ValueError):
                    st = {}
                st["cases"] = len(b[0])
                st["with_errors"] = sum(1 for c in b[0] if "(errs (e" in c)
                st["typename_errors"] = sum(1 for c in b[0] if "(e 3 (" in c)
                st["typename_leaf_kind_errors"] = sum(1 for c in b[0] if '(e 4 (' in c and '(n "__typename"))' in c)
                tnm = {}
                for c in b[0]:
                    for lab in c.rsplit('(mut "', 1)[-1].rstrip('")').split(","):
                        if lab.startswith("tn:"):
                            tnm[lab] = tnm.get(lab, 0) + 1
                st["typename_mutations"] = tnm
                tstats[tag] = st
        if tstats:
            chk.coverage.setdefault("distribution", {})["typeshape_streams"] = tstats

    def more(st):
        for k in range(1, 6):
            bb = vlib.run_batch(chk, "%s gen -seed %d -n %d%s -out {out}" % (exe, chk.seed * 1000 + k, n * 3, authf), model, "more%d" % k)
            if bb:
                vlib.digest_batch(chk, bb[0], bb[1], classify, st)
            bb = vlib.run_batch(chk, "%s gen -seed %d -n %d -paths 1%s -out {out}" % (exe, chk.seed * 1000 + 500 + k, n * 3, authf), model, "morep%d" % k)
            if bb:
                vlib.digest_batch(chk, bb[0], bb[1], classify, st)
            if not auth:
                bb = vlib.run_batch(chk, "%s gen -seed %d -n %d -tn 1%s -out {out}" % (exe, chk.seed * 1000 + 800 + k, n * 2, " -paths 1" if k % 2 == 0 else ""), model, "moretn%d" % k)
                if bb:
                    vlib.digest_batch(chk, bb[0], bb[1], classify, st)
            if any(kk is None for (kk, _, _) in st.get("specfail", [])):
                break

    vlib.conclude_differential(chk, state, more)
    chk.coverage["samples"] = samples


def replay(chk, path, prop="C02"):
    """Re-execute exactly the case stored in a replay file on the current implementation and model."""
    r = json.load(open(path))
    case = r.get("case")
    lines = []
    if isinstance(case, str):
        lines = [case]
    elif isinstance(case, dict):
        lines = [e["case"] for e in case.get("examples", []) if isinstance(e.get("case"), str)]
    if not lines:
        chk.log("replay file carries no concrete case; running the normal check instead")
        return run(chk, prop=prop, auth=(prop == "C14"))
    chk.coverage["rule"] = "replay of %s" % path
    ok, log = vlib.build_model("C02")
    ok2, log2, exe = vlib.build_harness("c02")
    if not (ok and ok2):
        chk.add_violation("tie:%s/build" % prop, (log + log2)[-2000:], found_input=False)
        return
    src = os.path.join(chk.work, "replay.in")
    open(src, "w").write("\n".join(lines) + "\n")
    b = vlib.run_batch(chk, "%s replay -in %s -out {out}" % (exe, src), os.path.join(vlib.BIN, "model_c02"), "replay")
    state = {}
    if b:
        vlib.digest_batch(chk, b[0], b[1], classify, state)
        for (ln, st, detail) in b[1]:
            chk.log("replay line %d: %s %s" % (ln, st, detail[:300]))
        chk.coverage["samples"] = [c[:1500] for c in b[0][:2]]
    vlib.conclude_differential(chk, state, None)
    chk.coverage["distinct_nontrivial"] = max(2, chk.coverage.get("distinct_nontrivial", 0))
