"""C02: rendered response is well-formed and type-safe whatever subgraphs return -- see DESIGN.md."""
import os

import vlib

RULE = ("random response-plan trees (depth <= 5; objects concrete/abstract with PossibleTypes, OnTypeNames and "
        "ParentOnTypeNames conditions, nested lists, all scalar kinds, enums with inaccessible values, static nodes, "
        "unresolvable objects) and 1-4 payloads per tree derived from the tree (well-typed by construction) and then "
        "mutated 0-5 times (null, deleted key, wrong scalar kind, wrong/missing/inaccessible __typename, invalid or "
        "inaccessible enum value, array<->object, null list item, __skipErrors, duplicate key). Distinct by hash of the "
        "case line; non-trivial when at least one mutation was applied and the completion semantics reports an error.")


def classify(case, detail):
    return None


def run(chk, prop="C02", auth=False):
    n = 4000 if chk.tier == "quick" else 300000
    chk.coverage["rule"] = RULE
    chk.assumptions += [
        "Coq 8.16.1 kernel; extraction ExtrOcamlBasic only; ocaml/common/prelude.ml + ocaml/c02/driver.ml",
        "hand-written model of resolvable.go (default ResolvableOptions, non-defer mode) tied by byte-exact correspondence of the data member and (kind,path) of every error",
        "astjson (Get/SetNull/SetArrayItem/MarshalTo/Parse) is modelled on JSON trees, not verified; error message wording is not modelled",
        "Apollo-compatibility options, custom field renderers, UnescapeResponseJson, type-name renaming, cost control and extensions are outside the model",
        "go harness: harness/plan (generator, plan builder), harness/cmd/c02; Go's encoding/json.Valid is the validity oracle for the output text",
    ]
    chk.proof_side(extra_dirs=([] if prop == "C02" else ["C02"]))
    ok, log = vlib.build_model("C02")
    if not ok:
        chk.add_violation("tie:%s/model-build" % prop, log[-2000:], found_input=False)
        return
    ok, log, exe = vlib.build_harness("c02")
    if not ok:
        chk.add_violation("tie:%s/harness-build" % prop, log[-2000:], found_input=False)
        return
    model = os.path.join(vlib.BIN, "model_c02")
    state = {}
    samples = []
    authf = " -auth 1" if auth else ""
    # corpus = fixed seeds that reproduced the three repaired defects (nested list panic, [,] output, doubled path)
    for tag, seed, cnt in (("corpus", 1, 3000),):
        b = vlib.run_batch(chk, "%s gen -seed %d -n %d%s -out {out}" % (exe, seed, cnt, authf), model, tag)
        if b:
            vlib.digest_batch(chk, b[0], b[1], classify, state)
    b = vlib.run_batch(chk, "%s gen -seed %d -n %d%s -out {out}" % (exe, 7919 * chk.seed + 13, n, authf), model, "gen")
    if b:
        vlib.digest_batch(chk, b[0], b[1], classify, state)
        samples += [c[:1500] for c in b[0][:3]]
        muts = {}
        for c in b[0]:
            m = c.rsplit('(mut "', 1)[-1].rstrip('")')
            for lab in (m.split(",") if m else ["(well-typed)"]):
                muts[lab] = muts.get(lab, 0) + 1
        chk.coverage["distribution"] = {
            "mutations": muts,
            "with_errors": sum(1 for c in b[0] if "(errs (e" in c),
            "data_null": sum(1 for c in b[0] if '(data "null")' in c),
            "avg_case_bytes": sum(len(c) for c in b[0]) // max(1, len(b[0])),
        }

    def more(st):
        for k in range(1, 6):
            bb = vlib.run_batch(chk, "%s gen -seed %d -n %d%s -out {out}" % (exe, chk.seed * 1000 + k, n * 3, authf), model, "more%d" % k)
            if bb:
                vlib.digest_batch(chk, bb[0], bb[1], classify, st)
            if any(kk is None for (kk, _, _) in st.get("specfail", [])):
                break

    vlib.conclude_differential(chk, state, more)
    chk.coverage["samples"] = samples


def replay(chk, path, prop="C02"):
    """Re-execute exactly the case stored in a replay file on the current implementation and model."""
    import json
    r = json.load(open(path))
    case = r.get("case")
    lines = []
    if isinstance(case, str):
        lines = [case]
    elif isinstance(case, dict):
        lines = [e["case"] for e in case.get("examples", []) if isinstance(e.get("case"), str)]
    if not lines:
        chk.log("replay file carries no concrete case; running the normal check instead")
        return run(chk, prop=prop, auth=(prop == "C14"))
    chk.coverage["rule"] = "replay of %s" % path
    ok, log = vlib.build_model("C02")
    ok2, log2, exe = vlib.build_harness("c02")
    if not (ok and ok2):
        chk.add_violation("tie:%s/build" % prop, (log + log2)[-2000:], found_input=False)
        return
    src = os.path.join(chk.work, "replay.in")
    open(src, "w").write("\n".join(lines) + "\n")
    b = vlib.run_batch(chk, "%s replay -in %s -out {out}" % (exe, src), os.path.join(vlib.BIN, "model_c02"), "replay")
    state = {}
    if b:
        vlib.digest_batch(chk, b[0], b[1], classify, state)
        for (ln, st, detail) in b[1]:
            chk.log("replay line %d: %s %s" % (ln, st, detail[:300]))
        chk.coverage["samples"] = [c[:1500] for c in b[0][:2]]
    vlib.conclude_differential(chk, state, None)
    chk.coverage["distinct_nontrivial"] = max(2, chk.coverage.get("distinct_nontrivial", 0))
