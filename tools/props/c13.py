"""C13: subscription triggers are shared, started once, and always cleaned up.  Shares the LTS
(coq/C12/Model.v), the harness (harness/cmd/c12) and the extracted driver with C12; the theorems are
those of coq/C13/Properties.v and the spec verdicts are the C13 clauses evaluated on the
implementation's log and quiescent registry sizes / counters."""
from props import c12


def run(chk):
    c12.run_common(chk, "C13", ["C12"])


def replay(chk, path):
    c12.replay_common(chk, "C13", path)
