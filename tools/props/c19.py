"""C19: the WebSocket subscription server obeys graphql-ws / graphql-transport-ws on any message
sequence -- see DESIGN.md (### C19) and coq/C19."""
import json
import os
import re

import vlib
from anchors import AnchorError

import props.c19_anchors as c19_anchors

RULE = ("sequences of client messages (connection_init plain/accepted/rejected, subscribe/start with a subscription, "
        "a query, no payload or a payload the executor pool refuses, complete/stop, ping/pong, connection_terminate, "
        "messages of the other protocol, invalid JSON, JSON of the wrong shape, unknown types, missing ids) interleaved "
        "with executor events released by the harness (flush inside Execute, Execute returns nil / data / error), "
        "timer events (init timeout, heartbeat) and the client leaving: ALL sequences over a reduced alphabet up to "
        "depth 5 (quick) / 6 plus a wider alphabet to depth 5 (thorough), seeded random long sequences with a "
        "malformed-heavy third, and fixed timer scripts; both protocols. A case is distinct by the hash of its "
        "recorded line and non-trivial when at least one operation goroutine was started and the server sent a "
        "close frame or a terminal message (error / complete).")

KEYS = ("sub-error-goes-on",)  # stop-unknown-id and emit-after-cancel are repaired (fixed: lines in KNOWN_FINDINGS.txt)


def classify(case, detail):
    """A monitor failure is attributed to a listed finding only when the driver found that the
    monitor accepts the implementation's trace once the steps that are instances of that cause
    (and only those) are taken out; the driver then names the cause."""
    m = re.search(r"cause=(\S+)", detail)
    if m and m.group(1) in KEYS and detail.startswith("trace_accepted/"):
        return m.group(1)
    return None


def _distribution(cases):
    d = {"tws": 0, "gws": 0, "len<=3": 0, "len4-6": 0, "len7-15": 0, "len>15": 0, "closed_by_server": 0,
         "with_malformed": 0, "with_other_protocol_msg": 0, "with_timer_event": 0, "ops_started>=1": 0,
         "ops_started>=2": 0, "with_duplicate_id_close_4409": 0}
    for c in cases:
        proto = c[5:8]
        d[proto] = d.get(proto, 0) + 1
        n = c.count("(outs")
        d["len<=3" if n <= 3 else "len4-6" if n <= 6 else "len7-15" if n <= 15 else "len>15"] += 1
        if "(c 4" in c or "(c 1" in c:
            d["closed_by_server"] += 1
        if "(badjson)" in c or "(wrongshape)" in c or "(unknown)" in c:
            d["with_malformed"] += 1
        if (proto == "tws" and ("((start " in c or "((stop " in c or "((terminate)" in c)) or \
                (proto == "gws" and ("((sub " in c or "((complete " in c or "((ping)" in c or "((pong)" in c)):
            d["with_other_protocol_msg"] += 1
        if "((tick)" in c or "((inittimeout)" in c:
            d["with_timer_event"] += 1
        toks = set(re.findall(r"\(live[^)]*\((\d+) ", c)) | set(re.findall(r"\) \((\d+) \d+ [sq]\)", c))
        if "(live (" in c:
            d["ops_started>=1"] += 1
        if len(toks) >= 2:
            d["ops_started>=2"] += 1
        if "(c 4409)" in c:
            d["with_duplicate_id_close_4409"] += 1
    return d


# ---------------------------------------------------------------- in-Coq cross-check of the extraction
_MT = {"connection_ack": "MAck", "error": "MError", "complete": "MComplete", "pong": "MPong", "next": "MNext",
       "connection_error": "MConnError", "ka": "MKa", "data": "MData"}
_PL = {"s": "PSub", "q": "PQuery", "nopayload": "PNoPayload", "getfail": "PGetFail"}


def _coq_input(i):
    f = i.split()
    k = f[0]
    if k == "init":
        return "CInit " + {"none": "INone", "accept": "IAccept", "reject": "IReject"}[f[1]]
    if k in ("sub", "start"):
        return "%s %s %s" % ("CSubscribe" if k == "sub" else "CStart", f[1], _PL[f[2]])
    if k in ("complete", "stop"):
        return "%s %s" % ("CComplete" if k == "complete" else "CStop", f[1])
    if k == "flush":
        return "EFlush " + f[1]
    if k == "ret":
        return "ERet %s %s %s" % (f[1], {"ok": "ROk", "data": "RData", "err": "RErr"}[f[2]], "true" if f[3] == "go" else "false")
    return {"ping": "CPing", "pong": "CPong", "terminate": "CTerminate", "badjson": "CBadJson", "wrongshape": "CWrongShape",
            "unknown": "CUnknown", "inittimeout": "EInitTimeout", "tick": "ETick", "clientclose": "EClientClose"}[k]


def _coq_case(line):
    """(protocol, inputs, outputs) of a recorded case as Gallina terms."""
    m = re.match(r"\(c19 (\w+) \w+ \(steps (.*)\) \(exit [tf]\)\)$", line)
    ins, outs = [], []
    for sm in re.finditer(r"\(\(([a-z]+(?: [\w]+)*)\) \(outs((?: \([^()]*\))*)\) \(live", m.group(2)):
        ins.append(_coq_input(sm.group(1)))
        os_ = []
        for om in re.finditer(r"\((m|c) ([^()]*)\)", sm.group(2)):
            f = om.group(2).split()
            if om.group(1) == "c":
                os_.append("OClose %s" % f[0])
            else:
                t = _MT[f[0].strip('"')]
                if t == "MPong" and len(f) > 2 and f[2] == "hb":
                    t = "MPongHb"
                os_.append("OMsg %s %s" % (t, f[1]))
        outs.append("[" + "; ".join(os_) + "]")
    return ("TWS" if m.group(1) == "tws" else "GWS", "[" + "; ".join(ins) + "]", "[" + "; ".join(outs) + "]")


def crosscheck(chk, cases, results, n=300):
    """Evaluate the model and the monitor INSIDE Coq (vm_compute) on n recorded cases the extracted
    driver found in order: the implementation's outputs are the model's, and the monitor accepts."""
    ok_lines = [cases[ln - 1] for (ln, st, _) in results if st == "ok" and 0 < ln <= len(cases)]
    if not ok_lines:
        return
    step = max(1, len(ok_lines) // n)
    picked = ok_lines[::step][:n]
    txt = ("From Coq Require Import List NArith Bool.\nFrom Gv Require Import C19.Model C19.Spec.\n"
           "Import ListNotations.\nOpen Scope N_scope.\n")
    for k, line in enumerate(picked):
        pr, ins, outs = _coq_case(line)
        txt += "Example x%d : run_outs %s %s = %s /\\ monitor_accepts %s %s %s = true.\nProof. vm_compute. split; reflexivity. Qed.\n" % (
            k, pr, ins, outs, pr, ins, outs)
    p = os.path.join(chk.work, "CrossCheck.v")
    open(p, "w").write(txt)
    with vlib.Lock("coq"):
        rc, out = vlib.sh("coqc -Q %s Gv -w -notation-overridden CrossCheck.v" % vlib.COQ, cwd=chk.work, timeout=1500)
    chk.coverage["in_coq_crosscheck"] = {"cases": len(picked), "ok": rc == 0}
    if rc != 0:
        chk.add_violation("tie:C19/extraction-crosscheck", out[-1500:], case={"file": p}, found_input=False)


def race_probe(chk, rounds=150, k=32):
    """Outside the sequential model: K queries in flight on a connection, their results arrive
    while the client sends connection_terminate / leaves, under the Go race detector.  A race
    report (or a crash) is a violation; the probe command is the replay."""
    ok, log, exe = vlib.build_harness("c19", race=True, timeout=1500)
    if not ok:
        chk.add_violation("tie:C19/harness-build", "race build: " + log[-2000:], found_input=False)
        return
    cmd = "%s race -n %d -k %d" % (exe, rounds, k)
    rc, out = vlib.sh(cmd, cwd=vlib.ROOT, timeout=1500, env=vlib.GOENV)
    races = out.count("WARNING: DATA RACE")
    chk.coverage["race_probe"] = {"cmd": cmd, "rounds": rounds, "queries_in_flight": k, "rc": rc, "race_reports": races}
    if races or rc != 0:
        i = out.find("WARNING: DATA RACE")
        chk.add_violation("spec:no_data_race", "race probe rc=%s, %d race report(s): %s" % (rc, races, out[max(i, 0):][:3000]),
                          case={"cmd": "cd /verif && " + cmd}, found_input=True)


def run(chk, only_corpus=None):
    chk.coverage["rule"] = RULE
    chk.assumptions += [
        "Coq 8.16.1 kernel (coqc, full .vo build); vm_compute only in Examples, anchors and refutation witnesses",
        "extraction with ExtrOcamlBasic only (no Extract Constant); ocamlfind ocamlopt 4.13.1; ocaml/common/prelude.ml + ocaml/c19/driver.ml "
        "(parsing of the case line, step-by-step comparison, the search for the set of cause-instance steps to take out)",
        "tools/props/c19_anchors.py (regex translator: message-type constants, Handle / HandleWriteEvent / Emit switch arms, "
        "NewCloseReason codes by enclosing function, heartbeat payload); code 1011 is a gobwas/ws constant and is not anchored",
        "modelled by hand and tied by correspondence: both protocol handlers, UniversalProtocolHandler.Handle read loop, ExecutorEngine "
        "(StartOperation / StopSubscription / TerminateAllSubscriptions / the two operation goroutines), subscriptionCancellations, "
        "TimeOutChecker; steps are atomic (each runs to the quiescent point the harness waits for): interleavings INSIDE a step "
        "are outside the model; the thorough tier adds a -race probe (queries completing while the connection terminates) for them",
        "harness pieces standing in for the outside world: a fake TransportClient that mirrors websocket.Client (once disconnected "
        "nothing reaches the wire; close code read from the frame), a scripted ExecutorPool/Executor (any Executor that takes time "
        "is an instance), an InitFunc that rejects payloads containing 'reject'",
        "not modelled: the OnBeforeStart hook (ExecutorV2 only), InitFunc returning a derived context, write errors of a live "
        "client, read errors / the read-error timeout, json edge cases beyond the variants the harness sends; "
        "real timers (init timeout, heartbeat) are exercised by fixed scripts only, with 40 ms / 25 ms durations",
    ]
    try:
        c19_anchors.run()
    except (AnchorError, Exception) as e:  # a translator crash is a broken tie as well
        chk.add_violation("tie:C19/anchors", "anchor translator: %s" % e, found_input=False)
    chk.proof_side()
    ok, log = vlib.build_model("C19")
    if not ok:
        chk.add_violation("tie:C19/model-build", log[-2000:], found_input=False)
        return
    ok, log, exe = vlib.build_harness("c19")
    if not ok:
        chk.add_violation("tie:C19/harness-build", log[-2000:], case={"log": log[-4000:]}, found_input=False)
        return
    model = os.path.join(vlib.BIN, "model_c19")
    state = {}
    samples = []
    corpus = only_corpus or os.path.join(vlib.ROOT, "corpus", "C19", "cases.txt")
    b = vlib.run_batch(chk, "%s corpus -in %s -out {out}" % (exe, corpus), model, "corpus")
    if b:
        vlib.digest_batch(chk, b[0], b[1], classify, state)
        samples += b[0][3:5]
    if only_corpus is None:
        b = vlib.run_batch(chk, "%s gen -seed %d -tier %s -out {out}" % (exe, chk.seed, chk.tier), model, "gen", timeout=3000)
        if b:
            vlib.digest_batch(chk, b[0], b[1], classify, state)
            samples += [c for c in b[0] if "(c 4409)" in c][:1] + [c for c in b[0] if "hb)" in c][:1] + b[0][2000:2002]
            chk.coverage["distribution"] = _distribution(b[0])
            by_cause = {}
            for (k, c, d) in state.get("specfail", []):
                by_cause[k or "unattributed"] = by_cause.get(k or "unattributed", 0) + 1
            chk.coverage["distribution"]["monitor_failures_by_cause"] = by_cause
            if chk.tier == "thorough":
                crosscheck(chk, b[0], b[1])
                race_probe(chk)

    def more(st):
        for k in range(1, 4):
            bb = vlib.run_batch(chk, "%s gen -seed %d -tier %s -n %d -out {out}" % (exe, chk.seed * 1000 + k, chk.tier, 20000),
                                model, "more%d" % k, timeout=3000)
            if bb:
                vlib.digest_batch(chk, bb[0], bb[1], classify, st)
            if any(kk is None for (kk, _, _) in st.get("specfail", [])):
                break

    vlib.conclude_differential(chk, state, more if only_corpus is None else None)
    chk.coverage["samples"] = [s[:600] for s in samples]
    chk.notes.append("full theorem refuted on the faithful model of the current code (c19_*_trace_accepted_refuted) by one listed cause, "
                     "sub-error-goes-on; c19_*_trace_accepted_partial holds for all sequences without an instance of it. The two causes "
                     "repaired in execution/subscription/engine.go (stop-unknown-id, emit-after-cancel) are kept as historical statements "
                     "over ModelV0.v (c19_each_cause_refuted_v0) and their witnesses are accepted now (c19_repaired_witnesses_accepted)")


def replay(chk, path):
    """Re-execute exactly the recorded case: its input/event sequence is turned back into a
    one-line corpus and run through harness + driver."""
    r = json.load(open(path))
    case = r.get("case")
    chk.log("replay: %s" % (str(case)[:300]))
    if not isinstance(case, str) or not case.startswith("(c19 "):
        run(chk)
        return
    m = re.match(r"\(c19 (\w+) (\w+) \(steps (.*)\) \(exit [tf]\)\)$", case)
    ins = re.findall(r"\(\((init \w+|ping|pong|sub \d+ \w+|complete \d+|start \d+ \w+|stop \d+|terminate|badjson|wrongshape|unknown|"
                     r"flush \d+|ret \d+ \w+ \w+|inittimeout|tick|clientclose)\)", m.group(3)) if m else []
    # wire variants of malformed inputs are recorded as (w "..."): map them back to the variant index is not
    # needed for replay of the protocol behaviour; the first variant of each class is used
    line = "%s %s %s\n" % (m.group(1), m.group(2), " ".join("(" + re.sub(r" (go|end)$", "", i) + ")" for i in ins))
    p = os.path.join(chk.work, "replay.txt")
    open(p, "w").write(line)
    run(chk, only_corpus=p)


def gen_anchors():
    """used by setup: (re)generate coq/gen/Anchors_C19.v from /repo"""
    from props import c19_anchors
    return c19_anchors.run()
