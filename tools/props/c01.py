"""C01: federated execution equals monolithic execution of the supergraph -- see DESIGN.md, FEDLAB.md."""
import glob
import json
import os
import re

import vlib

RULE = ("seeded federated configurations (gvh/fedlab: supergraph of 3-10 object types + interfaces/unions/enums/input "
        "objects, partitioned into 2-4 subgraphs with single/compound/nested/second keys, @requires, @provides, "
        "@shareable, shared value types, subgraph-local types, interfaces declaring @requires fields and lists of "
        "entities, second-key-only subgraphs, and -- in half of the medium / full configurations, knob 'covariant' -- "
        "interfaces with object / list fields whose type is again an interface or union, narrowed covariantly by some "
        "implementers, two levels deep, and (knob 'scopedhops', likewise) every interface with an entity hop whose entity "
        "has a field in another subgraph, lists holding every implementer, and (knob 'nestedlists', likewise) fields of type "
        "[[T]] / [[[T]]] in every nullability combination, T an entity with fields in other subgraphs -- so that _entities "
        "fetches have their parent objects below a list of lists --, a value / local type, an interface, a union or a scalar, "
        "also declared by interfaces, with null / empty inner lists, null items and entities repeated across inner lists, and "
        "(knob 'listrequires', likewise) @requires inputs that are list-valued leaves of type [T] / [T]! / [T!] / [T!]! / [[T]] "
        "holding null items, null and empty lists and repeated values; composition contract in harness/fedlab/CONTRACT.md), a key-consistent data "
        "universe per configuration (nullable positions sometimes null or failing, entity lists with repeats such as "
        "a,a,b,c,b and nulls in the middle), and 5 "
        "valid-by-construction operations per configuration (nesting across subgraph boundaries, aliases, named and "
        "inline fragments on abstract types, __typename, variables and literals, @skip/@include; under knob 'covariant' "
        "one inner response key selected bare, under an outer `... on Impl` only, under an inner `... on Member` only, "
        "under both, below lists and through named fragments; under knob 'scopedhops' the same entity hop of an "
        "interface, with equal or different nested selections, bare and / or under one or two implementers and a fragment "
        "on the interface itself); a third of the "
        "configurations use a minimal feature set, a third a medium one, a third everything. Each (configuration, "
        "universe, operation) goes through the real ExecutionEngine.Execute whose subgraph HTTP transport is answered by "
        "the Coq-extracted reference executor in subgraph mode; the reference result is the same executor in monolithic "
        "mode. A case is distinct by the hash of its line and non-trivial when the gateway sent at least two subgraph "
        "requests of which at least one is an _entities fetch.")

# narrow signatures of recorded findings: (key, clause, regex on the harness detail)
KNOWN = [
    ("planner-key-field-type-conflict", "planning_never_fails",
     r"printOperation planner id: \d+: validation failed: external: fields '\w+' conflict because they return conflicting types"),
    ("external-field-requested-outside-provides", "request_owned",
     r"is @external in subgraph \w+ and not provided on this path"),
]

# diagnosis appended to a data_equal detail by harness/cmd/c01 (diagnose): the response position of the first
# difference, the (outer, inner) type-condition combinations the operation selects it under, the fields of the
# post-processed response plan at that position with their type conditions, and the planner-made upstream aliases
# of a response key on the way there
DIAG = re.compile(r";; position (\S+) selected under (\d+) condition combination\(s\) \{([^}]*)\}; "
                  r"plan fields \{([^}]*)\}; upstream merge aliases \{([^}]*)\}")


def classify(case, detail):
    clause = detail.split(" ", 1)[0]
    for key, cl, pat in KNOWN:
        if cl == clause and re.search(pat, detail):
            return key
    # the planner's generic "cannot build planning paths" message is only attributed to the recorded
    # finding when the configuration really has an entity that some subgraph knows by its second key only
    if clause == "planning_never_fails" and "failed to create planning paths, missing paths: [], has field waiting for dependency: true" in detail \
            and re.search(r'\(id \d+ \d+ \d+ "[^"]*\bkeyhop\b', case):
        return "key-hop-planning-paths"
    # a @requires field comes back null because its input, @provided in one fragment of an abstract selection
    # only, is sent as null for the sibling fragment
    # (the response key may be an alias: the expected value "rqN[..]" names the @requires field)
    if clause == "data_equal" and re.search(r'\.(rq\d+(_\d+)?|al\d+): null vs (\\22|\\?")rq\d+\[', detail) \
            and "(requires t)" in case and "(provides t)" in case and "(abstract t)" in case:
        return "requires-input-provided-in-one-fragment"
    # the same when the requiring subgraph, asked with the null input, answers null for the whole entity and a non-null
    # sibling field of that fetch nulls the enclosing object: the difference sits above the @requires field, so the
    # harness' diagnosis is used -- a representation carried null for a @requires input that is non-null in the universe
    # and that another subgraph @provides
    if clause == "data_equal" and "(requires t)" in case and "(provides t)" in case and "(abstract t)" in case \
            and ": null vs " in detail and re.search(r"requires inputs sent as null \{\w+\.\w+@\w+\(provided by \w+\)", detail):
        return "requires-input-provided-in-one-fragment"
    # a subgraph error of an entity fetch that only a non-matching parent type condition asked for
    if clause == "errors_iff" and "gateway=true reference=false" in detail and "(abstract t)" in case \
            and "data equal; gateway error: Failed to fetch from Subgraph" in detail:
        return "entity-fetch-ignores-parent-type-condition"
    # the abstract-selection rewrite copies `cv { ... on M {..} }`, selected on the interface, into `... on T { cv {..} }`
    # of an implementer whose cv is narrowed to a type that M can never be: the upstream operation is invalid
    if clause == "planning_never_fails" and "(covnarrowed t)" in case and re.search(
            r"printOperation planner id: \d+: validation failed: external: Fragment cannot be spread here as objects of type "
            r"\S+ can never be of type ", detail):
        return "rewrite-keeps-fragment-impossible-under-narrowed-field"
    # a datasource planner receives a field / inline fragment whose parent selection set it was never given: its node
    # stack holds a field where a selection set is expected and ast.AddSelection indexes out of range
    if clause == "no_panic" and "(id " in case and "covariant" in case.split("(sum", 1)[0] and re.search(
            r"index out of range \[\d+\] with length \d+ \| frames: pkg/ast\.\(\*Document\)\.AddSelection <- "
            r"pkg/engine/datasource/graphql_datasource\.\(\*Planner\[\.\.\.\]\)\.(addField|addTypenameToSelectionSet) <- ", detail):
        return "datasource-planner-add-selection-out-of-range"
    # suspected same root cause as the panic above (the node stack's top is used as a selection-set ref): when the ref
    # happens to be in range the field lands in a foreign selection set -- seen: the root one -- and the upstream
    # operation no longer validates; needs a partially declared interface next to covariant narrowing as well
    if clause == "planning_never_fails" and "(id " in case and re.search(r'\(id \d+ \d+ \d+ "[^"]*\bpartialinterfaces\b[^"]*\bcovariant\b', case) \
            and re.search(r'printOperation planner id: \d+: validation failed: external: Cannot query field \S+ on type \S*Query\S*, '
                          r'locations: \[\], path: \[query\]', detail):
        return "datasource-planner-field-added-to-root-selection-set"
    # (a difference in data may come with errors on the gateway's side only: nulled non-null positions)
    # postprocess/merge_fields.go mergeValues looks through one resolve.Array level only: when two fields of one response
    # key and of type [[T]] are merged (`f {a} ... on X { f {b} }`), the second one's sub-selection is dropped from the
    # response plan -- the diverging key has NO field in the plan at all and is missing from objects below a list of lists
    md = DIAG.search(detail) if clause == "data_equal" else None
    if md and "(nestedlist t)" in case and not md.group(4).strip() and re.search(r"(\[\d+\]){2,}[^ ]*: members \{", detail):
        return "merge-fields-drops-selection-below-list-of-lists"
    m = DIAG.search(detail) if clause == "data_equal" or (clause == "errors_iff" and "gateway=true reference=false" in detail) else None
    if m and "(abstract t)" in case:
        position, ncombos, combos, fields, aliases = m.groups()
        # abstract_selection_field_alias.go aliased a composite response key on the way to the diverging position in
        # member fragments (`... on T { __internal_merge_T_cv: cv {..} }`): the resolve tree gives the aliased
        # objects their own data path, postprocess merges them by response name, the children are then read
        # from the wrong object
        if aliases.strip():
            return "merge-alias-on-composite-field-lost-in-field-merge"
        # postprocess/merge_fields.go: the diverging response key has several type-condition alternatives -- the
        # operation selects it under several (outer, inner) combinations and / or the merged plan keeps several
        # fields for it (the per-type rewrite adds conditions the operation does not show) -- and the plan holds a
        # field for it that carries an inherited parent type condition; the key is missing / null (or present as
        # null where the operation does not select it): the merged conditions are not the disjunction of the selections
        plan_fields = [f for f in fields.split(" | ") if f.strip()]
        if int(ncombos) + len(plan_fields) >= 3 and any("parentOn=[" in f for f in plan_fields) \
                and re.search(r": (members \{|null vs )", detail):
            return "merge-scalars-conjoins-type-conditions"
    return None


def distribution(cases):
    d = {"subgraphs": {}, "fetches_per_plan": {}, "entity_fetches": {}, "abstract_selections": 0, "requires_used": 0,
         "provides_used": 0, "ops_with_variables": 0, "ops_with_fragments": 0, "ops_with_directives": 0,
         "ops_with_aliases": 0, "requires_field_selected_on_interface": 0, "object_list_selected_on_interface": 0,
         "configs_with_knob_covariant": 0, "abstract_field_under_abstract_parent": 0, "with_covariant_narrowing": 0,
         "same_inner_key_under_several_condition_combinations": 0, "configs_with_knob_scopedhops": 0,
         "interface_entity_hop_under_several_scopes": 0, "configs_with_knob_nestedlists": 0,
         "list_of_lists_selected": 0, "entity_fetch_below_list_of_lists": 0,
         "configs_with_knob_listrequires": 0, "requires_field_with_list_valued_input_selected": 0,
         "engine_panics": 0, "gateway_reported_errors": 0, "member_order_differs": 0, "knob_tiers": {}}
    for c in cases:
        for name, rx in (("subgraphs", r"\(subgraphs (\d+)\)"), ("fetches_per_plan", r"\(fetches (\d+)\)"),
                         ("entity_fetches", r"\(entityfetches (\d+)\)")):
            m = re.search(rx, c)
            if m:
                d[name][m.group(1)] = d[name].get(m.group(1), 0) + 1
        for name, tag in (("abstract_selections", "abstract"), ("requires_used", "requires"), ("provides_used", "provides"),
                          ("ops_with_variables", "vars"), ("ops_with_fragments", "frags"), ("ops_with_directives", "dirs"),
                          ("ops_with_aliases", "aliases"), ("requires_field_selected_on_interface", "ifacerequires"),
                          ("object_list_selected_on_interface", "ifaceobjlist"),
                          ("abstract_field_under_abstract_parent", "covfield"), ("with_covariant_narrowing", "covnarrowed"),
                          ("same_inner_key_under_several_condition_combinations", "covsamekey"),
                          ("interface_entity_hop_under_several_scopes", "scopedhop"),
                          ("list_of_lists_selected", "nestedlist"), ("entity_fetch_below_list_of_lists", "nestedhop"),
                          ("requires_field_with_list_valued_input_selected", "listrequires")):
            if "(%s t)" % tag in c:
                d[name] += 1
        if "(gwerrors t)" in c:
            d["gateway_reported_errors"] += 1
        if "(panic t)" in c:
            d["engine_panics"] += 1
        if "(orderonly t)" in c:
            # informational: same JSON value, member order differs from the CollectFields order
            d["member_order_differs"] += 1
        m = re.search(r'\(id \d+ \d+ \d+ "([^"]*)"\)', c)
        if m:
            if "covariant" in m.group(1).split(","):
                d["configs_with_knob_covariant"] += 1
            if "scopedhops" in m.group(1).split(","):
                d["configs_with_knob_scopedhops"] += 1
            if "nestedlists" in m.group(1).split(","):
                d["configs_with_knob_nestedlists"] += 1
            if "listrequires" in m.group(1).split(","):
                d["configs_with_knob_listrequires"] += 1
            n = len([k for k in m.group(1).split(",") if k not in ("covariant", "scopedhops", "nestedlists", "listrequires")])
            tier = "minimal" if n <= 6 else ("medium" if n <= 26 else "full")
            d["knob_tiers"][tier] = d["knob_tiers"].get(tier, 0) + 1
    for k in ("subgraphs", "fetches_per_plan", "entity_fetches"):
        d[k] = dict(sorted(d[k].items(), key=lambda kv: int(kv[0])))
    return d


def builds(chk):
    ok, log = vlib.build_model("Exec")
    if not ok:
        chk.add_violation("tie:C01/exec-build", log[-2000:], found_input=False)
        return None
    ok, log = vlib.build_model("C01")
    if not ok:
        chk.add_violation("tie:C01/model-build", log[-2000:], found_input=False)
        return None
    ok, log, exe = vlib.build_harness("c01")
    if not ok:
        chk.add_violation("tie:C01/harness-build", log[-2000:], found_input=False)
        return None
    return exe


def attach_replays(chk):
    """A violation's case is the harness line; put the harness' self-contained replay next to it."""
    for v in chk.violations:
        c = v.get("case")
        if isinstance(c, str):
            m = re.search(r'\(replay "([^"]+)"\)', c)
            if m and os.path.exists(m.group(1)):
                try:
                    v["case"] = dict(json.load(open(m.group(1))), line=c[:4000])
                except (OSError, ValueError):
                    pass


def run(chk):
    quick = chk.tier == "quick"
    n, unis = (2000, 1) if quick else (15000, 3)
    chk.level = "proof"
    chk.coverage["rule"] = RULE
    chk.assumptions += [
        "Coq 8.16.1 kernel; extraction ExtrOcamlBasic only; the reference executor coq/lib/Exec.v extracted into bin/model_exec "
        "(ocaml/exec/driver.ml, ocaml/common/gqlread.ml) is the semantics of both the monolithic server and every subgraph",
        "the verdict data_equal is json_eqb of coq/lib/Json.v extracted into bin/model_c01 (ocaml/c01/driver.ml); clauses "
        "planning_never_fails, errors_iff, request_valid come from the engine's and the executor's own answers; request_owned and "
        "representation_complete are evaluated in Go (harness/fedlab/check.go) from the generated federation metadata",
        "harness/fedlab: generator and composition contract (CONTRACT.md) -- the planner is only exercised on layouts the generator "
        "emits; SDL printer, planner metadata builder (root/child nodes, keys, requires, provides), S-expression dumper of the "
        "upstream queries, http.RoundTripper",
        "a panic in an engine goroutine kills the harness worker; the supervising process reports the case under clause no_panic "
        "with a replay and resumes with the next case (such cases are not shrunk)",
        "the planner itself is not modelled: its output is validated per plan (part C01p: the real fetch tree is translated to the "
        "Coq plan-tree form and the verified validator tv3_static_b is evaluated on it -- acceptance gives gateway == monolith for "
        "every universe of the contract, theorem plan_tree_valid_all_universes) where the plan lies inside the validator's fragment, "
        "and sampled end to end over universes everywhere",
        "subgraphs answer any field their schema declares (also @external ones) -- asking for a non-owned field is caught by "
        "request_owned, not by a wrong answer; mutations, subscriptions, entity interfaces, @interfaceObject, @override, "
        "nested @requires selections and custom scalars are not generated",
    ]
    chk.proof_side()
    exe = builds(chk)
    if exe is None:
        return
    model = os.path.join(vlib.BIN, "model_c01")
    rdir = os.path.join(chk.work, "replays")
    for f in glob.glob(os.path.join(rdir, "*.json")):
        os.remove(f)
    # recorded findings are not shrunk again on every run (their minimised cases live in corpus/C01)
    skip = ("conflict because they return conflicting types|not provided on this path|has field waiting for dependency"
            "|rq[0-9_]+: null vs|gateway errors=true reference errors=false"
            "|Fragment cannot be spread here as objects of type|upstream merge aliases .__internal_merge"
            "|frames: pkg/ast...Document..AddSelection|Cannot query field .* on type .*Query.*path: .query.$"
            "|selected under [0-9]+ condition combination.*; plan fields .*parentOn="
            "|[0-9]+..[0-9]+.[^ ]*: members .*; plan fields ..; upstream"
            "|requires inputs sent as null .[A-Z]")
    state, samples, allcases = {}, [], []
    corpus = os.path.join(vlib.ROOT, "corpus", "C01")
    if glob.glob(os.path.join(corpus, "*.json")):
        b = vlib.run_batch(chk, "%s replay -in %s -out {out} -replaydir %s" % (exe, corpus, rdir), model, "corpus")
        if b:
            vlib.digest_batch(chk, b[0], b[1], classify, state)
            chk.coverage["corpus_cases"] = len(b[0])
    b = vlib.run_batch(chk, "%s gen -seed %d -n %d -unis %d -knobs all3 -shrink 2 -shrinkskip \"%s\" -out {out} -replaydir %s" % (
        exe, chk.seed, n, unis, skip, rdir), model, "gen", timeout=3000)
    if b:
        vlib.digest_batch(chk, b[0], b[1], classify, state)
        allcases += b[0]
        nt = [c for c in b[0] if re.search(r"\(entityfetches [1-9]", c)]
        samples += [c[:1800] for c in nt[:3]]

    def more(st):
        for k in range(1, 4):
            bb = vlib.run_batch(chk, "%s gen -seed %d -n %d -unis %d -knobs all3 -shrink 1 -shrinkskip \"%s\" -out {out} -replaydir %s" % (
                exe, chk.seed * 1000 + k, n * 2, unis, skip, rdir), model, "more%d" % k, timeout=3000)
            if bb:
                vlib.digest_batch(chk, bb[0], bb[1], classify, st)
            if any(kk is None for (kk, _, _) in st.get("specfail", [])):
                break

    # self-test of the check itself: planner metadata with an injected defect must be noticed
    selftest = {}
    for mode, clause, cnt in (("misroute", "planning_never_fails", 200), ("ownexternal", "request_owned", 600)):
        cases = os.path.join(chk.work, "selftest-%s.cases" % mode)
        res = os.path.join(chk.work, "selftest-%s.res" % mode)
        rc, out = vlib.sh("%s gen -seed %d -n %d -seeded %s -shrink 0 -out %s" % (exe, chk.seed + 17, cnt, mode, cases),
                          cwd=vlib.ROOT, timeout=600, env=vlib.GOENV)
        hits = 0
        if rc == 0:
            rc, out = vlib.sh("%s %s %s" % (model, cases, res), cwd=vlib.ROOT, timeout=600)
            if rc == 0:
                hits = sum(1 for (_, st, d) in vlib.read_results(res) if st == "specfail" and d.startswith(clause))
        selftest[mode] = {"cases": cnt, "detected_as_" + clause: hits}
        if hits == 0:
            chk.add_violation("tie:C01/selftest-" + mode, "seeded planner-metadata defect '%s' was not detected (rc=%s %s)" % (
                mode, rc, out[-500:]), found_input=False)
    chk.coverage["selftest_seeded_defects"] = selftest

    # translation validation of the real planner's plans against the verified plan-tree validator (tools/props/c01p.py)
    try:
        from props import c01p
        c01p.run_part(chk, knobs="all3")
    except Exception as e:  # the part must never take the whole check down silently
        chk.add_violation("tie:C01p/run", "plan validation part failed to run: %r" % (e,), found_input=False)

    vlib.conclude_differential(chk, state, more)
    attach_replays(chk)
    chk.coverage["distribution"] = distribution(allcases)
    chk.coverage["samples"] = samples


def replay(chk, path):
    """Re-run the self-contained case of a replay file through the engine and the reference executor."""
    r = json.load(open(path))
    case = r.get("case")
    chk.level = "proof"
    chk.coverage["rule"] = "replay of %s" % path
    exe = builds(chk)
    if exe is None:
        return
    if not (isinstance(case, dict) and isinstance(case.get("case"), dict)):
        chk.log("replay file carries no self-contained case; running the normal check instead")
        return run(chk)
    src = os.path.join(chk.work, "replay-in.json")
    json.dump(case, open(src, "w"))
    rdir = os.path.join(chk.work, "replays")
    b = vlib.run_batch(chk, "%s replay -in %s -out {out} -replaydir %s" % (exe, src, rdir), os.path.join(vlib.BIN, "model_c01"), "replay")
    state = {}
    if b:
        vlib.digest_batch(chk, b[0], b[1], classify, state)
        for (ln, st, detail) in b[1]:
            chk.log("replay line %d: %s %s" % (ln, st, detail[:400]))
        chk.coverage["samples"] = [c[:1800] for c in b[0][:2]]
    vlib.conclude_differential(chk, state, None)
    attach_replays(chk)
