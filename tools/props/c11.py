"""C11: request de-duplication (inbound + subgraph single flight) -- see DESIGN.md section 4 C11, Appendix A."""
import json
import os
import re

import vlib

RULE = ("one case = one complete schedule of the real code under the cooperative scheduler: the scheduler "
        "starts actors (each goroutine wrapped in a recover = the request boundary), releases them from the verif "
        "yield points (after LoadOrStore in the follower branch, before close(Done)/close(loaded)), answers their gated "
        "work (ok / upstream failure / own-context failure / PANIC on the actor's goroutine), answers the Write on each "
        "actor's own client writer, which parks inside the call (ok / the writer's own error / panic; inbound modes), "
        "and cancels contexts. Request sets: two same-key queries with every pair of planned answers and at most "
        "one cancellation, ALL interleavings (stateless DFS); the same with a failing / panicking client writer and "
        "with a panicking shared work (followers waiting at that moment, identical requests arriving afterwards); "
        "pairs that must not share (each key ingredient "
        "different, mutation, subscription, de-duplication disabled), all interleavings; seeded random schedules of "
        "3-4 actors over 1-4 keys with mutations/subscriptions/disabled mixed in, up to two cancellations, failing "
        "writers and panics. At quiescence the number of keys still in the single-flight table (read by reflection) "
        "must be 0 and every actor must have returned. "
        "Three modes: inbound table through a replica of the caller logic, inbound end to end "
        "(Resolver.ArenaResolveGraphQLResponse), subgraph end to end (Loader.loadByContext through the resolver). "
        "Fourth mode, the SIZE-HINT table of the subgraph single flight (shard.sizes, shared by all leaders of one "
        "fetchKey = data source + root fields, whatever their sfKey): the real GetOrCreateItem / Finish through a replica "
        "of loadByContext's leader path on a fresh (cold) table per schedule; two and three leaders with DIFFERENT sfKeys "
        "(other input, other headers hash) sharing one fetchKey, all interleavings, a third leader of another kind, the "
        "rolling window driven over its fold at 50 samples, seeded random schedules of 3-5 leaders over 1-2 kinds and 1-2 "
        "shards with empty responses; the window between Finish's LoadOrStore of the empty entry and its first record is "
        "opened by a harness-owned parking point (the command (pub i) performs that LoadOrStore on the real table on the "
        "finisher's behalf, see harness/cmd/c11/hint.go); hints handed to the leaders and the final (count, totalBytes) of "
        "every entry (reflection) are compared with the LTS of coq/C11/ModelHint.v, and no_panic / each_returns / "
        "hint_is_mean / hint_window are evaluated on the implementation's values. The thorough tier adds a stress stream: "
        "GetOrCreateItem / Finish from 3-5 goroutines on 4 x 20000 cold fetch kinds under -race (only a panic fails). "
        "A size-hint case is non-trivial when a leader is elected while the entry of its kind is published but empty. "
        "A case is distinct by the hash of its line and non-trivial when some actor's LoadOrStore found another "
        "actor's entry (it parked at the follower yield point), i.e. two actors overlap inside the window between "
        "one's LoadOrStore and the other's close.")

CORPUS = os.path.join(vlib.ROOT, "corpus", "C11", "cases.txt")


def _final(case):
    m = re.search(r"\(final (.*)\) \(reg \d+\)\)$", case) or re.search(r"\(final (.*)\)\)$", case)
    return m.group(1) if m else ""


def classify(case, detail):
    """Narrow keys for the three defects found in the design/build phase (all repaired: with the fixes in
    /repo none of them fires; the keys exist so that a tree without a fix reports exactly that defect)."""
    fin = _final(case)
    if detail.startswith("no_panic inbound") and "close of closed channel" in fin:
        # the follower that registered after the leader's FinishOk: it was parked at y1 while its leader returned
        if re.search(r"\(at y1\)", case):
            return "inbound-late-follower-double-close"
    m = re.match(r"err_origin subgraph actor (\d+) \(\d+ \(err ctx (\d+)\)", detail)
    if m and m.group(1) != m.group(2):
        j = m.group(2)
        if re.search(r"\(%s \([^()]*(\([^()]*\))?[^()]*\) [tf] t " % j, fin) or re.search(r"\(cancel %s\)" % j, case):
            return "subgraph-leader-cancel-published"
    m = re.match(r"(transparent|err_origin) inbound(-e2e)? actor (\d+)", detail)
    if m and ("canbody" in fin or "errctx" in fin) and re.search(r"\(cancel \d+\)", case):
        i = m.group(3)
        # the failing actor itself was not cancelled and did not execute
        if re.search(r"\(%s \(.*?\) [tf] f -( [-\w]+)?\)" % i, fin):
            return "inbound-leader-cancel-published"
    return None


def _distribution(cases):
    d = {"mode": {}, "actors": {}, "answers": {}, "cancels": 0, "results": {}, "followers": 0, "steps": 0}
    for c in cases:
        if c.startswith("(c11h ") or c.startswith("(c11s "):
            k = "size-hint" if c.startswith("(c11h ") else "size-hint-stress"
            d["mode"][k] = d["mode"].get(k, 0) + 1
            d["steps"] += len(re.findall(r"\(\((?:start|rel|ans|pub) ", c))
            d["hint_windows_opened"] = d.get("hint_windows_opened", 0) + len(re.findall(r"\(\(pub \d+\)", c))
            continue
        m = re.match(r"\(c11 (\w+) ", c)
        if not m:
            continue
        d["mode"][m.group(1)] = d["mode"].get(m.group(1), 0) + 1
        n = len(re.findall(r"\((\d+) (?:query|mutation|subscription) [tf] ", c))
        d["actors"][n] = d["actors"].get(n, 0) + 1
        for a in re.findall(r"\(ans \d+ (\w+)\)", c):
            d["answers"][a] = d["answers"].get(a, 0) + 1
        for a in re.findall(r"\(wr \d+ (\w+)\)", c):
            d.setdefault("writes", {})
            d["writes"][a] = d["writes"].get(a, 0) + 1
        d["cancels"] += len(re.findall(r"\(cancel \d+\)", c))
        d["followers"] += len(re.findall(r"\(at y1\)", c))
        d["steps"] += len(re.findall(r"\(\((?:start|rel|ans|wr|cancel) ", c))
        fin = _final(c)
        for r in re.findall(r"\(\d+ (none|\((?:wrote|wrerr|crash|err \w+|panic))", fin):
            r = r.strip("(")
            d["results"][r] = d["results"].get(r, 0) + 1
        for kind in ("mutation", "subscription"):
            if kind in c:
                d[kind] = d.get(kind, 0) + 1
    return d


def _run(chk, exe, model, state, samples, args, tag, dist=None):
    b = vlib.run_batch(chk, "%s %s -out {out}" % (exe, args), model, tag)
    if b:
        vlib.digest_batch(chk, b[0], b[1], classify, state)
        samples += [c[:600] for c in b[0][:2]]
        if dist is not None:
            dd = _distribution(b[0])
            for k, v in dd.items():
                if isinstance(v, dict):
                    t = dist.setdefault(k, {})
                    for kk, vv in v.items():
                        t[kk] = t.get(kk, 0) + vv
                else:
                    dist[k] = dist.get(k, 0) + v
    return b


def run(chk, only_cases=None):
    chk.coverage["rule"] = RULE
    chk.assumptions += [
        "Coq 8.16.1 kernel (coqc, full .vo build); vm_compute only in Examples and refutation witnesses",
        "extraction with ExtrOcamlBasic only; ocamlfind ocamlopt 4.13.1; ocaml/common/prelude.ml + ocaml/c11/driver.ml "
        "(maps scheduler commands to model actions, advances an actor over its unobservable internal steps)",
        "the LTS is sequentially consistent over atomic regions (sync.Map, atomic counter, channel close, plain fields "
        "published by the close): Go-memory-model races are outside it; the thorough tier runs the same schedules under -race",
        "64-bit xxhash keys treated as injective (the model keys on the abstract key; the harness maps an abstract key to "
        "request id / variables hash / headers hash resp. data source id / input / headers hash, varying one ingredient at a time)",
        "modelled by hand and tied by correspondence: inbound_request_singleflight.go, the single-flight part of "
        "Resolver.ArenaResolveGraphQLResponse, subgraph_request_singleflight.go (GetOrCreateItem/Finish; the size-hint table as an "
        "LTS of its own whose actors are the leaders, every election order allowed), "
        "Loader.loadByContext; the maxConcurrency semaphore, tracing, response headers/status propagation are left out",
        "harness/cmd/c11: cooperative scheduler (verif yield hook, gated DataSource, goroutine wait-state inspection for "
        "'blocked in select'), per-actor contexts whose Err() names the actor, LoaderHooks.OnFinished as the observation "
        "point of loadByContext's result (an 'empty response' SubgraphError with an empty body = loadByContext returned "
        "neither bytes nor an error); Go's select picks at random when Done and ctx are both ready (either accepted); "
        "the actors' client writers (park inside Write, fail with an error naming the actor, or panic; they also check that "
        "the slice they were handed does not change while parked); injected panics carry the actor's id and are recovered "
        "per actor goroutine; the single-flight tables' sizes are read through reflect/unsafe (no accessor in /repo)",
        "panics are injected only on the actor's own goroutine (serial fetch / client writer); a panic on a goroutine the "
        "engine spawned (parallel fetches) kills the process and is outside the property",
        "subgraph table: a follower of a leader whose load panicked gets res.out = nil, err = nil from loadByContext (the "
        "deferred Finish releases the item with nothing published); the spec accepts exactly this as 'the shared work "
        "failed' (the loader reports it as an empty response of the subgraph)",
        "size-hint table: Go int modelled as Z with truncating division, absence of wrap-around proved for response "
        "lengths M with 50 * M < 2^63; the window inside Finish (after close(loaded)) has no verif yield point in /repo: the "
        "harness performs Finish's LoadOrStore(&fetchSize{}) itself before the actor runs the real Finish -- equivalent for "
        "every other actor because Delete / close concern only the finisher's own sfKey, which no other actor of a "
        "size-hint schedule uses; the entry type is unexported (a zero value is made by reflection from an entry a real "
        "Finish created); item.response / sizeHint are accessed through reflect/unsafe",
        "progress is proved as 'some non-cancel action is enabled' (no wedge); 'eventually returns' needs weak fairness of the "
        "scheduler and an upstream that answers; the harness drives every schedule to quiescence and checks everybody returned",
    ]
    chk.proof_side()
    ok, log = vlib.build_model("C11")
    if not ok:
        chk.add_violation("tie:C11/model-build", log[-2000:], found_input=False)
        return
    ok, log, exe = vlib.build_harness("c11")
    model = os.path.join(vlib.BIN, "model_c11")
    state, samples, dist = {}, [], {}
    if not ok:
        # the tie cannot be built: report it, nothing else can be run for a schedule property
        chk.add_violation("tie:C11/harness-build", log[-2000:], found_input=False)
        chk.coverage["samples"] = []
        return
    if only_cases is not None:
        _run(chk, exe, model, state, samples, "replay -in %s" % only_cases, "replay")
        vlib.conclude_differential(chk, state, None)
        chk.coverage["samples"] = samples
        return state
    _run(chk, exe, model, state, samples, "replay -in %s" % CORPUS, "corpus", dist)
    n = 400 if chk.tier == "quick" else 20000
    _run(chk, exe, model, state, samples, "gen -seed %d -n %d -tier %s" % (chk.seed, n, chk.tier), "gen", dist)
    if chk.tier == "thorough":
        ok, log, rexe = vlib.build_harness("c11", race=True)
        if not ok:
            chk.add_violation("tie:C11/harness-build", "race build: " + log[-1500:], found_input=False)
        else:
            b = _run(chk, rexe, model, state, samples, "gen -seed %d -n %d -tier quick" % (chk.seed + 7, 1500), "race", dist)
            chk.coverage["race_detector"] = "no report" if b else "run failed (see violations)"
            # the size-hint window hit for real: GetOrCreateItem / Finish from several goroutines on cold fetch kinds
            b = _run(chk, rexe, model, state, samples, "stress -seed %d -n 20000 -rounds 4" % chk.seed, "stress", dist)
            chk.coverage["size_hint_stress"] = "4 x 20000 cold fetch kinds, 3-5 goroutines, -race: %s" % ("ran" if b else "run failed")

    def more(st):
        for k in range(1, 4):
            _run(chk, exe, model, st, samples, "gen -seed %d -n %d -tier %s" % (chk.seed * 1000 + k, n * 3, chk.tier), "more%d" % k)
            if any(kk is None for (kk, _, _) in st.get("specfail", [])):
                break

    vlib.conclude_differential(chk, state, more)
    chk.coverage["distribution"] = dist
    chk.coverage["samples"] = samples[:6]
    return state


def replay(chk, path):
    r = json.load(open(path))
    case = r.get("case")
    lines = []
    if isinstance(case, str):
        lines = [case]
    elif isinstance(case, dict):
        lines = [e["case"] for e in case.get("examples", []) if isinstance(e, dict) and "case" in e]
    if not lines:
        chk.log("replay file holds no schedule; running the whole check")
        run(chk)
        return
    p = os.path.join(chk.work, "replay.in")
    with open(p, "w") as f:
        f.write("\n".join(lines) + "\n")
    chk.log("replaying %d schedule(s) from %s" % (len(lines), path))
    run(chk, only_cases=p)
