"""C09: planning is deterministic; plan cache, variable renaming and the plan optimisations
(de-duplication, multi-fetch, DAG scheduling, minification) are transparent -- DESIGN.md section 4 C09."""
import json
import os
import re

import vlib

RULE = ("four streams. hist: histories of 5-30 requests over ONE engine; one history in three runs on a configuration of "
        "the shared federation generator harness/fedlab (keys, @requires, @provides, interfaces, unions ...; the monolithic "
        "reference is compared on the fixed federations only), the others on three fixed federations (accounts/reviews/"
        "products with argument-carrying fields, an interface and an Upload scalar; the multi-fetch test federation plus a "
        "third subgraph; the schedule-fetches test federation plus a subgraph whose field @requires one field of each of the "
        "others; 'hop': a key translation id -> upc with two equally good intermediate subgraphs) with generated universes and generated operations (nested entity hops, lists, aliases, arguments with "
        "defaults / input objects / enums, @skip/@include on fields and inline fragments); a history mixes exact repeats, the "
        "SAME text with @skip/@include condition variables flipped, one two-operation document sent under either operation name, the same operation in other "
        "spellings (literals, variables, renamed variables, variables named from the mapper's alphabet, variables inside "
        "list/object literals, named/inline fragments), the same shape with other argument values and other operations; "
        "every history runs under the default option set and a sample (quick) or all (thorough) of the 16 combinations of "
        "de-duplication / multi-fetch / scheduler / minification; every request also runs alone on a fresh default engine, "
        "alone on a fresh engine with the same options, and on the monolithic reference executor. A further hist batch runs "
        "on three seed-parametrised fixture families (harness/c09lab/families.go; a member is rebuilt from its name): ifh = an "
        "interface with 2-3 implementers and an entity hop declared on the interface whose entity has leaves in 1-2 other "
        "subgraphs, operations select the hop on the interface-typed field AND under some implementers with equal nested "
        "selections (identical entity fetches, unscoped and type-scoped, that de-duplication folds), the data holds every "
        "implementer, the option set that differs from the default in de-duplication only always runs; rq2 = 2-3 provider "
        "subgraphs each owning one leaf, one subgraph with one @requires field per provider, 2-3 root fields (single/list "
        "parents, one or two entity types, optionally two members sharing a provider), a directed operation selects requires "
        "fields fed by different providers below different parents, and multi-fetch x scheduler runs ungated and under GATED "
        "completion orders (every subgraph response is held; whenever the gateway is quiet the held response of the subgraph "
        "first in a priority list is released; each provider answers last once; the order is part of the run label "
        "'d+m+s+z- order=root>calc>prov1>prov0'); genh = the shared generator with AllKnobsV2 and interfaces+scopedhops forced on. "
        "det: generated and "
        "corpus operations planned three times with fresh planners, twice with one reused planner (other operations in "
        "between), and in M freshly started processes, under four (quick) or sixteen option sets, plus the subgraph "
        "requests of fresh engines. dedup: generated flat fetch lists (1-10 fetches, keys from a small pool, 1 in 10 "
        "malformed) and the raw fetch list of every det plan through the real stage. rename: the engine's own request "
        "preparation on generated operations, before/after the variables mapper. A case is distinct by the hash of its "
        "line; non-trivial: hist = the history contains a plan-cache hit and two option sets differ in the set of requests "
        "they send, or some plan has a fork and a join; det = the plan sends at least two distinct subgraph requests; "
        "dedup = a duplicate was removed and a dependency redirected (or a real plan lost a duplicate); rename = at least "
        "two variables mapped, one of them renamed.")

KNOWN_TEXT = {
    "dedup-off-duplicate-fetch-error":
        "with postprocess.DisableDeduplicateSingleFetches the duplicate fetches that de-duplication would merge each report their "
        "failure: `{ media { ... on Book { author { reviews { body } } } ... on Movie { author { reviews { body } } } } }` (arp, "
        "reviews subgraph answers with an error) carries \"Failed to fetch from Subgraph 'reviews' at Path 'media.@.author'.\" once "
        "with de-duplication and twice without; data and the SET of (message, path) error pairs are equal. The switch exists in "
        "the postprocess package only (the engine has no setting for it)",
}


def classify(case, detail):
    d = detail
    # repaired in /repo and therefore no longer mapped -- a regression is a VIOLATION:
    #   planner-reuse-stale-state (clause plan_deterministic/reused; work/fix3_planner-reuse-stale-state.patch: plan.Visitor
    #     resets its per-operation state in EnterDocument)
    #   list-literal-variable-default-dropped (clause normalize_semantic on a variable with a default inside a list / object
    #     literal; work/fix3_nested-variable-in-extracted-literal.patch: the defaults are in the variables before extraction)
    if d.startswith("history_transparent dup_error_only=t dedup_off=t "):
        return "dedup-off-duplicate-fetch-error"
    return None


def _count(cases, pat):
    return sum(1 for c in cases if pat in c)


def hist_distribution(cases):
    d = {"histories": len(cases), "length": {"5-10": 0, "11-20": 0, "21-30": 0}, "cache_hits": 0, "cache_misses": 0,
         "option_sets": {}, "by_config": {}, "with_fork_and_join": 0, "requests_by_style": {},
         "histories_where_option_sets_send_different_requests": 0, "requests_with_mapper_collision": 0,
         "requests_rejected_by_engine": 0}
    for c in cases:
        m = re.match(r"\(c09 hist ([\w-]+) \d+ \(flags (\w) (\w)\)", c)
        if not m:
            continue
        cn = "generated" if m.group(1).startswith("gen-") else re.sub(r"-\d+-\d+$", "", m.group(1))
        d["by_config"][cn] = d["by_config"].get(cn, 0) + 1
        if m.group(2) == "t" and m.group(3) == "t":
            d["with_fork_and_join"] += 1
        parts = c.split(' (run "')
        nreq = parts[0].count(" (rq ")
        k = "5-10" if nreq <= 10 else "11-20" if nreq <= 20 else "21-30"
        d["length"][k] += 1
        for st in re.findall(r" \(rq \d+ (\w+) ", parts[0]):
            d["requests_by_style"][st] = d["requests_by_style"].get(st, 0) + 1
        d["requests_with_mapper_collision"] += len(re.findall(r"\) \d+ t\)(?= \(rq |\)$)", parts[0]))
        d["requests_rejected_by_engine"] += parts[0].count('(o ("execute_error" (t)))')
        sigs = set()
        for r in parts[1:]:
            name = r[:8]
            d["option_sets"][name] = d["option_sets"].get(name, 0) + 1
            if r[8:].startswith(" order="):
                d["gated_runs"] = d.get("gated_runs", 0) + 1
            d["cache_hits"] += r.count(" (rs t ")
            d["cache_misses"] += r.count(" (rs f ")
            sigs.add(tuple(re.findall(r'\((?:"[0-9a-f]{16}" ?)*\)', r)[0::3]))
        if len(sigs) > 1:
            d["histories_where_option_sets_send_different_requests"] += 1
    return d


def det_distribution(cases):
    d = {"plannings": 0, "by_option_set": {}, "real_fetch_lists": 0, "runs_per_planning": 0}
    for c in cases:
        if c.startswith("(c09 dedup real"):
            d["real_fetch_lists"] += 1
            continue
        m = re.match(r'\(c09 det \w+ \d+ "([^"]+)"', c)
        if m:
            d["plannings"] += 1
            d["by_option_set"][m.group(1)] = d["by_option_set"].get(m.group(1), 0) + 1
            d["runs_per_planning"] = max(d["runs_per_planning"], c.count("(p "))
    return d


def _batches(chk, exe, model, state, samples, quick):
    corpus = os.path.join(vlib.ROOT, "corpus", "C09")
    seed = chk.seed
    procs = 3 if quick else 8
    # ---- corpus first
    b = vlib.run_batch(chk, "%s dedup -in %s -out {out}" % (exe, os.path.join(corpus, "dedup.tsv")), model, "corpus_dedup")
    if b:
        vlib.digest_batch(chk, b[0], b[1], classify, state)
    b = vlib.run_batch(chk, "%s histcorpus -in %s -out {out}" % (exe, os.path.join(corpus, "hist.tsv")), model, "corpus_hist")
    if b:
        vlib.digest_batch(chk, b[0], b[1], classify, state)
    b = vlib.run_batch(chk, "%s renamecorpus -in %s -out {out}" % (exe, os.path.join(corpus, "rename.tsv")), model, "corpus_rename")
    if b:
        vlib.digest_batch(chk, b[0], b[1], classify, state)
        samples += [c[:300] for c in b[0][:1]]
    # corpus plans are planned often: a two-element Go map starts its iteration at the "other" element in about
    # one run of eight, so a map-order dependence needs a few dozen runs to show up reliably
    b = vlib.run_batch(chk, "%s det -jobs %s -procs %d -reps 12 -opts %s -out {out}" %
                       (exe, os.path.join(corpus, "det_jobs.jsonl"), 8 if quick else 16, "x" if quick else "all"), model, "corpus_det", timeout=1200)
    if b:
        vlib.digest_batch(chk, b[0], b[1], classify, state)
    # ---- generated
    dist = {}
    b = vlib.run_batch(chk, "%s dedup -seed %d -n %d -out {out}" % (exe, seed, 4000 if quick else 200000), model, "dedup", timeout=3000)
    if b:
        vlib.digest_batch(chk, b[0], b[1], classify, state)
        samples += [c[:300] for c in sorted(b[0][:40], key=len)[-1:]]
        dist["dedup"] = {"cases": len(b[0]), "malformed": _count(b[0], "(c09 dedup mal"),
                         "with_duplicate_removed": sum(1 for c in b[0] if c.split("(out")[0].count("(lf ") > c.split("(out")[-1].count("(lf "))}
    b = vlib.run_batch(chk, "%s rename -seed %d -n %d -out {out}" % (exe, seed, 240 if quick else 6000), model, "rename", timeout=3000)
    if b:
        vlib.digest_batch(chk, b[0], b[1], classify, state)
        samples += [c[:300] for c in b[0][:1]]
        dist["rename"] = {"cases": len(b[0]),
                          "styles": {st: sum(1 for c in b[0] if re.match(r"\(c09 rename \w+ %s " % st, c)) for st in
                                     ("lit", "var", "ren", "mix", "frag", "short")},
                          "prepare_rejected": _count(b[0], "(prepare-error")}
    b = vlib.run_batch(chk, "%s det -seed %d -n %d -procs %d -reps 3 -opts %s -out {out}" %
                       (exe, seed, 8 if quick else 40, procs, "x" if quick else "all"), model, "det", timeout=6000)
    if b:
        vlib.digest_batch(chk, b[0], b[1], classify, state)
        dist["det"] = det_distribution(b[0])
        dist["det"]["processes"] = procs
        samples += [c[:300] for c in b[0][:1]]
    b = vlib.run_batch(chk, "%s hist -seed %d -n %d -opts %s -gen 3 -workers 8 -out {out}" %
                       (exe, seed, 90 if quick else 600, "sample4" if quick else "all"), model, "hist", timeout=20000)
    if b:
        vlib.digest_batch(chk, b[0], b[1], classify, state)
        dist["hist"] = hist_distribution(b[0])
        samples += [c[:400] for c in sorted(b[0], key=len)[:1]]
    # fixture families (harness/c09lab/families.go): interface hops selected bare and under implementers (what
    # de-duplication folds), two @requires fields fed by different providers under multi-fetch x scheduler with gated
    # completion orders, the shared generator with knob scopedhops
    b = vlib.run_batch(chk, "%s hist -seed %d -n %d -fam ifh,rq2,genh -opts sample3 -minlen 5 -maxlen 9 -workers 8 -out {out}" %
                       (exe, seed, 45 if quick else 600), model, "hist_fam", timeout=20000)
    if b:
        vlib.digest_batch(chk, b[0], b[1], classify, state)
        dist["hist_families"] = hist_distribution(b[0])
        samples += [c[:400] for c in sorted(b[0], key=len)[:1]]
    chk.coverage["distribution"] = dist


def _proofs(chk):
    """coq/C09 (make builds the files of coq/C08 and coq/lib it imports); the C08 sources it relies on are
    scanned for escape hatches as well."""
    chk.proof_side()
    bad = vlib.grep_forbidden(["C08"])
    if bad:
        chk.coverage["forbidden_constructs"] = chk.coverage.get("forbidden_constructs", []) + bad
        chk.add_violation("proof:C08-imports", "escape hatch in an imported C08 file: " + "; ".join(bad[:5]), found_input=False)


def run(chk):
    quick = chk.tier == "quick"
    chk.coverage["rule"] = RULE
    chk.assumptions += [
        "Coq 8.16.1 kernel (coqc, full .vo build); vm_compute only in Examples and refutation witnesses",
        "extraction with ExtrOcamlBasic only; ocamlfind ocamlopt 4.13.1; ocaml/common/prelude.ml, gqlread.ml, ocaml/c09/driver.ml "
        "(S-expression parsing, the non-triviality rules, structural comparison of model and implementation documents with OCaml's =)",
        "the planner (v2/pkg/engine/plan) is NOT modelled: plan determinism is sampled (fresh / reused planners, fresh processes), "
        "cache_key_sound is proved for a deterministic planner given as a Section variable; astprinter.Print is injective on "
        "normalised operations (C05 round trip) and xxhash is collision-free on the keys of a history: named Section hypotheses",
        "createMultiFetch, the minifier (astminify) and the scheduler's effect on responses are covered by the differential only; "
        "schedule_transparent is a corollary of the C08 theorems under the explicit commutation hypothesis of coq/C09/ProofsCommute.v",
        "de-duplication model: EqualSingleFetch is abstracted to equality of (data source, request label, fetch path kind+path); in "
        "the correspondence the labels are the Input string of synthetic fetches, and for real plans the implementation's own "
        "EqualSingleFetch classes",
        "reference semantics: coq/lib/Exec.v through bin/model_exec (semantic subgraphs and monolithic reference), harness/fedlab "
        "(round tripper, S-expression dumps), harness/c09lab (fixed federations, operation generator and its spellings, the "
        "extraction of fetched (subgraph, entity, field) tuples from request bodies, reflect/unsafe access to the engine's private "
        "planner configuration, processor options and plan cache, the reflective plan dump)",
        "compared observables: response data exactly, errors as the sorted multiset of (message, path), an Execute error as one "
        "opaque outcome; subgraph requests as the SET of (subgraph, re-printed operation, variables) -- the loader's single flight "
        "(property C11) makes the number of identical concurrent requests timing dependent; a top-level extensions member is compared when present",
        "gated runs (harness/c09lab/gate.go): responses are held in fedlab's BeforeRespond hook and released by subgraph priority "
        "after 3 ms without a new subgraph request; a release that comes before a follow-up request arrived only yields another "
        "completion order, never a verdict",
    ]
    _proofs(chk)
    ok, log = vlib.build_model("C09")
    if not ok:
        chk.add_violation("tie:C09/model-build", log[-2000:], found_input=False)
        return
    ok, log, exe = vlib.build_harness("c09")
    if not ok:
        chk.add_violation("tie:C09/harness-build", log[-2000:], found_input=False)
        return
    model = os.path.join(vlib.BIN, "model_c09")
    state, samples = {}, []
    _batches(chk, exe, model, state, samples, quick)

    def more(st):
        for k in range(1, 4):
            bb = vlib.run_batch(chk, "%s hist -seed %d -n %d -opts all -workers 8 -out {out}" % (exe, chk.seed * 1000 + k, 60), model,
                                "more_hist%d" % k, timeout=6000)
            if bb:
                vlib.digest_batch(chk, bb[0], bb[1], classify, st)
            bb = vlib.run_batch(chk, "%s hist -seed %d -n %d -fam ifh,rq2,genh -opts sample3 -minlen 5 -maxlen 9 -workers 8 -out {out}" %
                                (exe, chk.seed * 1000 + k, 90), model, "more_hist_fam%d" % k, timeout=6000)
            if bb:
                vlib.digest_batch(chk, bb[0], bb[1], classify, st)
            bb = vlib.run_batch(chk, "%s dedup -seed %d -n %d -out {out}" % (exe, chk.seed * 1000 + k, 20000), model, "more_dedup%d" % k,
                                timeout=3000)
            if bb:
                vlib.digest_batch(chk, bb[0], bb[1], classify, st)
            bb = vlib.run_batch(chk, "%s rename -seed %d -n %d -out {out}" % (exe, chk.seed * 1000 + k, 600), model, "more_rename%d" % k,
                                timeout=3000)
            if bb:
                vlib.digest_batch(chk, bb[0], bb[1], classify, st)
            if any(kk is None for (kk, _, _) in st.get("specfail", [])):
                break

    vlib.conclude_differential(chk, state, more)
    chk.coverage["samples"] = samples
    chk.coverage["known_finding_texts"] = KNOWN_TEXT


def replay(chk, path):
    """A recorded case line is re-run through the sub-command that produced it where the line
    carries its input (rename / det: operation text; dedup: the fetch list); histories are
    re-generated from the seed by running the whole check."""
    r = json.load(open(path))
    case = r.get("case")
    lines = []
    if isinstance(case, str):
        lines = [case]
    elif isinstance(case, dict):
        lines = [e.get("case") for e in case.get("examples", []) if isinstance(e, dict) and e.get("case")]
    chk.coverage["rule"] = RULE
    _proofs(chk)
    ok, log = vlib.build_model("C09")
    ok2, log2, exe = vlib.build_harness("c09")
    if not (ok and ok2):
        chk.add_violation("tie:C09/build", (log + log2)[-2000:], found_input=False)
        return
    model = os.path.join(vlib.BIN, "model_c09")
    state = {}
    ren, jobs, ded = [], [], []
    for c in lines:
        m = re.match(r'\(c09 rename (\w+) \w+ "((?:[^"\\]|\\.)*)" "((?:[^"\\]|\\.)*)" "((?:[^"\\]|\\.)*)"', c)
        if m:
            un = lambda s: re.sub(r"\\([0-9a-f]{2})", lambda x: chr(int(x.group(1), 16)), s)
            ren.append("%s\t1\t%s\t%s\t%s" % (m.group(1), un(m.group(4)), un(m.group(3)), un(m.group(2))))
            continue
        m = re.match(r'\(c09 det (\w+) (\d+) "[^"]*" "[^"]*" "((?:[^"\\]|\\.)*)" "((?:[^"\\]|\\.)*)" "((?:[^"\\]|\\.)*)"', c)
        if m:
            un = lambda s: re.sub(r"\\([0-9a-f]{2})", lambda x: chr(int(x.group(1), 16)), s)
            jobs.append(json.dumps({"cfg": m.group(1), "useed": int(m.group(2)), "text": un(m.group(3)), "vars": un(m.group(4)),
                                    "name": un(m.group(5)), "style": "replay"}))
            continue
        m = re.match(r"\(c09 dedup (\w+) \(in(.*?)\) \((?:out|panic)", c)
        if m:
            fs = []
            for fm in re.finditer(r"\(lf (\d+) \(([\d ]*)\) (\d+) (\d+) \(path(.*?)\)\)(?= \(lf |$)", m.group(2)):
                pes = []
                for pm in re.finditer(r"\(pe (\w) \(([^)]*)\) \(([^)]*)\)\)", fm.group(5)):
                    pes.append("%s/%s/%s" % (pm.group(1), ".".join(x.strip('"') for x in pm.group(2).split()),
                                             ",".join(x.strip('"') for x in pm.group(3).split())))
                fs.append("%s:%s:%s:%s:%s" % (fm.group(1), ",".join(fm.group(2).split()), fm.group(3), fm.group(4), ";".join(pes)))
            ded.append("%s\t%s" % (m.group(1) if m.group(1) != "real" else "wf", " ".join(fs)))
    if not (ren or jobs or ded):
        chk.log("replay: the recorded case is a generated history; running the whole check with the recorded seed and tier")
        if isinstance(r.get("seed"), int):
            chk.seed = r["seed"]
        if r.get("tier") in ("quick", "thorough"):
            chk.tier = r["tier"]
        run(chk)
        return
    if ren:
        p = os.path.join(chk.work, "replay_rename.tsv")
        open(p, "w").write("\n".join(ren) + "\n")
        b = vlib.run_batch(chk, "%s renamecorpus -in %s -out {out}" % (exe, p), model, "replay_rename")
        if b:
            vlib.digest_batch(chk, b[0], b[1], classify, state)
    if jobs:
        p = os.path.join(chk.work, "replay_jobs.jsonl")
        open(p, "w").write("\n".join(jobs) + "\n")
        b = vlib.run_batch(chk, "%s det -jobs %s -procs 6 -reps 6 -opts all -out {out}" % (exe, p), model, "replay_det", timeout=1200)
        if b:
            vlib.digest_batch(chk, b[0], b[1], classify, state)
    if ded:
        p = os.path.join(chk.work, "replay_dedup.tsv")
        open(p, "w").write("\n".join(ded) + "\n")
        b = vlib.run_batch(chk, "%s dedup -in %s -out {out}" % (exe, p), model, "replay_dedup")
        if b:
            vlib.digest_batch(chk, b[0], b[1], classify, state)
    vlib.conclude_differential(chk, state, None)
