"""C07: subgraph failures are isolated (loader lab + loader model) -- see DESIGN.md."""
import os
import re
import threading

import vlib

RULE = ("resolve-level plans generated without the planner (loaderlab: response tree over a random entity universe, one root "
        "SingleFetch per subgraph, Entity/BatchEntity fetches at nested object/list positions with key and @requires-like "
        "representations, Sequence/Parallel trees by dependency level), each run fault-free and under fault sets keyed by fetch: "
        "every single (fetch, kind) for 16 kinds and for the 7 shapes of 'the selected data path holds null / a wrong kind / nothing' (_entities: null / {} / 'x', data: {} / 'x' / 1 / []; plain and one of the variants with an errors entry / status 500 / both; _entities items number / string / list), shape x ordinary-kind pairs, plus random subsets (quick: 30 per plan; thorough: the power set of the requested "
        "fetches when <= 6, else 2000). A second batch (mode chain) uses entity types with @requires chains of length 3-4 and further "
        "fields requiring a chain member (the provider of z depends on the provider of y, that on the provider of x, z's not on x's; a second "
        "fetch to one subgraph at one object where needed), inputs nullable in 5 of 6 plans, and in half of the plans extra root Single "
        "fetches with DependsOnFetchIDs on an entity / batch fetch. An evaluation is one (plan, fault set) run through resolve.Resolver; it is distinct by "
        "construction and non-trivial when the faults changed the response data relative to the fault-free run.")

KEYS = ["status-ignored-with-data", "taint-filters-independent-fetches"]   # wrong-kind-data-aborts-response: repaired (eb6ed70)   # taint-single-entity-fetch-ignored: repaired (00d2cc7)   # nan-accepted, entity-count-ignored, nullable-requires-null-sent: repaired in loader.go


def classify(case, detail):
    m = re.search(r"causes=\[([^\]]*)\]", detail)
    causes = [c for c in (m.group(1).split(",") if m else []) if c]
    clause = detail.split(" ", 1)[0]
    if clause in ("affected_null", "unaffected_equal") and "status-ignored-with-data" in causes:
        return "status-ignored-with-data"
    # exactly what the dependency-blind filter removes (evaluated by the driver: the data equals the reduced reference)
    if clause == "taint_isolated" and "[taint-filters-independent-fetches]" in detail:
        return "taint-filters-independent-fetches"
    return None


def _batch(chk, cmd, model, tag, timeout=1200):
    """run_batch, but a harness that dies (a panic inside a fetch goroutine of the resolver cannot be recovered
    by the harness) is a spec failure of the run named by the breadcrumb file, not a tool failure."""
    nv = len(chk.violations)
    b = vlib.run_batch(chk, cmd, model, tag, timeout=timeout)
    if b is None and len(chk.violations) > nv and chk.violations[-1]["kind"].endswith("/harness-run"):
        v = chk.violations[-1]
        crumb = os.path.join(chk.work, tag + ".cases.current")
        if "panic:" in v["detail"] or "fatal error:" in v["detail"]:
            where = open(crumb).read().rstrip("\n") if os.path.exists(crumb) else ""
            m = re.search(r"(panic: .*|fatal error: .*)", v["detail"])
            first = m.group(1)[:200] if m else ""
            frames = re.findall(r"resolve\.\(\*Loader\)\.\w+|resolve\.\w+", v["detail"])
            chk.violations[-1] = {"kind": "spec:valid_response", "found_input": True, "key": None,
                                  "detail": "valid_response the resolver crashed the process (no response at all): %s in %s; corpus line: %s"
                                            % (first, ", ".join(frames[:3]), where),
                                  "case": {"corpus_line": where, "replay": "harness/bin/c07 show -seed S -idx I -faults F"}}
    return b


def _fold(chk, state, b, totals):
    vlib.digest_batch(chk, b[0], b[1], classify, state)
    for (ln, status, detail) in b[1]:
        if status == "ok":
            parts = detail.split()
            if len(parts) >= 3:
                totals["nt"] += int(parts[1])
                totals["runs"] += int(parts[2])
                totals["plans"] = totals.get("plans", 0) + 1
                totals["wf"] = totals.get("wf", 0) + (1 if "wf=1" in detail else 0)
                totals["cons"] = totals.get("cons", 0) + (1 if "cons=1" in detail else 0)
                totals["wf_cons"] = totals.get("wf_cons", 0) + (1 if "wf=1 cons=1" in detail else 0)


def run(chk, extra_corpus=None):
    n = 220 if chk.tier == "quick" else 100     # thorough: 6 batches of 100 plans with power-set fault sets (~60k runs each)
    chk.coverage["rule"] = RULE
    chk.assumptions += [
        "Coq 8.16.1 kernel (coqc, full .vo build); vm_compute only in Examples and refutation witnesses",
        "extraction with ExtrOcamlBasic only; ocamlfind ocamlopt; ocaml/common/prelude.ml + ocaml/c07/driver.ml (S-expression readers, "
        "oracle table lookup, error-kind normalisation: loader errors as a multiset of (kind, fetch), value-completion errors as a set with array indices erased)",
        "harness/loaderlab (plan generator, entity universe as the pointwise subgraph oracle, scripted DataSources with fault injection, "
        "the reference data RefData built from the universe and the provider bookkeeping) and harness/cmd/c07 (error classification by message prefix, "
        "encoding/json.Valid as the JSON validity oracle)",
        "modelled by hand and tied by correspondence: loader.go (selectItems, prepare*Fetch, mergeResult, erroredFetchIDs), astjson Get/MergeValues on trees; "
        "the renderer is the shared C02 model. Abstracted: xxhash of a representation = its bytes; MergeValues compares numbers by raw token; "
        "Parallel children run in list order (C08 owns the schedules); tracing, authorization, rate limiting, "
        "MultiEntityFetch, pass-through error mode and single flight (each generated fetch has its own operation text) are outside the model",
        "tainted objects (ValidateRequiredExternalFields; coq/C07/ModelTaint.v): getTaintedIndices / selectObjectAndIndex / filterOutTainted and the taint "
        "bookkeeping of mergeResult, modelled by hand and tied by correspondence (mode taint); Loader.taintedObjs is keyed by pointer, the model by location "
        "in the data tree (aliases of one astjson value share a bucket); FetchInfo.FetchReasons is the parameter coords; decoding of the subgraph's errors "
        "array by encoding/json (appendSubgraphError) is not modelled: since 9b487a9 an undecodable entry no longer fails the merge (variant objpath); the spec clause taint_isolated (coq/C07/SpecTaint.v) "
        "takes the failed objects of the reference data from the lab (the entities whose representation the scripted subgraph saw at the failed positions, "
        "located by walking the universe along the fetch path) and the dependant / later fetch sets from the driver",
        "C02.Model.resolve is the renderer; c07_valid_json cites C02.Properties.resolve_refines_complete",
        "theorem hypotheses (all evaluated per generated plan by the driver, see distribution): fplan_wf (post-processing paths by kind, root single "
        "fetches, flat non-null representation variables under an on-type condition, no type-conditioned path elements, dependencies earlier in the tree), "
        "consistent (the fault-free run never overwrites or clashes), loud fault kinds; c07_unaffected_equal additionally: subgraph answers without duplicate "
        "object keys, an affected set closed under dependants, a faulty run that does not fail as a whole",
    ]
    chk.notes += [
        "finding still open: status-ignored-with-data (the status code is a documented fallback in mergeResult); repaired in loader.go and kept as passing "
        "corpus regressions: nan-accepted, entity-count-ignored, nullable-requires-null-sent, taint-single-entity-fetch-ignored (work/c07_fix_*.patch; the last one 00d2cc7, "
        "c07_taint_single_entity_refuted is its historical witness, harness/c07taint its Go regression); open: taint-filters-independent-fetches; not reachable by the generator (single provider per field) but proved and replayed: "
        "c07_response_merge_order_refuted = `harness/bin/c07 probe-null-object x x`",
    ]
    chk.proof_side(extra_dirs=["C02"])
    ok, log = vlib.build_model("C07")
    if not ok:
        chk.add_violation("tie:C07/model-build", log[-2000:], found_input=False)
        return
    ok, log, exe = vlib.build_harness("c07")
    if not ok:
        chk.add_violation("tie:C07/harness-build", log[-2000:], found_input=False)
        return
    model = os.path.join(vlib.BIN, "model_c07")
    state, totals, samples = {}, {"nt": 0, "runs": 0}, []
    corpus = extra_corpus or os.path.join(vlib.ROOT, "corpus", "C07", "cases.tsv")
    b = _batch(chk, "%s corpus -in %s -out {out}" % (exe, corpus), model, "corpus")
    if b:
        _fold(chk, state, b, totals)
        samples += [c[:600] for c in b[0][:1]]
    # the end-to-end half runs beside the loader-level batches (its own harness and files)
    try:
        import props.c07e as c07e
    except ImportError:
        c07e = None

    def e2e_part():
        try:
            c07e.run_part(chk)
        except Exception as ex:  # noqa: BLE001
            chk.add_violation("tie:C07/e2e-part", "tools/props/c07e.py failed: %r" % (ex,), found_input=False)
    e2e_th = threading.Thread(target=e2e_part) if c07e is not None else None
    if e2e_th:
        e2e_th.start()
    # `_entities` items / root `data` of a wrong kind (they aborted the resolve before eb6ed70) are injected by default
    abort = ""
    # the chain and taint batches (below) run beside the main batch
    nc = 60 if chk.tier == "quick" else 150
    nt_plans = 60 if chk.tier == "quick" else 400
    taint_box = []
    th2 = threading.Thread(target=lambda: taint_box.append(_batch(
        chk, "%s gen -seed %d -n %d -tier %s -mode taint -out {out}" % (exe, chk.seed, nt_plans, chk.tier), model, "taint", timeout=3000)))
    th2.start()
    chain_box = []
    th = threading.Thread(target=lambda: chain_box.append(_batch(
        chk, "%s gen -seed %d -n %d -tier %s -mode chain -out {out}" % (exe, chk.seed, nc, chk.tier) + abort, model, "chain", timeout=3000)))
    th.start()
    b = _batch(chk, "%s gen -seed %d -n %d -tier %s%s -out {out}" % (exe, chk.seed, n, chk.tier, abort), model, "gen", timeout=3000)
    th.join()
    th2.join()
    if b:
        _fold(chk, state, b, totals)
        samples += [c[:600] for c in b[0][:3]]
        kinds = {}
        for c in b[0]:
            for k in re.findall(r"\(fetch \d+ (single|entity|batch)", c):
                kinds[k] = kinds.get(k, 0) + 1
        chk.coverage["distribution"] = {
            "plans": len(b[0]), "fetch_kinds": kinds,
            "plans_with_parallel": sum(1 for c in b[0] if "(par " in c),
            "plans_with_requires": sum(1 for c in b[0] if re.search(r"\(meta \d+ \d+ \d+ t", c)),
            "plans_with_nullable_requires": sum(1 for c in b[0] if re.search(r"\(meta \d+ \d+ \d+ t t", c)),
            "plans_with_error_entities": sum(1 for c in b[0] if re.search(r"\(meta \d+ \d+ \d+ [tf] [tf] t", c)),
            "runs": totals["runs"], "runs_changing_data": totals["nt"],
            "plans_satisfying_plan_wf": totals.get("wf", 0), "plans_with_consistent_fault_free_run": totals.get("cons", 0),
            "plans_satisfying_both_theorem_hypotheses": totals.get("wf_cons", 0),
        }

    # @requires chains / DAGs and dependent Single fetches (mode chain): a dependant of a SKIPPED fetch that does not depend on
    # the failed fetch itself, mostly with nullable inputs (the representation still renders)
    b = chain_box[0] if chain_box else None
    if b:
        _fold(chk, state, b, totals)
        samples += [c[:600] for c in b[0][:1]]
        st = {"plans": len(b[0]), "plans_with_indirect_only_dependant": 0, "indirect_only_dependants_by_kind": {},
              "plans_with_indirect_only_dependant_and_parallel": 0, "plans_with_nullable_inputs": sum(1 for c in b[0] if re.search(r"\(meta \d+ \d+ \d+ t t", c))}
        for c in b[0]:
            fs = {int(i): (k, [int(x) for x in d.split()]) for (i, k, d) in
                  re.findall(r'\(fetch (\d+) (single|entity|batch) "s\d+" \(path.*?\) \(deps([ \d]*)\)', c)}
            hit = False
            for f, (k, deps) in fs.items():
                # f depends on d, d on a non-root fetch e, f not on e: when e fails, f is skipped only because d was recorded
                if any(e not in deps and fs[e][1] for d in deps for e in fs[d][1]):
                    hit = True
                    st["indirect_only_dependants_by_kind"][k] = st["indirect_only_dependants_by_kind"].get(k, 0) + 1
            if hit:
                st["plans_with_indirect_only_dependant"] += 1
                if "(par " in c[c.rindex("(tree"):]:
                    st["plans_with_indirect_only_dependant_and_parallel"] += 1
        if isinstance(chk.coverage.get("distribution"), dict):
            chk.coverage["distribution"]["chain_mode"] = st
            chk.coverage["distribution"]["runs"] = totals["runs"]
            chk.coverage["distribution"]["runs_changing_data"] = totals["nt"]

    # tainted objects (mode taint)
    b = taint_box[0] if taint_box else None
    if b:
        _fold(chk, state, b, totals)
        samples += [c[:600] for c in b[0][:1]]
        st = {"plans": len(b[0]), "plans_with_option_on": 0, "plans_with_parallel": 0, "fetches_with_nullable_requires_reasons": {},
              "partial_fault_runs": {}, "proper_runs_on_batch_with_duplicates_or_skipped_before_failed": 0, "runs_tainting_something": 0}
        for c in b[0]:
            m = re.search(r"\(taint \(vre ([tf])\) \(coords(.*)\)\)\)$", c)
            if not m:
                continue
            on = m.group(1) == "t"
            st["plans_with_option_on"] += 1 if on else 0
            if "(par " in c[c.rindex("(tree"):c.rindex("(prov")]:
                st["plans_with_parallel"] += 1
            kinds = dict(re.findall(r"\(fetch (\d+) (single|entity|batch)", c))
            for fid in re.findall(r'\((\d+) \("', m.group(2)):
                k = kinds.get(fid, "?")
                st["fetches_with_nullable_requires_reasons"][k] = st["fetches_with_nullable_requires_reasons"].get(k, 0) + 1
            for v in re.findall(r"\(faults(?: \(\d+ [a-z_]+\))* \(\d+ partial/(\w+)/", c):
                st["partial_fault_runs"][v] = st["partial_fault_runs"].get(v, 0) + 1
            st["runs_tainting_something"] += len(re.findall(r"\(l 7 \d+\)", c)) if on else 0
            # compacted before the failing entity: the number of objects failed exceeds the failed positions, or a failed object sits
            # at a list index beyond its response position
            for (idx, failed) in re.findall(r"\(faults \(\d+ partial/(?:ok|deep)/\w+/([\d+]+)\)\).*?\(failed((?: \([^()]*(?:\([^()]*\)[^()]*)*\))*)\)", c):
                ks = [int(x) for x in idx.split("+")]
                locs = re.findall(r"\(i (\d+)\)\)(?= |$)", failed)
                if len(ks) == 1 and locs and (len(locs) > 1 or int(locs[-1]) > ks[0]):
                    st["proper_runs_on_batch_with_duplicates_or_skipped_before_failed"] += 1
        if isinstance(chk.coverage.get("distribution"), dict):
            chk.coverage["distribution"]["taint_mode"] = st
            chk.coverage["distribution"]["runs"] = totals["runs"]
            chk.coverage["distribution"]["runs_changing_data"] = totals["nt"]

    def more(st):
        for k in range(1, 4):
            bb = _batch(chk, "%s gen -seed %d -n %d -tier %s -out {out}" % (exe, chk.seed * 1000 + k, n * 2, chk.tier), model, "more%d" % k, timeout=3000)
            if bb:
                _fold(chk, st, bb, totals)
            if any(kk is None for (kk, _, _) in st.get("specfail", [])):
                break

    if chk.tier == "thorough":
        for k in range(1, 6):
            bb = _batch(chk, "%s gen -seed %d -n %d -tier thorough -out {out}" % (exe, chk.seed * 100 + k, n), model, "gen%d" % k, timeout=3000)
            if bb:
                _fold(chk, state, bb, totals)
                os.remove(os.path.join(chk.work, "gen%d.cases" % k))

    vlib.conclude_differential(chk, state, more)
    chk.coverage["samples"] = samples
    # end-to-end half (real planner + ExecutionEngine over the fedlab), owned by tools/props/c07e.py: started above
    e2e = {}
    if e2e_th:
        e2e_th.join()
        e2e = chk.coverage.get("e2e_part", {}).get("totals", {})
    chk.coverage["evaluations"] = totals["runs"] + e2e.get("runs", 0)
    chk.coverage["distinct_nontrivial"] = totals["nt"] + e2e.get("runs_changing_data", 0)
    d = chk.coverage.get("distribution")
    if isinstance(d, dict) and e2e and "e2e_part" not in d:
        d["e2e_part"] = {"checked_cases": e2e.get("status", {}).get("checked", 0), "runs": e2e.get("runs", 0),
                         "runs_changing_data": e2e.get("runs_changing_data", 0), "requests_per_case": dict(e2e.get("requests_per_case", {})),
                         "fault_kinds_hit": {k[4:]: v for k, v in e2e.get("stats", {}).items() if k.startswith("hit_")}}


def replay(chk, path):
    import json
    r = json.load(open(path))
    case = r.get("case")
    chk.log("replay: %s" % (str(case)[:300]))
    if isinstance(case, dict) and case.get("corpus_line"):
        p = os.path.join(chk.work, "replay.tsv")
        with open(p, "w") as f:
            f.write(case["corpus_line"] + "\n")
        run(chk, extra_corpus=p)
        return
    m = re.search(r"\(meta (\d+) (\d+) \d+ [tf] [tf] [tf]( \w+)?\)", str(case))
    d = re.search(r"faults=\[([^\]]*)\]", r.get("detail", ""))
    if m:
        p = os.path.join(chk.work, "replay.tsv")
        with open(p, "w") as f:
            f.write("%s\t%s\t%s\t%s\n" % (m.group(1), m.group(2), (m.group(3) or "mixed").strip(), d.group(1) if d else ""))
        run(chk, extra_corpus=p)
    else:
        run(chk)
