"""C06: variable validation accepts exactly the coercible variable values -- see DESIGN.md."""
import os
import re

import vlib

RULE = ("(schema, operation, variables) triples: input type graphs (built-in and custom scalars, Upload, enums with "
        "@inaccessible values, input objects with required/optional/default fields, recursive and @oneOf input objects, "
        "lists of lists, non-null at every level; 1-4 case groups per schema), an operation declaring 1-3 variables "
        "(with and without defaults -- full, null, or needing list coercion at some depth --, sometimes named like the variables mapper's generated names), variables JSON derived "
        "from the declared types and then mutated (null / absent at some depth, unknown key, dropped field, wrong JSON kind, "
        "1.5 / 1e100 / 2147483648 for Int, fractional ID, single value for list, extra nesting, object for list, null "
        "element, oneOf with 0/2 keys or null, unknown / inaccessible enum value, JSON text inside strings) plus a "
        "malformed stream of type-unrelated JSON.  A case is distinct by the hash of its line and non-trivial when a "
        "mutation was applied or some variable value nests at least two levels deep.")

# int-accepts-non-int32 and id-accepts-non-integer-number are repaired in /repo (KNOWN_FINDINGS "fixed:"): they are
# no longer accepted as known, their corpus witnesses stay as regression cases (rejected now)
KEYS = {
    "upload-exempt-from-non-null": lambda c: '"Upload"' in c,
    "unknown-field-echo": lambda c: "unknown_field" in c,
}


def classify(case, detail):
    """narrow attribution: the driver names the cause only when repairing exactly that cause in the model makes
    the case satisfy the specification; here the cause's syntactic trigger must be present in the case too."""
    m = re.search(r"cause=([a-z0-9-]+)", detail)
    if not m:
        return None
    key = m.group(1)
    f = KEYS.get(key)
    if f is None or not f(case):
        return None
    return key


def distribution(cases):
    d = {"stage": {}, "mutations": {}, "error_kinds": {}, "vars": {}}
    for c in cases:
        m = re.search(r"\(pipe (\w+) ", c)
        if m:
            d["stage"][m.group(1)] = d["stage"].get(m.group(1), 0) + 1
        m = re.search(r'\(note "([^"]*)"\)', c)
        if m:
            for k in (m.group(1).split("+") if m.group(1) else ["none"]):
                d["mutations"][k] = d["mutations"].get(k, 0) + 1
        for k in re.findall(r"\(err (\w+) ", c):
            d["error_kinds"][k] = d["error_kinds"].get(k, 0) + 1
        m = re.search(r"\(vars (.*?)\) \(json ", c)
        if m:
            n = str(m.group(1).count("(some ") + m.group(1).count("(none)"))
            d["vars"][n] = d["vars"].get(n, 0) + 1
    return d


def run(chk):
    n = 3000 if chk.tier == "quick" else 200000
    chk.coverage["rule"] = RULE
    chk.assumptions += [
        "Coq 8.16.1 kernel (coqc, full .vo build); vm_compute only in Examples and refutation witnesses",
        "extraction with ExtrOcamlBasic only; ocamlfind ocamlopt; ocaml/common/prelude.ml + ocaml/c06/driver.ml "
        "(S-expression to Coq value conversion, the cause search over the model's quirk flags, the path reader)",
        "modelled by hand at the level of JSON / type TREES and tied by correspondence: variablesvalidation.go (all of it "
        "except the Apollo compatibility options), input_coercion_for_list.go, variables_default_value_extraction.go "
        "(EnterVariableDefinition only: the non-null upgrade of variables used in non-null positions is not exercised), "
        "inject_input_default_values.go, variables_mapping.go (names and order; use order = definition order); "
        "byte-level JSON handling (jsonparser, sjson, astjson, the 300 level depth limit, duplicate keys, escapes) is outside",
        "oracle: Model.reparse (jsonparser.Get on the unquoted content of a JSON string) is a Section variable in Coq; the "
        "driver instantiates it for the tokens {} [] null true false and numbers",
        "harness/cmd/c06: SDL / operation / JSON printers and the S-expression dump share one data structure; the message "
        "classifier is a list of regular expressions over the 11 templates of variablesvalidation.go",
        "specification readings: Int = JSON number token without fraction/exponent within 32 bits; Float = any JSON number; "
        "ID = string or integer token (of any size); a default value in the operation / schema is assumed valid for its type",
    ]
    chk.proof_side()
    ok, log = vlib.build_model("C06")
    if not ok:
        chk.add_violation("tie:C06/model-build", log[-2000:], found_input=False)
        return
    ok, log, exe = vlib.build_harness("c06")
    if not ok:
        chk.add_violation("tie:C06/harness-build", log[-2000:], found_input=False)
        return
    model = os.path.join(vlib.BIN, "model_c06")
    state = {}
    samples = []
    corpus = os.path.join(vlib.ROOT, "corpus", "C06", "cases.txt")
    b = vlib.run_batch(chk, "%s corpus -in %s -out {out}" % (exe, corpus), model, "corpus")
    if b:
        vlib.digest_batch(chk, b[0], b[1], classify, state)
        samples += [c[:600] for c in b[0][:2]]
        chk.coverage["corpus_cases"] = len(b[0])
    b = vlib.run_batch(chk, "%s gen -seed %d -n %d -out {out}" % (exe, chk.seed, n), model, "gen")
    if b:
        vlib.digest_batch(chk, b[0], b[1], classify, state)
        samples += [c[:600] for c in b[0][:4]]
        chk.coverage["distribution"] = distribution(b[0])

    def more(st):
        for k in range(1, 6):
            bb = vlib.run_batch(chk, "%s gen -seed %d -n %d -out {out}" % (exe, chk.seed * 1000 + k, n * 4), model, "more%d" % k)
            if bb:
                vlib.digest_batch(chk, bb[0], bb[1], classify, st)
            if any(kk is None for (kk, _, _) in st.get("specfail", [])):
                break

    vlib.conclude_differential(chk, state, more)
    chk.coverage["samples"] = samples
    causes = {}
    for (k, _, d) in state.get("specfail", []):
        causes[k or "unattributed"] = causes.get(k or "unattributed", 0) + 1
    chk.coverage["spec_failures_by_cause"] = causes


def replay(chk, path):
    """re-executes exactly the recorded case: its inputs are fed to the current implementation again and the
    fresh observables go through the model and the spec checkers."""
    import json
    r = json.load(open(path))
    case = r.get("case")
    lines = []
    if isinstance(case, str) and case.startswith("(c06 "):
        lines = [case]
    elif isinstance(case, dict):
        lines = [e["case"] for e in case.get("examples", []) if isinstance(e.get("case"), str)]
    chk.coverage["rule"] = RULE
    chk.proof_side()
    ok, log = vlib.build_model("C06")
    ok2, log2, exe = vlib.build_harness("c06")
    if not (ok and ok2) or not lines:
        chk.add_violation("tie:C06/replay", "cannot replay: %s" % ((log + log2)[-500:] or "no case line in the replay file"),
                          found_input=False)
        return
    src = os.path.join(chk.work, "replay.in")
    with open(src, "w") as f:
        f.write("\n".join(lines) + "\n")
    state = {}
    b = vlib.run_batch(chk, "%s replay -in %s -out {out}" % (exe, src), os.path.join(vlib.BIN, "model_c06"), "replay")
    if b:
        vlib.digest_batch(chk, b[0], b[1], classify, state)
        chk.coverage["samples"] = [c[:600] for c in b[0][:2]]
        for (ln, st, d) in b[1]:
            chk.log("replay line %d: %s %s" % (ln, st, d[:300]))
    vlib.conclude_differential(chk, state, None)
