"""C01p: translation validation of REAL plans -- a part of the C01 check (run_part), runnable on its own:

    python3 tools/props/c01p.py [--tier quick|thorough] [--seed N]

For every generated (configuration, operation) pair the real planner's plan is dumped (harness/cmd/c01p), translated
to the Coq plan form (a plan TREE, coq/C01/ProofsPlan3.v; fallback: the depth-1 form of ProofsPlan2.v) and given to the
verified validator `tv3_static_b` (`tv2_static_b`) extracted into bin/model_c01p (ocaml/c01p/driver.ml).  By theorem
`tv3_sound` / `tv4_sound` / `tv5_sound` (coq/C01/ProofsPlan3Main.v; `tv2_sound`, ProofsTvMain.v) acceptance means: for EVERY
universe of the contract `univ3_contract_b` (`univ4_contract_b` for trees with positions resolved per runtime type: interface /
union positions; `univ5_contract_b` with keys with one level of nesting) the gateway model executing that plan returns what a single server over the supergraph returns for the client's
operation.  The translation is checked, not trusted: the model's own requests must be the
real plan's requests and the requests of real end-to-end runs, and the extracted model run on the sampled universes
must return the real gateway's response."""
import glob
import json
import os
import re
import sys
import time

if __name__ == "__main__":
    sys.path.insert(0, os.path.dirname(os.path.dirname(os.path.abspath(__file__))))
import vlib

ASSUMPTIONS = [
    "plan translation validation (C01p): the theorems tv3_sound / tv4_sound / tv5_sound / tv2_sound are about the gateway MODEL gateway3 / gateway2 "
    "(coq/C01/ProofsPlan3.v, ProofsPlan2.v: one Sub-mode request per root subgraph, the answers merged and read in the client's "
    "order; then, recursively at every object of the response, the entity fetches of that position -- one _entities request per "
    "object, representation read off the object as merged so far --, the members assembled in the client's order from the sources, "
    "planner-added fields never rendered, non-null violations propagated as the renderer does; at an interface / union position the "
    "plan tree of the object's runtime type is chosen by the __typename member of the source's object); that the real loader + renderer "
    "execute the dumped plan as the model does is not proved here: it is tied by (a) the request comparison of this part (model "
    "requests == fetches of the real plan; every request of real end-to-end runs is one of the model's, modulo printing, batching of "
    "the per-object entity requests and single flight), (b) the extracted gateway3 run on the sampled universes == the real gateway "
    "response, member for member (runs that agree only up to the ORDER of object members are counted in member_order_differences: "
    "the engine's response tree keeps one occurrence of a field selected both under a type condition and without), and by the "
    "loader / renderer / scheduler models of C02, C07, C08",
    "C01p trusted base: harness/cmd/c01p (planning with the engine's own recipe -- normalise, validate, extract + map variables, "
    "plan.Planner, postprocess.Processor --, dump of fetch tree / request templates / representation templates; the upstream query "
    "texts are parsed with the repo's parser and dumped by fedlab.DumpDocument), ocaml/c01p/driver.ml (reader, the canonical form "
    "used to compare requests, canon_doc_t: WITH the schema of the subgraph the request goes to, per object type the selection "
    "set can be evaluated on, the set of fields it collects there (inline fragments resolved as CollectFields does, the fields of "
    "one response key merged) -- two requests of one canonical form ask every object the subgraph can return for the same fields; "
    "unused variable definitions dropped; an entity request with several `... on T` parts is compared part by part with the model's "
    "one-type requests; identical requests of one execution counted once -- single flight, C11), ocaml/common/gqlread.ml, "
    "extraction (ExtrOcamlBasic)",
    "C01p: the theorem is about the operation the planner is given (normalised, fragment spreads inlined, literals extracted into "
    "variables, variables renamed; the planner's own placeholder `__internal_...: __typename`, put where @skip / @include leave a "
    "selection set empty, asked of the subgraph and never rendered, is no part of it); that normalisation preserves the client operation's meaning is property C03; configurations "
    "satisfy harness/fedlab/CONTRACT.md; the universe contract univ3_contract_b / univ4_contract_b / univ5_contract_b (objects reached through a subgraph's fields have "
    "types the subgraph declares, declared keys identify entities, key fields and @requires inputs are plain non-null leaves, "
    "computed (@requires) fields only where declared; univ4: every entity has a declared object type; univ5: a declared key with one level of nesting identifies the entities of its type, its nested fields refer to existing entities with plain non-null inner leaves; nothing is assumed about the values of list-typed fields) is evaluated on every sampled universe and the "
    "count reported",
]

PENDING = re.compile(r"pending\(([a-z_]+)\)")


def _pair_id(detail):
    m = re.search(r'\(id (\d+) (\d+) (\d+) "([^"]*)" "([^"]*)"\)', detail)
    return m.groups() if m else None


def _search(exe, pid, unis, timeout=120):
    """universe search for one pair: a concrete universe on which gateway != monolith, or None"""
    seed, cfg, op, knobs, src = pid
    if src.startswith("corpus"):
        return None, "corpus pair (universes are fixed)"
    rc, out = vlib.sh("%s search -seed %s -cfg %s -op %s -src %s -knobs %s -exact 1 -ufrom 1 -unis %d" % (
        exe, seed, cfg, op, src, knobs if knobs else "none", unis), cwd=vlib.ROOT, timeout=timeout, env=vlib.GOENV)
    if rc != 0:
        return None, "search failed: " + out[-300:]
    m = re.search(r"\(search \(disagree (\d+)\)", out)
    if m:
        return out.strip()[:6000], "universe %s" % m.group(1)
    return None, out.strip()[:200]


def run_part(chk, n_cfg=None, unis=None, knobs="all2"):
    """Builds, runs the corpus first, then generated pairs; fills chk.coverage['plan_validation'], adds violations."""
    t0 = time.time()
    quick = chk.tier == "quick"
    if n_cfg is None:
        n_cfg = 30 if quick else 400
    if unis is None:
        unis = 1 if quick else 3
    for a in ASSUMPTIONS:
        if a not in chk.assumptions:
            chk.assumptions.append(a)
    pv = {"pairs": 0, "in_fragment": 0, "accepted": 0, "accepted_nontrivial": 0, "rejected_by_feature": {},
          "pending_proof": {}, "rejected_in_fragment": 0, "translation_check_failures": 0,
          "accepted_by_theorem": {}, "max_fetch_depth": 0,
          "universes_run": 0, "universes_in_contract": 0,
          "theorem": "tv3_sound (plan trees) / tv4_sound (+ positions resolved per runtime type) / tv5_sound (+ keys with one level of nesting), "
                     "coq/C01/ProofsPlan3Main.v, Properties.v plan_tree_valid_all_universes / plan_tree_abstract_valid_all_universes / "
                     "plan_tree_nested_keys_valid_all_universes; fallback tv2_sound (depth 1, coq/C01/ProofsTvMain.v)"}
    chk.coverage["plan_validation"] = pv
    ok, log = vlib.build_model("C01p")
    if not ok:
        chk.add_violation("tie:C01p/model-build", log[-2000:], found_input=False)
        return pv
    ok, log = vlib.build_model("Exec")
    if not ok:
        chk.add_violation("tie:C01p/exec-build", log[-2000:], found_input=False)
        return pv
    ok, log, exe = vlib.build_harness("c01p")
    if not ok:
        chk.add_violation("tie:C01p/harness-build", log[-2000:], found_input=False)
        return pv
    model = os.path.join(vlib.BIN, "model_c01p")
    work = os.path.join(vlib.WORK, "c01p")
    os.makedirs(work, exist_ok=True)
    batches = []
    corpus = os.path.join(vlib.ROOT, "corpus", "C01p")
    if glob.glob(os.path.join(corpus, "*.json")):
        batches.append(("corpus", "%s replay -in %s -out {out}" % (exe, corpus)))
    batches.append(("gen", "%s gen -seed %d -from 0 -n %d -fedops 5 -dirops 5 -unis %d -knobs %s -out {out}" % (exe, chk.seed, n_cfg, unis, knobs)))
    samples = []
    for tag, cmd in batches:
        cases = os.path.join(work, "%s-%s.cases" % (chk.tier, tag))
        res = os.path.join(work, "%s-%s.res" % (chk.tier, tag))
        rc, out = vlib.sh(cmd.format(out=cases), cwd=vlib.ROOT, timeout=1500, env=vlib.GOENV)
        if rc != 0:
            chk.add_violation("tie:C01p/harness-run", "%s: rc=%s %s" % (tag, rc, out[-1500:]), found_input=False)
            continue
        rc, out = vlib.sh("%s %s %s" % (model, cases, res), cwd=vlib.ROOT, timeout=1500)
        if rc != 0:
            chk.add_violation("tie:C01p/driver-run", "%s: rc=%s %s" % (tag, rc, out[-1500:]), found_input=False)
            continue
        lines = vlib.read_lines(cases)
        if tag == "corpus":
            pv["corpus_pairs"] = len(lines)
        summary_seen = set()
        for (ln, status, detail) in vlib.read_results(res):
            case = lines[ln - 1] if 0 < ln <= len(lines) else ""
            pid = _pair_id(detail)
            if status == "error":
                chk.add_violation("tie:C01p/driver-error", detail[:1500], case=case[:6000], found_input=True)
                continue
            if status == "mismatch":
                # the translation check failed (or an accepted plan differs on a contract universe)
                pv["translation_check_failures"] += 1
                kind = detail.split(" ", 1)[0]
                chk.add_violation(kind, detail[:3000], case=case[:20000], found_input=True,
                                  key=None)
                continue
            # ok / specfail: one summary per pair
            if (tag, ln) in summary_seen:
                continue
            summary_seen.add((tag, ln))
            pv["pairs"] += 1
            m = re.search(r'\(outside "([^"]*)"\)', detail)
            if m:
                for f in m.group(1).split("+"):
                    pv["rejected_by_feature"][f] = pv["rejected_by_feature"].get(f, 0) + 1
                continue
            pv["in_fragment"] += 1
            mu = re.search(r"\(mutants (\d+) (\d+)\)", detail)
            if mu:
                pv["selftest_mutants_rejected"] = pv.get("selftest_mutants_rejected", 0) + int(mu.group(1))
                pv["selftest_mutants"] = pv.get("selftest_mutants", 0) + int(mu.group(2))
            c = re.search(r"\(contract (\d+) (\d+)\)", detail)
            if c:
                pv["universes_in_contract"] += int(c.group(1))
                pv["universes_run"] += int(c.group(2))
            od = re.search(r"\(member_order_diffs (\d+)\)", detail)
            if od and int(od.group(1)) > 0:
                # the real gateway's response equals the model's (hence the monolith's) up to the order of object members
                pv["member_order_differences"] = pv.get("member_order_differences", 0) + int(od.group(1))
                pv.setdefault("member_order_sample", " ".join(pid) if pid else "")
            gd = re.search(r"\(gateway_differs (\d+)\)", detail)
            if gd and int(gd.group(1)) > 0:
                # valid plan (theorem), model == monolith, all requests the model's -- the engine's response differs: a defect after
                # fetching (response tree / rendering); the divergence itself is reported by the C01 data check with its own keys
                pv["valid_plan_gateway_differs"] = pv.get("valid_plan_gateway_differs", 0) + 1
                pv.setdefault("valid_plan_gateway_differs_samples", [])
                if pid and len(pv["valid_plan_gateway_differs_samples"]) < 5:
                    pv["valid_plan_gateway_differs_samples"].append("seed %s cfg %s op %s %s" % (pid[0], pid[1], pid[2], pid[4]))
            if "(abstract true)" in detail and "(accepted true)" in detail:
                pv["accepted_with_abstract_selection"] = pv.get("accepted_with_abstract_selection", 0) + 1
            if "(accepted true)" in detail:
                pv["accepted"] += 1
                thm = re.search(r"\(theorem (\w+)\)", detail)
                th = thm.group(1) if thm else "tv2_sound"
                pv["accepted_by_theorem"][th] = pv["accepted_by_theorem"].get(th, 0) + 1
                dm = re.search(r"\(depth (\d+)\)", detail)
                if dm:
                    pv["max_fetch_depth"] = max(pv["max_fetch_depth"], int(dm.group(1)))
                if status == "ok" and detail.startswith("nt"):
                    pv["accepted_nontrivial"] += 1
                    if len(samples) < 3:
                        samples.append(detail[:600])
                continue
            why = re.search(r'\(why "([^"]*)"\)', detail)
            why = why.group(1) if why else ""
            pm = PENDING.search(why)
            if pm:
                pv["pending_proof"][pm.group(1)] = pv["pending_proof"].get(pm.group(1), 0) + 1
                continue
            # rejected inside the fragment: the plan may really be unsound -- search a universe
            pv["rejected_in_fragment"] += 1
            hyp = why.split(":", 1)[1] if ":" in why else why
            found, note = (None, "")
            if "(e2e DISAGREE" in detail:
                found, note = case[:20000], "the recorded run already disagrees"
            elif pid:
                found, note = _search(exe, pid, 8 if quick else 40)
            if found:
                chk.add_violation("plan_ok/rejected-in-fragment",
                                  "validator rejects (%s) and gateway != monolith on %s: %s" % (hyp, note, detail[:1500]),
                                  case=found, found_input=True, key="c01p:" + re.sub(r"\(.*", "", hyp))
            else:
                chk.add_violation("plan_ok/rejected-in-fragment",
                                  "validator rejects the real plan; failed hypothesis of tv3_sound / tv2_sound: %s; no universe with gateway != monolith "
                                  "found (%s): %s" % (hyp, note, detail[:1500]),
                                  case=case[:20000], found_input=False, key="c01p:" + re.sub(r"\(.*", "", hyp))
    pv["samples"] = samples
    # self-test: defects planted into accepted translations (wrong subgraph, representation without key, a fetched field
    # asked of the root subgraph) must be refused; a wrong subgraph may legitimately be accepted when it owns the fields too
    if pv.get("selftest_mutants", 0) > 0 and pv.get("selftest_mutants_rejected", 0) * 10 < pv["selftest_mutants"] * 6:
        chk.add_violation("tie:C01p/selftest", "only %d of %d planted plan defects were refused by the validator" % (
            pv.get("selftest_mutants_rejected", 0), pv["selftest_mutants"]), found_input=False)
    pv["wall_s"] = round(time.time() - t0, 1)
    return pv


def main():
    tier, seed = "quick", 1
    a = sys.argv[1:]
    while a:
        if a[0] == "--tier":
            tier, a = a[1], a[2:]
        elif a[0] == "--seed":
            seed, a = int(a[1]), a[2:]
        else:
            a = a[1:]

    class Chk:  # the part of vlib.Check run_part uses, without touching evidence/ or replays/
        def __init__(self):
            self.tier, self.seed, self.coverage, self.assumptions, self.violations = tier, seed, {}, [], []

        def add_violation(self, kind, detail, case=None, found_input=True, key=None):
            self.violations.append({"kind": kind, "detail": detail, "found_input": found_input, "key": key})

    chk = Chk()
    pv = run_part(chk)
    print(json.dumps(pv, indent=1, sort_keys=True))
    for v in chk.violations:
        print("VIOLATION %s%s key=%s :: %s" % (v["kind"], "" if v["found_input"] else " no-failing-input-found", v["key"], v["detail"][:700]))
    sys.exit(1 if chk.violations else 0)


if __name__ == "__main__":
    main()
