"""C04: operation validation accepts exactly the spec-valid operations -- see DESIGN.md."""
import os
import re

import vlib

RULE = ("generated schemas (objects, interfaces incl. interface-implements-interface, unions, enums, input objects with "
        "defaults / recursion / oneOf, custom scalars, custom directives with locations and repeatable, custom root names); "
        "documents valid by construction (nested selections, aliases, arguments of every input type as literals and "
        "variables, named and inline fragments on abstract types, overlapping mergeable fields through several fragment "
        "paths, @skip/@include, custom directives, variable defaults, queries/mutations/subscriptions, introspection) and "
        "the same with ONE rule-targeted mutation (39 operators) in the reachable part -- among them repeated-directive-lost: "
        "two mergeable selections (same leaf field, same field with selections, inline fragments with one type condition, "
        "two fragment spreads, either side by side or arriving through fragments) carry repeated applications of a "
        "repeatable directive, exactly one of them invalid (wrong type, null for non-null, undefined variable, unknown "
        "argument, missing required argument), in lists that are equal as sets / shorter / longer / single; the valid "
        "documents carry the same pairs with valid applications; plus a stream of fragment-free "
        "documents with repeated fields (a third of them with repeated directive applications) for the merge model; for every document Go's normalised form is also fed to the "
        "FieldSelectionMerging rule alone and compared with its model. A case is distinct by the hash of its line and "
        "non-trivial when the document contains a fragment on an abstract type or a variable, or is a mutant (merge "
        "stream: the model changed the document; overlap stream: the rule rejected).")

# known-finding classification: narrow keys, decided from the failing rule families of the document Go
# effectively validates (erules), the mutation operator label, Go's stage / family / message


def fields_of(detail):
    m = re.search(r"\(go=(\w+) spec=(\w+) rules=\[([^\]]*)\] kind=(\w+) op=(\S*) stage=(\S*) family=(\S*) eff=(\S+) erules=\[([^\]]*)\]\)", detail)
    if not m:
        return None
    return {"go": m.group(1), "spec": m.group(2), "rules": [x for x in m.group(3).split(",") if x], "kind": m.group(4),
            "op": m.group(5), "stage": m.group(6), "family": m.group(7), "eff": m.group(8),
            "erules": [x for x in m.group(9).split(",") if x]}


def unq(s):
    return re.sub(r"\\([0-9a-f]{2})", lambda m: chr(int(m.group(1), 16)), s)


def classify(case, detail):
    g = re.search(r'\(go (\w) "([^"]*)" "([^"]*)" "([^"]*)"\)\)$', case)
    msg = unq(g.group(4)) if g else ""
    if detail.startswith("total:"):
        return None
    f = fields_of(detail)
    if f is None:
        return None
    # repaired in /repo (work/c04_fix_*.patch) and therefore no longer mapped -- a regression is a VIOLATION:
    #   args-order-sensitive, typename-excluded-from-merging, enum-fields-not-compared, composite-fields-not-compared,
    #   leaf-vs-composite-not-compared, requirement-dropped-after-kind-mismatch, variable-default-not-const,
    #   nested-variable-type-unchecked, nested-variable-location-default-ignored, union-fragment-in-union-rejected,
    #   duplicate-fragment-name-ignored
    if f["go"] == "accept" and f["spec"] == "invalid":
        if f["eff"] == "explains:static-skip":
            return "static-skip-hides-errors"
        # (the directive-level part of fragment-definition-directives-unvalidated -- undefined or repeated directives on a
        #  fragment definition -- was repaired in /repo, work/fix3_fragment-definition-directives-unvalidated.patch: the
        #  driver reports it as eff=fragdef-dirs-prevalidated, which is not mapped; the arguments of such directives stay)
        if f["eff"] == "explains:fragdef-dir-args":
            return "fragment-definition-directives-unvalidated"
        keys = []
        for r in f["erules"]:
            k = None
            if r == "merge" and "interface-vs-unrelated-object" in f["op"]:
                k = "interface-vs-unrelated-object-not-compared"
            if k is None:
                return None
            keys.append(k)
        return keys[0] if keys else None
    if f["go"] == "reject" and f["spec"] == "valid" and f["stage"] == "validate":
        if f["family"] == "directive-location" and "not allowed on node of kind: INLINE_FRAGMENT" in msg:
            return "spread-directive-relocated"
        if f["family"] == "fragment-spread-impossible" and "covariant-narrowing" in detail:
            return "flattened-interface-fragment-narrows-field-type"
    return None


def digest(chk, b, state):
    """digest_batch, then every new disagreement is stored WITH its schema: the case gets a second line in the corpus
    format (case "schema SDL" "query" "operation name"|(none) "label"), which `harness/bin/c04 corpus` replays."""
    n0 = len(state.get("specfail", []))
    vlib.digest_batch(chk, b[0], b[1], classify, state)
    sdl = {}
    for c in b[0]:
        m = re.match(r'\(c04schema (\d+) .* ("[^"]*")\)$', c)
        if m:
            sdl[m.group(1)] = m.group(2)
    sf = state.get("specfail", [])
    for i in range(n0, len(sf)):
        (k, c, d) = sf[i]
        m = re.match(r'\(c04 (\d+) \(meta (\w+) "([^"]*)" \(feat[^)]*\) ("[^"]*")\)', c)
        o = re.search(r' ("[^"]*"|\(none\)) \(go \w "[^"]*" "[^"]*" "[^"]*"\)\)$', c)
        if m and o and m.group(1) in sdl:
            label = "valid" if m.group(2) == "valid" else m.group(3)
            sf[i] = (k, c + '\n(case %s %s %s "%s")' % (sdl[m.group(1)], m.group(4), o.group(1), label), d)


def _admission_calls(src):
    """The option / rule lists of the Normalize and ValidateForSchema calls of an admission sequence, in source order."""
    out = []
    for m in re.finditer(r"\.(Normalize|ValidateForSchema)\(", src):
        i, depth = m.end(), 1
        while i < len(src) and depth:
            depth += {"(": 1, ")": -1}.get(src[i], 0)
            i += 1
        out.append((m.group(1), re.findall(r"\b(?:astnormalization|astvalidation)\.(\w+)\(", src[m.end():i])))
    return out


def admission_tie(chk):
    """harness/cmd/c04/pipeline.go replicates the admission calls of ExecutionEngine.Execute; the replica is compared
    with the engine's source on every run (the prevalidation list decides what is checked before fragment definitions
    and statically skipped selections are dissolved)."""
    import anchors
    try:
        eng = anchors.func_body(open(os.path.join(vlib.REPO, "execution/engine/execution_engine.go")).read(), "Execute")
        rep = anchors.func_body(open(os.path.join(vlib.ROOT, "harness/cmd/c04/pipeline.go")).read(), "admit")
    except (OSError, anchors.AnchorError) as e:
        chk.add_violation("tie:C04/admission-sequence", "cannot read the admission sequence: %s" % e, found_input=False)
        return
    a, b = _admission_calls(eng)[:3], _admission_calls(rep)[:3]
    chk.coverage["admission_sequence"] = ["%s(%s)" % (k, ", ".join(v)) for (k, v) in a]
    if a != b or len(a) != 3:
        chk.add_violation("tie:C04/admission-sequence",
                          "ExecutionEngine.Execute admits with %r, harness/cmd/c04/pipeline.go replicates %r" % (a, b),
                          found_input=False)


def run(chk, replay_corpus=None):
    admission_tie(chk)
    n = 1000 if chk.tier == "quick" else 50000
    nm = 300 if chk.tier == "quick" else 5000
    chk.coverage["rule"] = RULE
    chk.assumptions += [
        "Coq 8.16.1 kernel (coqc, full .vo build); vm_compute only in Examples and refutation witnesses",
        "extraction with ExtrOcamlBasic only; ocamlfind ocamlopt; ocaml/common/prelude.ml + gqlread.ml + ocaml/c04/driver.ml "
        "(the driver's pruning of statically skipped selections is used ONLY to classify disagreements, never for a verdict)",
        "harness/cmd/c04: dumpers of ast.Document / merged schema document to the FEDLAB forms (self-checked against the "
        "generator's own tree), the replication of the three admission calls of execution/engine.Execute in pipeline.go (its option and rule lists "
        "are compared with the engine's source on every run: tie:C04/admission-sequence), "
        "the classification of Go's first error by message template",
        "coq/C04/Spec.v is a hand transcription of the GraphQL specification section 5 (October 2021 + OneOf input objects); "
        "the Go validator itself is NOT modelled: Go's verdict is compared with the extracted spec_valid_b; only the "
        "normaliser's field-merging / leaf de-duplication passes and the validator's FieldSelectionMerging rule are "
        "modelled (coq/C04/Model.v) and tied by corr:C04/merge and corr:C04/overlap",
        "lib/Exec.v reference executor (spec_valid_exec_safe is a theorem about it, not about the Go resolver)",
    ]
    chk.proof_side()
    ok, log = vlib.build_model("C04")
    if not ok:
        chk.add_violation("tie:C04/model-build", log[-2000:], found_input=False)
        return
    ok, log, exe = vlib.build_harness("c04")
    if not ok:
        chk.add_violation("tie:C04/harness-build", log[-2000:], found_input=False)
        return
    model = os.path.join(vlib.BIN, "model_c04")
    state = {}
    samples = []
    corpus = os.path.join(vlib.ROOT, "corpus", "C04", "cases.txt")
    b = vlib.run_batch(chk, "%s corpus -in %s -out {out}" % (exe, corpus), model, "corpus")
    if b:
        digest(chk, b, state)
    if replay_corpus:
        # the stored (schema, operation) of a replay file goes through the admission sequence again
        b = vlib.run_batch(chk, "%s corpus -in %s -out {out}" % (exe, replay_corpus), model, "replay")
        if b:
            digest(chk, b, state)
    b = vlib.run_batch(chk, "%s gen -seed %d -n %d -out {out}" % (exe, chk.seed, n), model, "gen")
    nschema = 0
    if b:
        digest(chk, b, state)
        nschema += sum(1 for c in b[0] if c.startswith("(c04schema"))
        samples += [c[:600] for c in b[0] if c.startswith("(c04 ")][:3]
        dist = os.path.join(chk.work, "gen.cases.dist")
        if os.path.exists(dist):
            import json
            chk.coverage["distribution"] = json.load(open(dist))
        chk.coverage.setdefault("distribution", {})["overlap_rule_stream"] = {
            "cases": sum(1 for c in b[0] if c.startswith("(c04overlap")),
            "rule_rejected": sum(1 for r in b[1] if r[1] == "ok" and "overlap-reject" in r[2]),
        }
    b = vlib.run_batch(chk, "%s merge -seed %d -n %d -out {out}" % (exe, chk.seed, nm), model, "merge")
    if b:
        digest(chk, b, state)
        nschema += sum(1 for c in b[0] if c.startswith("(c04schema"))
        samples += [c[:600] for c in b[0] if c.startswith("(c04merge")][:2]
        chk.coverage.setdefault("distribution", {})["merge_stream"] = {
            "cases": sum(1 for c in b[0] if c.startswith("(c04merge")),
            "model_changed_document": sum(1 for r in b[1] if r[1] == "ok" and r[2].startswith("nt") and b[0][r[0] - 1].startswith("(c04merge")),
            "distinguishes_repaired_from_unrepaired_merge": sum(1 for r in b[1] if "discriminates-prefix-model" in r[2]),
        }

    def more(st):
        for k in range(1, 4):
            bb = vlib.run_batch(chk, "%s gen -seed %d -n %d -out {out}" % (exe, chk.seed * 1000 + k, n * 3), model, "more%d" % k)
            if bb:
                digest(chk, bb, st)
            bb = vlib.run_batch(chk, "%s merge -seed %d -n %d -out {out}" % (exe, chk.seed * 1000 + k, nm * 3), model, "moremerge%d" % k)
            if bb:
                digest(chk, bb, st)
            if any(kk is None for (kk, _, _) in st.get("specfail", [])):
                break

    vlib.conclude_differential(chk, state, more)
    # schema lines carry no verdict
    chk.coverage["evaluations"] = max(0, chk.coverage.get("evaluations", 0) - nschema)
    chk.coverage["samples"] = samples
    by_key = {}
    for (k, c, d) in state.get("specfail", []):
        by_key[k or "UNCLASSIFIED"] = by_key.get(k or "UNCLASSIFIED", 0) + 1
    chk.coverage["disagreements_by_key"] = by_key


def replay(chk, path):
    import json
    r = json.load(open(path))
    chk.log("replay: %s" % str(r.get("case"))[:400])
    lines = [l for l in str(r.get("case")).split("\n") if l.startswith("(case ")]
    path2 = None
    if lines:
        path2 = os.path.join(chk.work, "replay_corpus.txt")
        with open(path2, "w") as f:
            f.write("\n".join(lines) + "\n")
    run(chk, path2)
