"""C20: gRPC datasource answers are consistent projections of the service data -- see DESIGN.md.

Builder model (coq/C20): json_builder.go + the result assembly of DataSource.Load.
Tie: harness/cmd/c20 drives the real DataSource.Load against the repo's mapped schema and mock
service; the extracted model is run on the dumped plans + protobuf trees (corr:C20/build) and the
extracted spec checkers on the implementation's JSON (S1 shape, S2 consistency, S3 projection of the
service data: null-ness / list lengths / abstract member / scalar leaves against the dumped protobuf
answers, positions aligned by schema + GRPCMapping only)."""
import json
import os
import re

import vlib

RULE = ("a group = one generated valid operation over v2/pkg/grpctest's schema (query / mutation / _entities, nested "
        "selections, lists, nullable and nested lists, unions / interfaces with inline fragments and __typename, "
        "field resolvers, @requires fields, arguments from a small value pool) plus 2-3 reformulations of it "
        "(alias, reorder, duplicate, move into inline / named fragment, subset; 1-3 steps each), every run through "
        "normalisation and the real DataSource.Load over in-process gRPC. A group is distinct by the hash of its "
        "case line and non-trivial when some reformulation differs from the base operation in more than field "
        "order, or the base selection has depth >= 3.")

# Repaired (no mapping any more, a regression is a VIOLATION): repeated-enum-argument-panic,
# call-selection-alias-duplicate-dropped, nested-resolver-null-parent, concurrent-load-validfields-race,
# entity-batch-mixed-types, resolver-under-list-wrapper.
# Known defects: every key needs its structural precondition to be present in the failing run
# (tags = position contexts of the field-resolver / @requires fields of the run: a abstract type,
# n nullable-or-nested list, o nullable object, l plain list, r below a resolver, p below a plain field
# of a resolver's result, q below a @requires field, e entity root).
UNSUPPORTED_ABSTRACT = "field resolvers below a union or interface value are not supported"


def classify(case, detail):
    m = re.search(r" feat=(\w+) tags=(\S*) run=", detail)
    tags = [t for t in m.group(2).split(",") if t] if m else []
    res_ctx = [t.split(":", 1)[1] for t in tags if t.startswith("resolver:")]
    # resolver-in-abstract-fragment: since the repair of the panic, Load answers with this error (only)
    if detail.startswith("shape/errors") and UNSUPPORTED_ABSTRACT in detail and any("a" in c for c in res_ctx):
        return "resolver-in-abstract-fragment"
    # resolver-below-plain-field-of-resolver: the only keys missing are field resolvers at such positions
    missing = re.search(r"why=missing-key:(\S+)", detail)
    if missing:
        kinds = [k.split(":") for k in missing.group(1).split(",")]
        if all(len(k) >= 3 and k[1] == "resolver" and "p" in k[2] for k in kinds):
            return "resolver-below-plain-field-of-resolver"
    return None


def _stats(out):
    m = re.search(r"STATS (\{.*\})", out or "")
    if not m:
        return {}
    try:
        return json.loads(m.group(1))
    except ValueError:
        return {}


def _batch(chk, cmd, model, tag, state, samples, dist, nsamples=0):
    """run_batch, but keeps the harness' STATS line (printed on stderr) for the distribution."""
    statfile = os.path.join(chk.work, tag + ".stats")
    b = vlib.run_batch(chk, cmd + " 2> " + statfile, model, tag)
    if not b:
        return None
    vlib.digest_batch(chk, b[0], b[1], classify, state)
    for (_, status, detail) in b[1]:
        m = re.search(r" s3=(\d+)", detail) if status == "ok" else None
        if m:
            dist["s3_values_compared_with_service_data"] = dist.get("s3_values_compared_with_service_data", 0) + int(m.group(1))
    for c in b[0][:nsamples]:
        samples.append(c[:1500] + (" ..." if len(c) > 1500 else ""))
    try:
        st = _stats(open(statfile).read())
    except OSError:
        st = {}
    for k, v in st.items():
        if isinstance(v, dict):
            d = dist.setdefault(k, {})
            for kk, vv in v.items():
                d[kk] = d.get(kk, 0) + vv
        else:
            dist[k] = dist.get(k, 0) + v
    return b


def run(chk):
    chk.coverage["rule"] = RULE
    chk.assumptions += [
        "Coq 8.16.1 kernel (coqc, full .vo build); no native_compute; vm_compute only in Examples and refutation witnesses",
        "extraction with ExtrOcamlBasic only (no Extract Constant); ocamlfind ocamlopt 4.13.1; ocaml/common/prelude.ml + ocaml/c20/driver.ml",
        "modelled by hand and tied by correspondence: json_builder.go (marshalResponseJSON, flattenListStructure, traverseList, "
        "resolveOptionalField, setJSONValue, setArrayItem, mergeValues, mergeEntities, mergeWithPath, flattenObject, flattenList) and the "
        "result loop of DataSource.Load; astjson Set / SetArrayItem / MergeValues are modelled (numbers compared as raw tokens), "
        "protobuf-go's dynamicpb / protoreflect and strconv number formatting are outside (the dumper prints numbers as astjson would)",
        "not modelled, reached only through the differential: execution_plan_visitor*.go (operation -> plan), compiler.go (variables -> "
        "protobuf request), the dependency graph of fetch.go, astnormalization; the harness' own CollectFields / shape computation "
        "(harness/cmd/c20/shape.go) and the plan / protobuf / JSON dumpers (dump.go) are trusted",
        "S3 (projection): the protobuf conventions of the mapped schema ([T!]! = repeated field, every other list = wrapper message "
        "{list{items}}, nullable scalar = wrapper with `value`, abstract type = oneof `value` / `instance`) and the GraphQL-field -> "
        "protobuf-field names of GRPCMapping are taken as given; root keys are matched to std calls by RPC name (two root fields on one "
        "RPC: the value must be the projection of one of the answers); values of field resolvers / @requires fields are not examined",
        "the mock service v2/pkg/grpctest is made a function of (method, request) per group by a memoising RPCTransport wrapper; "
        "non-null is not enforced for object-typed, enum-typed and wrapper-list-typed positions (absence there is the service's data)",
    ]
    chk.proof_side()
    ok, log = vlib.build_model("C20")
    if not ok:
        chk.add_violation("tie:C20/model-build", log[-2000:], found_input=False)
        return
    ok, log, exe = vlib.build_harness("c20")
    if not ok:
        chk.add_violation("tie:C20/harness-build", log[-2000:], found_input=False)
        return
    model = os.path.join(vlib.BIN, "model_c20")
    state, samples, dist = {}, [], {}
    corpus = os.path.join(vlib.ROOT, "corpus", "C20", "cases.jsonl")
    _batch(chk, "%s corpus -in %s -out {out}" % (exe, corpus), model, "corpus", state, samples, dist, 1)
    if chk.tier == "quick":
        plan = [(chk.seed, 600)]
    else:
        plan = [(chk.seed * 100 + k, 2000) for k in range(10)]
    for i, (seed, n) in enumerate(plan):
        _batch(chk, "%s gen -seed %d -n %d -out {out}" % (exe, seed, n), model, "gen%d" % i, state, samples, dist,
               3 if i == 0 else 0)

    def more(st):
        for k in range(1, 4):
            bb = _batch(chk, "%s gen -seed %d -n %d -wild 0 -out {out}" % (exe, chk.seed * 1000 + k, 2000), model,
                        "more%d" % k, st, [], {})
            if bb and any(kk is None for (kk, _, _) in st.get("specfail", [])):
                break

    vlib.conclude_differential(chk, state, more)
    chk.coverage["samples"] = samples
    chk.coverage["distribution"] = dist
    concurrency_probe(chk, exe)


def concurrency_probe(chk, exe):
    """Outside the property's quantifier (inputs, not schedules) but in its anchor file: one DataSource,
    concurrent Loads over an abstract type whose concrete type varies.  Sequentially every answer must be
    consistent (a violation otherwise); concurrently, inconsistent answers are the listed finding."""
    n = 1500 if chk.tier == "quick" else 20000
    rc, out = vlib.sh("%s race -n %d" % (exe, n), cwd=vlib.ROOT, timeout=600, env=vlib.GOENV)
    seq = re.search(r"sequential: (\d+) inconsistent of (\d+)(.*)", out or "")
    con = re.search(r"concurrent\(8\): (\d+) inconsistent of (\d+)(.*)", out or "")
    chk.coverage["concurrency_probe"] = {"rc": rc, "sequential": seq.group(0)[:300] if seq else None,
                                         "concurrent": con.group(0)[:300] if con else None}
    if not seq or not con:
        chk.add_violation("tie:C20/race-probe", "race probe failed rc=%s: %s" % (rc, (out or "")[-800:]), found_input=False)
        return
    cmd = "harness/bin/c20 race -n %d" % n
    if int(seq.group(1)) > 0:
        chk.add_violation("spec:shape/sequential-answer-inconsistent", seq.group(0)[:600], case={"cmd": cmd})
    if int(con.group(1)) > 0:
        chk.add_violation("spec:concurrent/answer-missing-fragment-fields", con.group(0)[:600], case={"cmd": cmd})


def replay(chk, path):
    r = json.load(open(path))
    case = r.get("case")
    line = case if isinstance(case, str) else ""
    m = re.search(r'\(ops "((?:[^"])*)"\)\)\s*$', line)
    if not m:
        chk.log("replay: no operation group in the case; running the whole check")
        run(chk)
        return
    ops = re.sub(r"\\([0-9a-f]{2})", lambda x: chr(int(x.group(1), 16)), m.group(1))
    rp = os.path.join(chk.work, "replay.jsonl")
    open(rp, "w").write(ops + "\n")
    chk.coverage["rule"] = RULE
    chk.proof_side()
    ok, log = vlib.build_model("C20")
    ok2, log2, exe = vlib.build_harness("c20")
    if not (ok and ok2):
        chk.add_violation("tie:C20/build", (log + log2)[-2000:], found_input=False)
        return
    state = {}
    b = vlib.run_batch(chk, "%s corpus -in %s -out {out}" % (exe, rp), os.path.join(vlib.BIN, "model_c20"), "replay")
    if b:
        vlib.digest_batch(chk, b[0], b[1], classify, state)
        for (ln, st, d) in b[1]:
            chk.log("replay verdict: %s %s" % (st, d[:400]))
    vlib.conclude_differential(chk, state, None)
