#!/usr/bin/env python3
"""Run every registered check of MANIFEST.json (tier quick unless --tier thorough) one after the other and
print one summary line per property: exit status, wall time, VIOLATION / KNOWN-FINDING counts.
  tools/run_all.py [--tier quick|thorough] [--only C01,C02] [--seed N] [--jobs K]
Exit 0 iff every check exits 0 and prints no VIOLATION line."""
import concurrent.futures
import json
import os
import subprocess
import sys
import time

ROOT = os.path.dirname(os.path.dirname(os.path.abspath(__file__)))


def main():
    tier, only, seed, jobs = "quick", None, None, 1
    a = sys.argv[1:]
    while a:
        if a[0] == "--tier":
            tier, a = a[1], a[2:]
        elif a[0] == "--only":
            only, a = a[1].split(","), a[2:]
        elif a[0] == "--seed":
            seed, a = a[1], a[2:]
        elif a[0] == "--jobs":
            jobs, a = int(a[1]), a[2:]
        else:
            a = a[1:]
    man = json.load(open(os.path.join(ROOT, "MANIFEST.json")))
    env = dict(os.environ)
    if seed:
        env["VERIF_SEED"] = seed
    logdir = os.path.join(ROOT, "work", "run_all")
    os.makedirs(logdir, exist_ok=True)

    def one(c):
        pid = c["property_id"]
        cmd = c[tier + "_cmd"]
        t0 = time.time()
        p = subprocess.run(cmd, shell=True, cwd=ROOT, env=env, stdout=subprocess.PIPE, stderr=subprocess.STDOUT, text=True)
        dt = time.time() - t0
        open(os.path.join(logdir, "%s-%s.log" % (pid, tier)), "w").write(p.stdout)
        viol = [l for l in p.stdout.split("\n") if l.startswith("VIOLATION")]
        kf = [l for l in p.stdout.split("\n") if l.startswith("KNOWN-FINDING")]
        return pid, p.returncode, dt, viol, kf

    checks = [c for c in man["checks"] if not only or c["property_id"] in only]
    bad = 0
    with concurrent.futures.ThreadPoolExecutor(jobs) as ex:
        for pid, rc, dt, viol, kf in ex.map(one, checks):
            print("%s exit=%d %.0fs violations=%d known=%d" % (pid, rc, dt, len(viol), len(kf)), flush=True)
            for v in viol[:5]:
                print("   " + v[:300], flush=True)
            if rc != 0 or viol:
                bad += 1
    sys.exit(1 if bad else 0)


if __name__ == "__main__":
    main()
