"""usage: manifest_add.py ID 'level text' 'level note' 'technique' 'design ref' — idempotent."""
import json
import sys

pid, text, note, tech, design = sys.argv[1:6]
m = json.load(open('/verif/MANIFEST.json'))
m['checks'] = [c for c in m['checks'] if c['property_id'] != pid]
m['checks'].append({"property_id": pid, "quick_cmd": "./check %s --tier quick" % pid, "thorough_cmd": "./check %s --tier thorough" % pid,
                    "evidence_file": "evidence/%s.json" % pid, "replay_cmd_template": "./check %s --replay {path}" % pid, "engine": "coq",
                    "level_claimed": {"category": "proof", "text": text, "design_ref": design}, "level_note": note, "technique": tech})
m['checks'].sort(key=lambda c: c['property_id'])
claimed = {c['property_id'] for c in m['checks']}
m['not_applicable'] = [x for x in m['not_applicable'] if x['property_id'] not in claimed]
for e in m['engines']:
    e['serves_properties'] = sorted(claimed)
json.dump(m, open('/verif/MANIFEST.json', 'w'), indent=1)
print(sorted(claimed))
