"""Shared machinery of the /verif checks: builds (Coq, extracted OCaml drivers, Go harness),
case running, known-finding matching, evidence and replay writing, exit protocol."""
import fcntl
import hashlib
import json
import os
import re
import shutil
import subprocess
import sys
import time

ROOT = os.path.dirname(os.path.dirname(os.path.abspath(__file__)))
COQ = os.path.join(ROOT, "coq")
OCAML = os.path.join(ROOT, "ocaml")
HARNESS = os.path.join(ROOT, "harness")
BIN = os.path.join(ROOT, "bin")
WORK = os.path.join(ROOT, "work")
REPO = os.environ.get("VERIF_REPO", "/repo")

GOENV = {"GOFLAGS": "-mod=mod", "GOPROXY": "off", "GOWORK": "off"}

ALLOWED_AXIOMS = [
    # standard-library axioms that may legitimately show up; each is named in DESIGN.md section 5
    "functional_extensionality_dep", "proof_irrelevance", "JMeq_eq", "Eq_rect_eq.eq_rect_eq",
    "classic", "propositional_extensionality",
]


def sh(cmd, cwd=None, timeout=600, env=None, inp=None):
    """Run a shell command; returns (rc, stdout+stderr). rc=124 on timeout."""
    e = dict(os.environ)
    e.pop("GOSUMDB", None)
    e.pop("GOTOOLCHAIN", None)
    if env:
        e.update(env)
    try:
        p = subprocess.run(cmd, shell=isinstance(cmd, str), cwd=cwd, env=e, input=inp,
                           stdout=subprocess.PIPE, stderr=subprocess.STDOUT, timeout=timeout, text=True,
                           errors="replace")
        out = "\n".join(l for l in p.stdout.splitlines() if "conda" not in l.lower() or "warn" not in l.lower())
        return p.returncode, out
    except subprocess.TimeoutExpired as ex:
        out = ex.stdout if isinstance(ex.stdout, str) else (ex.stdout or b"").decode(errors="replace")
        return 124, out + "\n[timeout after %ss]" % timeout


class Lock:
    def __init__(self, name):
        os.makedirs(WORK, exist_ok=True)
        self.path = os.path.join(WORK, name + ".lock")

    def __enter__(self):
        self.f = open(self.path, "w")
        fcntl.flock(self.f, fcntl.LOCK_EX)
        return self

    def __exit__(self, *a):
        fcntl.flock(self.f, fcntl.LOCK_UN)
        self.f.close()


# --------------------------------------------------------------------------- Coq
def gen_coqproject():
    """_CoqProject is derived from the directory contents (every .v except Extract.v / Scratch*.v),
    so adding a file never needs an edit of a shared list."""
    files = []
    for d in sorted(os.listdir(COQ)):
        dp = os.path.join(COQ, d)
        if not os.path.isdir(dp) or d.startswith("."):
            continue
        for root, _, fs in os.walk(dp):
            for f in sorted(fs):
                if f.endswith(".v") and f != "Extract.v" and not f.startswith("Scratch") and not f.startswith("."):
                    files.append(os.path.relpath(os.path.join(root, f), COQ))
    txt = "-Q . Gv\n-arg -w -arg -notation-overridden,-deprecated-hint-without-locality,-deprecated-instance-without-locality\n"
    txt += "\n".join(sorted(files)) + "\n"
    p = os.path.join(COQ, "_CoqProject")
    if not os.path.exists(p) or open(p).read() != txt:
        open(p, "w").write(txt)


def coq_make(targets=None, timeout=3000, keep_going=False, per_file_timeout=600):
    """Full .vo build of the whole development (or given targets). Returns (ok, log)."""
    with Lock("coq"):
        gen_coqproject()
        if not os.path.exists(os.path.join(COQ, "Makefile")) or \
                os.path.getmtime(os.path.join(COQ, "Makefile")) < os.path.getmtime(os.path.join(COQ, "_CoqProject")):
            rc, out = sh("coq_makefile -f _CoqProject -o Makefile", cwd=COQ, timeout=120)
            if rc != 0:
                return False, out
        t = " ".join(targets) if targets else ""
        rc, out = sh("make -j16 COQC='timeout %d coqc' %s %s" % (per_file_timeout, "-k" if keep_going else "", t), cwd=COQ, timeout=timeout)
        return rc == 0, out


def coq_properties(prop):
    """Re-compile Cxx/Properties.v capturing Print Assumptions output.
    Returns dict: theorems=[names], assumptions={name: text}, ok=bool, log=str."""
    pv = os.path.join(COQ, prop, "Properties.v")
    res = {"theorems": [], "assumptions": {}, "ok": False, "log": "", "closed": []}
    if not os.path.exists(pv):
        res["log"] = "no Properties.v"
        return res
    src = open(pv).read()
    res["theorems"] = re.findall(r"^\s*(?:Theorem|Corollary)\s+([A-Za-z0-9_']+)", src, re.M)
    with Lock("coq"):
        rc, out = sh("coqc -Q . Gv -w -notation-overridden %s/Properties.v" % prop, cwd=COQ, timeout=900)
    res["log"] = out
    res["ok"] = rc == 0
    if rc != 0:
        return res
    # split the output per Print Assumptions (in order of appearance in the file)
    printed = re.findall(r"Print Assumptions\s+([A-Za-z0-9_']+)", src)
    chunks = re.split(r"(?=Closed under the global context|Axioms:)", out)
    chunks = [c for c in chunks if c.startswith("Closed under") or c.startswith("Axioms:")]
    for name, chunk in zip(printed, chunks):
        res["assumptions"][name] = chunk.strip()
        if chunk.startswith("Closed under"):
            res["closed"].append(name)
        else:
            axs = re.findall(r"^([A-Za-z0-9_.']+)\s*:", chunk, re.M)
            if all(any(a.endswith(x) for x in ALLOWED_AXIOMS) for a in axs):
                res["closed"].append(name)
    return res


def grep_forbidden(prop_dirs):
    """Scan the development for escape hatches. Returns list of offending lines."""
    pat = re.compile(r"\b(Admitted|admit|Axiom|Parameter|Conjecture|Admit Obligations|bypass_check|Unset Guard Checking|"
                     r"Unset Positivity Checking|Unset Universe Checking|type-in-type|impredicative-set)\b")
    bad = []
    for d in prop_dirs:
        for dp, _, fs in os.walk(os.path.join(COQ, d)):
            for f in fs:
                if f.endswith(".v"):
                    p = os.path.join(dp, f)
                    txt = open(p).read()
                    txt_nc = re.sub(r"\(\*.*?\*\)", "", txt, flags=re.S)
                    for i, line in enumerate(txt_nc.splitlines(), 1):
                        if pat.search(line):
                            bad.append("%s:%d:%s" % (os.path.relpath(p, COQ), i, line.strip()))
    return bad


# --------------------------------------------------------------------------- OCaml drivers
def build_model(prop, timeout=900):
    """Extract coq/<prop>/Extract.v and build ocaml/<prop.lower()>/driver.ml into bin/model_<prop>."""
    p = prop.lower()
    bdir = os.path.join(OCAML, "build", p)
    os.makedirs(bdir, exist_ok=True)
    os.makedirs(BIN, exist_ok=True)
    with Lock("ocaml_" + p):
        srcs = [os.path.join(COQ, prop, "Extract.v"), os.path.join(OCAML, "common", "prelude.ml"),
                os.path.join(OCAML, p, "driver.ml")]
        for dp, _, fs in os.walk(os.path.join(COQ)):
            for f in fs:
                if f.endswith(".vo"):
                    srcs.append(os.path.join(dp, f))
        exe = os.path.join(BIN, "model_" + p)
        if os.path.exists(exe) and all(os.path.getmtime(s) <= os.path.getmtime(exe) for s in srcs if os.path.exists(s)):
            return True, "up to date"
        with Lock("coq"):
            rc, out = sh("coqc -Q %s Gv -w -notation-overridden,-extraction %s" % (COQ, os.path.join(COQ, prop, "Extract.v")),
                         cwd=bdir, timeout=timeout)
        if rc != 0:
            return False, out
        with open(os.path.join(bdir, "main.ml"), "w") as f:
            f.write("open Model\n")
            f.write(open(os.path.join(OCAML, "common", "prelude.ml")).read())
            f.write("\n")
            drv = open(os.path.join(OCAML, p, "driver.ml")).read()
            # a driver may ask for shared readers with a first-line marker:  (* include: gqlread *)
            m = re.match(r"\(\* include: ([a-z_, ]+) \*\)", drv)
            if m:
                for inc in [x.strip() for x in m.group(1).split(",")]:
                    f.write(open(os.path.join(OCAML, "common", inc + ".ml")).read())
                    f.write("\n")
            f.write(drv)
        rc, out2 = sh("ocamlfind ocamlopt -w -a -package str,unix -linkpkg model.mli model.ml main.ml -o %s" % exe,
                      cwd=bdir, timeout=timeout)
        return rc == 0, out + out2


# --------------------------------------------------------------------------- Go harness
def ensure_go_sum():
    gs = os.path.join(HARNESS, "go.sum")
    parts = set()
    for f in ("v2/go.sum", "execution/go.sum", "go.work.sum"):
        p = os.path.join(REPO, f)
        if os.path.exists(p):
            parts.update(l for l in open(p).read().splitlines() if l.strip())
    want = "\n".join(sorted(parts)) + "\n"
    if not os.path.exists(gs) or open(gs).read() != want:
        open(gs, "w").write(want)


def build_harness(name, tags="verif", race=False, timeout=900):
    """go build ./cmd/<name> against /repo's working tree. Returns (ok, log, exe)."""
    ensure_go_sum()
    os.makedirs(os.path.join(HARNESS, "bin"), exist_ok=True)
    exe = os.path.join(HARNESS, "bin", name + ("_race" if race else ""))
    cmd = "go build %s -tags %s -o %s ./cmd/%s" % ("-race" if race else "", tags, exe, name)
    rc, out = sh(cmd, cwd=HARNESS, timeout=timeout, env=GOENV)
    return rc == 0, out, exe


# --------------------------------------------------------------------------- known findings
def load_known(prop):
    known, fixed = [], []
    p = os.path.join(ROOT, "KNOWN_FINDINGS.txt")
    if os.path.exists(p):
        for line in open(p):
            line = line.strip()
            m = re.match(r"known:\s+property=(\S+)\s+key=(\S+)\s+(.*)", line)
            if m and m.group(1) == prop:
                known.append({"key": m.group(2), "text": m.group(3)})
            m = re.match(r"fixed:\s+property=(\S+)\s+(\S+)\s+(.*)", line)
            if m and m.group(1) == prop:
                fixed.append({"commit": m.group(2), "text": m.group(3)})
    return known, fixed


# --------------------------------------------------------------------------- the check context
class Check:
    def __init__(self, prop, tier, seed):
        self.prop = prop
        self.tier = tier
        self.seed = seed
        self.t0 = time.time()
        self.violations = []     # dicts: {kind, detail, case, found_input(bool), key}
        self.known_hits = {}     # key -> example
        self.coverage = {"evaluations": 0, "distinct_nontrivial": 0, "samples": [], "rule": ""}
        self.assumptions = []
        self.notes = []
        self.level = "proof"
        self.known, self.fixed = load_known(prop)
        os.makedirs(os.path.join(ROOT, "evidence"), exist_ok=True)
        os.makedirs(os.path.join(ROOT, "replays"), exist_ok=True)
        self.work = os.path.join(WORK, prop.lower())
        os.makedirs(self.work, exist_ok=True)

    def log(self, msg):
        print("[%s %6.1fs] %s" % (self.prop, time.time() - self.t0, msg), flush=True)

    # -- proof side
    def proof_side(self, extra_dirs=()):
        """Build all proofs, scrape Properties.v. A failure here is a broken proof obligation."""
        # build this property's own targets (make pulls in lib/gen dependencies); other properties'
        # files are not touched, so a broken or slow file elsewhere cannot mask or stall this check
        tg = [os.path.relpath(os.path.join(dp, f), COQ) + "o" for d in [self.prop] + list(extra_dirs)
              for dp, _, fs in os.walk(os.path.join(COQ, d)) for f in fs
              if f.endswith(".v") and f != "Extract.v" and not f.startswith("Scratch")]
        ok, out = coq_make(targets=sorted(tg))
        if not ok:
            tail = "\n".join(out.splitlines()[-30:])
            self.log("coq build failed:\n" + tail)
            self.coverage["obligations"] = self.coverage.get("obligations", 0)
            self.coverage["discharged"] = 0
            m = re.search(r'File "\./([^"]+)", line (\d+)', out)
            where = ("%s:%s" % (m.group(1), m.group(2))) if m else "coq build"
            self.proof_broken = where
            return False, tail
        pr = coq_properties(self.prop)
        self.coverage["obligations"] = len(pr["theorems"])
        self.coverage["discharged"] = len([t for t in pr["theorems"] if t in pr["closed"]]) if pr["ok"] else 0
        self.coverage["theorems"] = pr["theorems"]
        self.coverage["print_assumptions"] = pr["assumptions"]
        self.coverage["checker_cmd"] = "cd /verif/coq && make -j16 (coqc 8.16.1, full .vo build) && coqc -Q . Gv %s/Properties.v" % self.prop
        bad = grep_forbidden(["lib", self.prop, "gen"] + list(extra_dirs))
        self.coverage["forbidden_constructs"] = bad
        if not pr["ok"] or bad or self.coverage["discharged"] != self.coverage["obligations"]:
            self.proof_broken = "%s/Properties.v" % self.prop
            return False, pr["log"][-2000:] + "\n".join(bad)
        self.proof_broken = None
        if self.tier == "thorough":
            coqchk_once(self, ["lib", "gen", self.prop] + list(extra_dirs))
        return True, ""

    # -- results
    def add_violation(self, kind, detail, case=None, found_input=True, key=None):
        self.violations.append({"kind": kind, "detail": detail, "case": case, "found_input": found_input, "key": key})

    def match_known(self, key):
        for k in self.known:
            if k["key"] == key:
                return k
        return None

    def finish(self):
        """Write evidence, print protocol lines, exit."""
        wall = time.time() - self.t0
        real = []
        for v in self.violations:
            k = self.match_known(v["key"]) if v.get("key") else None
            if k is not None:
                self.known_hits.setdefault(k["key"], (k, v))
            else:
                real.append(v)
        for key, (k, v) in sorted(self.known_hits.items()):
            print("KNOWN-FINDING: property=%s key=%s %s" % (self.prop, key, k["text"]), flush=True)
        # de-duplicate real violations by (kind, key)
        seen, uniq = set(), []
        for v in real:
            sig = (v["kind"], v.get("key"), v["detail"][:80])
            if sig not in seen:
                seen.add(sig)
                uniq.append(v)
        ev = {
            "property_id": self.prop, "tier": self.tier, "seed": self.seed, "level": self.level,
            "coverage": self.coverage, "assumptions": self.assumptions, "wall_s": round(wall, 2),
            "violations": len(uniq), "known_findings_reproduced": sorted(self.known_hits.keys()),
            "notes": self.notes,
        }
        if "trusted_base" not in self.coverage:
            self.coverage["trusted_base"] = list(self.assumptions)
        with open(os.path.join(ROOT, "evidence", self.prop + ".json"), "w") as f:
            json.dump(ev, f, indent=1, sort_keys=True, default=str)
        rc = 0
        for i, v in enumerate(uniq[:10]):
            rp = os.path.join(ROOT, "replays", "%s-%d-%d.json" % (self.prop, self.seed, i))
            with open(rp, "w") as f:
                json.dump({"property": self.prop, "seed": self.seed, "tier": self.tier, "kind": v["kind"],
                           "detail": v["detail"], "case": v["case"], "found_failing_input": v["found_input"]},
                          f, indent=1, default=str)
            tail = "" if v["found_input"] else " no-failing-input-found"
            print("VIOLATION property=%s replay=%s %s%s" % (self.prop, rp, v["kind"], tail), flush=True)
            rc = 1
        self.log("done: evaluations=%s distinct_nontrivial=%s violations=%d known=%d wall=%.1fs" % (
            self.coverage.get("evaluations"), self.coverage.get("distinct_nontrivial"), len(uniq), len(self.known_hits), wall))
        sys.exit(rc)


def read_results(path):
    """Parse a driver result file: lineno TAB status TAB detail -> list of (lineno, status, detail)."""
    res = []
    with open(path, errors="replace") as f:
        for line in f:
            parts = line.rstrip("\n").split("\t", 2)
            if len(parts) == 3:
                res.append((int(parts[0]), parts[1], parts[2]))
    return res


def read_lines(path):
    with open(path, errors="replace") as f:
        return [l.rstrip("\n") for l in f]


def sha(s):
    return hashlib.sha1(s.encode("utf-8", "replace")).hexdigest()[:16]


# --------------------------------------------------------------------------- generic differential run
def run_batch(chk, harness_cmd, model_exe, tag, timeout=1200):
    """harness_cmd: shell command that writes cases to {out}. Runs the model driver over them.
    Returns (cases, results) or None when a tool failed (a violation is recorded)."""
    cases = os.path.join(chk.work, tag + ".cases")
    res = os.path.join(chk.work, tag + ".res")
    for p in (cases, res):
        if os.path.exists(p):
            os.remove(p)
    rc, out = sh(harness_cmd.format(out=cases), cwd=ROOT, timeout=timeout, env=GOENV)
    if rc != 0 or not os.path.exists(cases):
        chk.add_violation("tie:%s/harness-run" % chk.prop, "harness failed rc=%s: %s" % (rc, out[-1500:]),
                          case={"cmd": harness_cmd}, found_input=(rc not in (124,)), key=None)
        return None
    rc, out = sh("%s %s %s" % (model_exe, cases, res), cwd=ROOT, timeout=timeout)
    if rc != 0 or not os.path.exists(res):
        chk.add_violation("tie:%s/model-run" % chk.prop, "model driver failed rc=%s: %s" % (rc, out[-1500:]),
                          case={"cmd": harness_cmd}, found_input=False)
        return None
    return read_lines(cases), read_results(res)


def digest_batch(chk, cases, results, classify, state):
    """Fold one batch into the running state. classify(case_line, detail) -> known key or None."""
    seen = state.setdefault("seen", set())
    for (ln, status, detail) in results:
        case = cases[ln - 1] if 0 < ln <= len(cases) else ""
        if status == "ok":
            h = sha(case)
            if detail.startswith("nt") and h not in seen:
                seen.add(h)
                state["nt"] = state.get("nt", 0) + 1
            continue
        if status == "mismatch":
            name = detail.split(" ", 1)[0]
            state.setdefault("mismatch", []).append((name, case, detail))
        elif status == "specfail":
            key = classify(case, detail) if classify else None
            state.setdefault("specfail", []).append((key, case, detail))
        else:
            state.setdefault("error", []).append((case, detail))
    state["evals"] = state.get("evals", 0) + len(cases)


def conclude_differential(chk, state, search_more):
    """Turn the folded state into violations, following the protocol:
    spec failure on the implementation's own output -> violation with the input;
    correspondence / proof break without one -> enlarged search, then no-failing-input-found."""
    spec_new = [(k, c, d) for (k, c, d) in state.get("specfail", []) if k is None or chk.match_known(k) is None]
    for (k, c, d) in state.get("specfail", []):
        if k is not None and chk.match_known(k) is not None:
            chk.add_violation("spec:" + d.split(" ")[0], d, case=c, key=k)
    broken = []
    if getattr(chk, "proof_broken", None):
        broken.append("proof:" + chk.proof_broken)
    for name in sorted(set(m[0] for m in state.get("mismatch", []))):
        broken.append(name)
    for (c, d) in state.get("error", [])[:3]:
        broken.append("tie:%s/driver-error" % chk.prop)
    if broken and not spec_new and search_more is not None:
        chk.log("broken: %s -- enlarged search for a failing input" % ", ".join(broken))
        search_more(state)
        spec_new = [(k, c, d) for (k, c, d) in state.get("specfail", []) if k is None or chk.match_known(k) is None]
    if spec_new:
        # smallest failing case first
        spec_new.sort(key=lambda x: len(x[1]))
        for (k, c, d) in spec_new[:5]:
            chk.add_violation("spec:" + d.split(" ")[0], d + ((" [also broken: %s]" % ", ".join(broken)) if broken else ""), case=c, key=k)
    elif broken:
        ex = state.get("mismatch", [])
        ex.sort(key=lambda x: len(x[1]))
        for name in sorted(set(broken)):
            exs = [m for m in ex if m[0] == name][:3]
            chk.add_violation(name, "no longer checks: %s; spec held on every implementation output searched (%d cases)" % (name, state.get("evals", 0)),
                              case={"examples": [{"case": m[1], "detail": m[2]} for m in exs],
                                    "errors": state.get("error", [])[:3]}, found_input=False)
    chk.coverage["evaluations"] = state.get("evals", 0)
    chk.coverage["distinct_nontrivial"] = state.get("nt", 0)
    chk.coverage["correspondence_mismatches"] = len(state.get("mismatch", []))
    chk.coverage["spec_failures_on_impl_output"] = len(state.get("specfail", []))


# --------------------------------------------------------------------------- thorough-tier extras
def coqchk_once(chk, dirs):
    """Independent re-check of the compiled development with coqchk (thorough tier only; one run
    per tree state, shared through a stamp file). Records the axioms coqchk reports."""
    mods, stamp_src = [], []
    for d in dirs:
        for dp, _, fs in os.walk(os.path.join(COQ, d)):
            for f in sorted(fs):
                if f.endswith(".vo"):
                    rel = os.path.relpath(os.path.join(dp, f), COQ)[:-3]
                    mods.append("Gv." + rel.replace("/", "."))
                    stamp_src.append("%s:%d" % (rel, int(os.path.getmtime(os.path.join(dp, f)))))
    key = sha("|".join(sorted(stamp_src)))
    stamp = os.path.join(WORK, "coqchk_%s.json" % key)
    if os.path.exists(stamp):
        res = json.load(open(stamp))
    else:
        t0 = time.time()
        rc, out = sh("coqchk -silent -o -Q . Gv %s" % " ".join(sorted(mods)), cwd=COQ, timeout=10800)
        res = {"rc": rc, "wall_s": round(time.time() - t0, 1), "tail": out[-3000:], "modules": len(mods)}
        if rc != 124:
            json.dump(res, open(stamp, "w"))
    chk.coverage["coqchk"] = res
    if res["rc"] == 124:
        # the independent re-check did not finish in three hours (machine load): that is not evidence against the
        # development -- the full coqc build above is what accepts the proofs; say so and go on
        chk.notes.append("coqchk did not finish within 10800 s; the compiled development was accepted by coqc only")
    elif res["rc"] != 0:
        chk.add_violation("proof:coqchk", "coqchk rejected the compiled development: " + res["tail"][-800:], found_input=False)
    return res


# --------------------------------------------------------------------------- S-expressions (python side)
def parse_sexp(s):
    """Parse one S-expression in the harness format. Atoms -> str, strings -> bytes, lists -> list."""
    pos = 0
    n = len(s)

    def skip():
        nonlocal pos
        while pos < n and s[pos] in " \t\r\n":
            pos += 1

    def item():
        nonlocal pos
        skip()
        c = s[pos]
        if c == "(":
            pos += 1
            out = []
            while True:
                skip()
                if s[pos] == ")":
                    pos += 1
                    return out
                out.append(item())
        if c == '"':
            pos += 1
            b = bytearray()
            while s[pos] != '"':
                if s[pos] == "\\":
                    b.append(int(s[pos + 1:pos + 3], 16))
                    pos += 3
                else:
                    b.extend(s[pos].encode("latin-1", "replace"))
                    pos += 1
            pos += 1
            return bytes(b)
        st = pos
        while pos < n and s[pos] not in ' \t\r\n()"':
            pos += 1
        return s[st:pos]

    return item()


def coq_bytes_lit(b):
    return "[" + ";".join(str(x) for x in b) + "]"


def coq_eval(chk, name, source, timeout=900):
    """Compile a generated .v under coq/gen/ (not part of the project) and return coqc's output."""
    d = os.path.join(WORK, "coqeval")
    os.makedirs(d, exist_ok=True)
    p = os.path.join(d, name + ".v")
    open(p, "w").write(source)
    rc, out = sh("coqc -Q %s Gv -w -notation-overridden %s" % (COQ, p), cwd=d, timeout=timeout)
    return rc, out
