#!/usr/bin/env python3
"""Run tools/seeded_verify.py for every stored seeded regression (scratch worktrees of /repo HEAD, 3 at a time) and
write /verif/seeded/VERIFY.json: {id: {clean_demo_passes, patch_applies, mutant_demo_fails, mutant_suites_pass}}."""
import ast
import concurrent.futures
import glob
import json
import os
import subprocess
import sys

ROOT = os.path.dirname(os.path.dirname(os.path.abspath(__file__)))


def one(mp):
    m = json.load(open(mp))
    d = os.path.dirname(mp)
    suites = " ".join(m.get("confirmed", {}).get("suites", []))
    p = subprocess.run("python3 tools/seeded_verify.py %s %s %s" % (d, m["demo_package_dir"], suites), shell=True, cwd=ROOT,
                       stdout=subprocess.PIPE, stderr=subprocess.STDOUT, text=True)
    last = p.stdout.strip().split("\n")[-1]
    try:
        r = ast.literal_eval(last)
    except Exception:
        r = {"error": last[-300:]}
    return m["id"], r


def main():
    only = set(sys.argv[1].split(",")) if len(sys.argv) > 1 else None
    mps = [mp for mp in sorted(glob.glob(os.path.join(ROOT, "seeded", "*", "meta.json")))
           if not only or os.path.basename(os.path.dirname(mp)) in only]
    out = {}
    vf = os.path.join(ROOT, "seeded", "VERIFY.json")
    if only and os.path.exists(vf):
        out = json.load(open(vf))
    with concurrent.futures.ThreadPoolExecutor(3) as ex:
        for mid, r in ex.map(one, mps):
            out[mid] = r
            ok = all(r.get(k) for k in ("clean_demo_passes", "patch_applies", "mutant_demo_fails", "mutant_suites_pass"))
            print(mid, "OK" if ok else r, flush=True)
            json.dump(out, open(vf, "w"), indent=1, sort_keys=True)


main()
