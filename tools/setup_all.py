"""setup: anchors -> coq make (keep going) -> model drivers -> harness binaries.
Fails only when something needed by a property claimed in MANIFEST.json does not build; other
(unclaimed, in-progress) parts are reported as warnings."""
import json
import os
import sys
from concurrent.futures import ThreadPoolExecutor

sys.path.insert(0, os.path.dirname(os.path.abspath(__file__)))
import anchors  # noqa: E402
import vlib  # noqa: E402

DEPS = {"C14": ["C02"], "C13": ["C12"]}   # shared models


def main():
    claimed = [c["property_id"] for c in json.load(open(os.path.join(vlib.ROOT, "MANIFEST.json")))["checks"]]
    need = set(claimed)
    for p in claimed:
        need.update(DEPS.get(p, []))
    for name, fn in anchors.ALL.items():
        try:
            fn()
        except anchors.AnchorError as e:
            print("anchor translator failed for %s: %s" % (name, e))
    # per-property anchor generators living in the property modules
    allprops = sorted(f[:-3].upper() for f in os.listdir(os.path.join(vlib.ROOT, "tools", "props"))
                      if f.startswith("c") and f.endswith(".py") and f[1:3].isdigit() and len(f) == 6)
    for p in allprops:
        try:
            mod = __import__("props." + p.lower(), fromlist=["x"])
            if hasattr(mod, "gen_anchors"):
                mod.gen_anchors()
        except Exception as e:  # noqa: BLE001
            print("anchors of %s: %s" % (p, e))
    ok, out = vlib.coq_make(timeout=7200, per_file_timeout=1200, keep_going=True)
    print("\n".join(out.splitlines()[-15:]))
    failed = []
    for p in sorted(need):
        d = os.path.join(vlib.COQ, p)
        if not os.path.isdir(d):
            continue
        for f in os.listdir(d):
            if f.endswith(".v") and f != "Extract.v" and not f.startswith("Scratch") and not os.path.exists(os.path.join(d, f + "o")):
                failed.append(("coq %s/%s" % (p, f), "not built"))
    props = sorted(d for d in os.listdir(vlib.COQ) if os.path.exists(os.path.join(vlib.COQ, d, "Extract.v")))
    cmds = sorted(d for d in os.listdir(os.path.join(vlib.HARNESS, "cmd")))
    warn = []

    def bm(p):
        ok, log = vlib.build_model(p)
        if not ok:
            (failed if (p in need or p == "Exec") else warn).append(("model " + p, log))

    with ThreadPoolExecutor(8) as ex:
        list(ex.map(bm, props))
    for c in cmds:   # go builds are internally parallel
        ok, log, _ = vlib.build_harness(c)
        if not ok:
            (failed if c.upper()[:3] in need else warn).append(("harness " + c, log))
    for name, log in warn:
        print("WARNING (not claimed):", name)
    for name, log in failed:
        print("FAILED (the property's own check will report it):", name)
        print(log[-3000:])
    # Only a broken shared library is fatal for setup: a property whose own files do not build is
    # reported by that property's check (proof obligation / tie broken), the others still run.
    lib_missing = [f for f in os.listdir(os.path.join(vlib.COQ, "lib"))
                   if f.endswith(".v") and not os.path.exists(os.path.join(vlib.COQ, "lib", f + "o"))]
    if lib_missing:
        print("FATAL: shared library files not built:", lib_missing)
        sys.exit(1)
    sys.exit(0)


main()
