"""setup: anchors -> coq make -> model drivers -> harness binaries. Fails loudly."""
import os
import sys
from concurrent.futures import ThreadPoolExecutor

sys.path.insert(0, os.path.dirname(os.path.abspath(__file__)))
import anchors  # noqa: E402
import vlib  # noqa: E402


def main():
    for name, fn in anchors.ALL.items():
        try:
            fn()
        except anchors.AnchorError as e:
            print("anchor translator failed for %s: %s" % (name, e))
    ok, out = vlib.coq_make(timeout=7200, per_file_timeout=3000)
    print("\n".join(out.splitlines()[-15:]))
    if not ok:
        print("coq build FAILED")
        sys.exit(1)
    props = sorted(d for d in os.listdir(vlib.COQ) if os.path.exists(os.path.join(vlib.COQ, d, "Extract.v")))
    cmds = sorted(d for d in os.listdir(os.path.join(vlib.HARNESS, "cmd")))
    failed = []

    def bm(p):
        ok, log = vlib.build_model(p)
        if not ok:
            failed.append(("model " + p, log))

    def bh(c):
        ok, log, _ = vlib.build_harness(c)
        if not ok:
            failed.append(("harness " + c, log))

    with ThreadPoolExecutor(8) as ex:
        list(ex.map(bm, props))
    for c in cmds:   # go builds are internally parallel
        bh(c)
    for name, log in failed:
        print("FAILED:", name)
        print(log[-3000:])
    sys.exit(1 if failed else 0)


main()
