(* C01p: translation validation of real plans.  The universe-free plan validator [tv2_static_b], the universe
   contract, the translation target [dfield2], the model's own requests and its execution are extracted
   from coq/C01 (ProofsPlan2*.v, ProofsTv*.v). *)
From Gv Require Import lib.Bytes lib.Json lib.Gql lib.Exec lib.ExtractAnchor
     C01.ProofsBase C01.ProofsSplit C01.ProofsSim C01.ProofsJoin C01.ProofsTwoStep C01.ProofsCtxBase C01.ProofsCtx
     C01.ProofsTwoStepWf C01.ProofsPlanAlg C01.ProofsPlan C01.ProofsPlanOk C01.ProofsDedup C01.ProofsListHop
     C01.ProofsTvStatic C01.ProofsTvDefs C01.ProofsTvHidden C01.ProofsPlanGen C01.ProofsPlan2 C01.ProofsTvMain C01.ProofsFuelSuff C01.ProofsSelMerge C01.ProofsPlan3 C01.ProofsPlan3Main.
Require Import ExtrOcamlBasic.
Extraction Language OCaml.
Extraction "model.ml" extraction_anchor json_eqb execute find_entity doc_size
  tv2_static_b plan2_static_b field2_static_b fetch2_static_b order_ok_b
  univ2_contract_b ent_contract_b univ_ok_b key_consistent
  tv3_static_b rfield3_static_b pt_static_b item_static_b fetches_static_b univ3_contract_b univ_contract_b lists_ok_b ds_need
  client_doc3 model_requests3 model_requests3s gateway3 tv4_static_b univ4_contract_b types_ok_b flatten type_applies abs_fuel find_alt flat_is flat_merged_is has_tn_sel item_key drop_tn gmerge tv5_static_b univ5_contract_b nkey_contract_b key_static_b fetch_kl fetch_kn fetch_nnames mono_client3 src_proj pt_proj pt_client item_unaliased fetch_keys field_ty_ok plain_field sel_nospread
  client_doc2 model_requests2 gateway2 mono_client2 mono_ab2 plan2_fuel
  repr_from key_names pvars root_sel2 d2_key d2_selA d2_selB sub_at shape_ty
  dedup collect_reprs
  req_ok_b config_wf_b keys_disjoint keys_unaliased flat_okb flat_of key_covered repr_fields_ok reqs_static_b
  sels_noent frags_noent names_distinct is_leaf_kind declared_obj ty_eqb not_repr sels_top_nokey.
