(* C01p: translation validation of real plans.  The universe-free plan validator, the universe contract,
   the translation target and the model's own requests / execution are extracted from coq/C01. *)
From Gv Require Import lib.Bytes lib.Json lib.Gql lib.Exec lib.ExtractAnchor
     C01.ProofsBase C01.ProofsSplit C01.ProofsSim C01.ProofsJoin C01.ProofsTwoStep C01.ProofsCtxBase C01.ProofsCtx
     C01.ProofsTwoStepWf C01.ProofsPlanAlg C01.ProofsPlan C01.ProofsPlanOk
     C01.ProofsTvStatic C01.ProofsTvDefs.
Require Import ExtrOcamlBasic.
Extraction Language OCaml.
Extraction "model.ml" extraction_anchor json_eqb execute find_entity doc_size
  tv_static_b field2_shape_b plan_static_b field_static_b fetch_static_b
  univ_contract_b ent_contract_b univ_ok_b key_consistent plan_subs to_dfield client_doc model_requests
  plan_of run_plan mono_plan plan_fuel repr_from key_names pvars root_sel
  req_ok_b config_wf_b keys_disjoint keys_unaliased flat_okb flat_of key_declared reqs_static_b
  sels_noent frags_noent keys_distinct is_leaf_kind declared_obj ty_eqb not_repr.
