(* C14 proofs, part 4 (seeded round 3):
   (a) the fetch gate under the loader's other pre-fetch hooks: validatePreFetch = gate /\ rate limit, so a fetch is
       sent only if the gate allows it, whatever the limiter answers (C14-m7);
   (b) the collector over every shape of the plan tree, stated against an independent occurrence relation, with the
       list-of-lists corollary (C14-m6). *)
From Coq Require Import Lia.
From Gv Require Import lib.Bytes lib.Json C02.Model C14.Model C14.Spec C14.ProofsCollect C14.ProofsGate.
Open Scope N_scope.

(* ---- (a) ---- *)
Lemma validate_is_gate_and_limit : forall has_auth op ft k enabled limiter,
  validate_pre_fetch has_auth op (Some ft) k enabled limiter
  = is_fetch_authorized has_auth op ft k && rate_limit_fetch enabled limiter ft.
Proof. intros. unfold validate_pre_fetch. destruct (is_fetch_authorized has_auth op ft k); reflexivity. Qed.

Lemma validate_implies_gate : forall has_auth op ft k enabled limiter,
  validate_pre_fetch has_auth op (Some ft) k enabled limiter = true -> is_fetch_authorized has_auth op ft k = true.
Proof. intros *. rewrite validate_is_gate_and_limit. intro H. apply Bool.andb_true_iff in H. tauto. Qed.

Lemma gate_no_is_final : forall has_auth op ft k enabled limiter,
  is_fetch_authorized has_auth op ft k = false -> validate_pre_fetch has_auth op (Some ft) k enabled limiter = false.
Proof. intros * H. rewrite validate_is_gate_and_limit, H. reflexivity. Qed.

Definition limiter_transparent (enabled : bool) (limiter : option (fetchinfo -> rl_answer)) : Prop :=
  enabled = false \/ limiter = None \/ exists lim, limiter = Some lim /\ forall ft, lim ft = RlPass.
Lemma rate_limit_transparent : forall enabled limiter ft, limiter_transparent enabled limiter ->
  rate_limit_fetch enabled limiter ft = true.
Proof.
  intros enabled limiter ft [-> | [-> | [lim [-> H]]]]; unfold rate_limit_fetch.
  - reflexivity.
  - destruct enabled; reflexivity.
  - rewrite H. destruct enabled; reflexivity.
Qed.
Lemma validate_transparent : forall has_auth op ft k enabled limiter, limiter_transparent enabled limiter ->
  validate_pre_fetch has_auth op (Some ft) k enabled limiter = is_fetch_authorized has_auth op ft k.
Proof. intros * H. rewrite validate_is_gate_and_limit, (rate_limit_transparent _ _ _ H). apply Bool.andb_true_r. Qed.

Lemma held_back_not_consulted : forall has_auth op ft k enabled limiter,
  is_fetch_authorized has_auth op ft k = false -> limiter_consulted has_auth op (Some ft) k enabled limiter = false.
Proof. intros * H. unfold limiter_consulted. destruct limiter; [rewrite H|]; reflexivity. Qed.

(* with the cache seeded from the collector: sent => the rule of the property does not forbid it *)
Lemma sent_only_if_rule_allows : forall p d ft request_op enabled limiter, In ft (pl_fetches p) ->
  validate_pre_fetch true request_op (Some ft) (seed d (collect_coordinates p)) enabled limiter = true ->
  must_not_send (if ft_op ft =? OP_UNKNOWN then request_op else ft_op ft)
                (map (fun r => (rf_rule r, d (rf_type r) (rf_field r))) (ft_roots ft)) = false.
Proof.
  intros p d ft rop enabled limiter Hin H. apply validate_implies_gate in H.
  rewrite (fetch_gate_fetch_type_lemma p d ft rop Hin) in H. apply Bool.negb_true_iff in H. exact H.
Qed.
(* ... and under a transparent limiter exactly then *)
Lemma sent_iff_rule_allows : forall p d ft request_op enabled limiter, In ft (pl_fetches p) ->
  limiter_transparent enabled limiter ->
  validate_pre_fetch true request_op (Some ft) (seed d (collect_coordinates p)) enabled limiter
  = negb (must_not_send (if ft_op ft =? OP_UNKNOWN then request_op else ft_op ft)
                        (map (fun r => (rf_rule r, d (rf_type r) (rf_field r))) (ft_roots ft))).
Proof. intros * Hin Ht. rewrite (validate_transparent _ _ _ _ _ _ Ht). apply fetch_gate_fetch_type_lemma. exact Hin. Qed.

(* ---- (b) ---- *)
(* a field (its FieldInfo) occurs in a plan tree: directly in an object, below a field's value, or below an array's
   item -- any number of array levels, any mixture *)
Inductive occurs (f : finfo) : pnode -> Prop :=
| OccHere : forall fs name v, In (PFld name (Some f) v) fs -> occurs f (PObj fs)
| OccBelow : forall fs name info v, In (PFld name info v) fs -> occurs f v -> occurs f (PObj fs)
| OccItem : forall item, occurs f item -> occurs f (PArr item).

Lemma fields_of_obj_in : forall fs name info v f,
  In (PFld name info v) fs -> (info = Some f \/ In f (fields_of v)) -> In f (fields_of (PObj fs)).
Proof.
  induction fs as [|x r IH]; intros name info v f Hin Hf; [destruct Hin|].
  destruct x as [n i w]. simpl. destruct Hin as [E|Hin].
  - inversion E; subst. destruct Hf as [->|Hf].
    + left. reflexivity.
    + apply in_or_app. right. apply in_or_app. left. exact Hf.
  - apply in_or_app. right. apply in_or_app. right. exact (IH name info v f Hin Hf).
Qed.

Lemma occurs_fields_of : forall f n, occurs f n -> In f (fields_of n).
Proof.
  intros f n H. induction H as [fs name v Hin | fs name info v Hin Hocc IH | item Hocc IH].
  - apply (fields_of_obj_in fs name (Some f) v f Hin). left. reflexivity.
  - apply (fields_of_obj_in fs name info v f Hin). right. exact IH.
  - simpl. exact IH.
Qed.

Lemma fields_of_occurs : forall n f, In f (fields_of n) -> occurs f n.
Proof.
  apply (pnode_ind' (fun n => forall f, In f (fields_of n) -> occurs f n)).
  - intros fs H f Hin. induction H as [|x r Hx Hr IH]; [destruct Hin|].
    destruct x as [name info v]. simpl in Hx. simpl in Hin.
    apply in_app_or in Hin. destruct Hin as [Hin|Hin].
    + destruct info as [i|]; [|destruct Hin]. destruct Hin as [->|[]].
      apply (OccHere f _ name v). left. reflexivity.
    + apply in_app_or in Hin. destruct Hin as [Hin|Hin].
      * apply (OccBelow f _ name info v); [left; reflexivity | apply Hx; exact Hin].
      * specialize (IH Hin). inversion IH; subst.
        -- apply (OccHere f _ name0 v0). right. assumption.
        -- apply (OccBelow f _ name0 info0 v0); [right; assumption | assumption].
  - intros item IH f Hin. apply OccItem. apply IH. exact Hin.
  - intros f [].
Qed.

Lemma collector_complete_every_shape_lemma : forall p f s,
  occurs f (pl_root p) -> fi_rule f = true -> In s (fi_sources f) ->
  In {| co_ds := s; co_type := fi_parent f; co_field := fi_name f |} (collect_coordinates p).
Proof. intros p f s Ho Hr Hs. exact (proj1 (collector_complete_lemma p) f s (occurs_fields_of f _ Ho) Hr Hs). Qed.

(* [k] array levels around a node *)
Fixpoint nest (k : nat) (n : pnode) : pnode := match k with O => n | S k' => PArr (nest k' n) end.
Lemma occurs_nest : forall f k n, occurs f n -> occurs f (nest k n).
Proof. induction k as [|k IH]; intros n H; simpl; [exact H | apply OccItem; apply IH; exact H]. Qed.

Lemma collector_complete_nested_lists_lemma : forall op fetches k outer oinfo inner f v s,
  fi_rule f = true -> In s (fi_sources f) ->
  In {| co_ds := s; co_type := fi_parent f; co_field := fi_name f |}
     (collect_coordinates {| pl_op := op; pl_fetches := fetches;
                             pl_root := PObj [PFld outer oinfo (nest k (PObj [PFld inner (Some f) v]))] |}).
Proof.
  intros. apply collector_complete_every_shape_lemma; try assumption. cbn [pl_root].
  apply (OccBelow f _ outer oinfo (nest k (PObj [PFld inner (Some f) v]))); [left; reflexivity|].
  apply occurs_nest. apply (OccHere f _ inner v). left. reflexivity.
Qed.

(* the variant that descends into an array only when its item is an object (seeded regression C14-m6) is incomplete *)
Fixpoint collect_node_objitems (n : pnode) : list coordinate :=
  match n with
  | PObj fs =>
    (fix go (fs : list pfield) : list coordinate :=
       match fs with
       | [] => []
       | PFld _ info v :: r => info_coords info ++ collect_node_objitems v ++ go r
       end) fs
  | PArr (PObj _ as item) => collect_node_objitems item
  | PArr _ => []
  | PLeaf => []
  end.
Definition ex_board : pnode :=
  PObj [PFld [98] None (nest 2 (PObj [PFld [115] (Some {| fi_parent := [67]; fi_name := [115]; fi_rule := true; fi_sources := [[65]] |}) PLeaf]))].
Lemma objitems_variant_incomplete :
  collect_node_objitems ex_board = [] /\
  collect_node ex_board = [{| co_ds := [65]; co_type := [67]; co_field := [115] |}].
Proof. vm_compute. split; reflexivity. Qed.
