(* C14 property theorems: statements only; every proof is [exact lemma].
   Renderer part (a denied field is null, reported at its path, null-propagates like any other
   null): the C02 model carries the decision function; the two theorems are re-stated here.
   Planner / loader part: coordinate collector, seeding, fetch gate, coordinate per mode. *)
From Gv Require Import lib.Bytes lib.Json C02.Model C02.Spec C02.Properties
     C14.Model C14.Spec C14.ProofsCollect C14.ProofsGate C14.ProofsMode C14.ProofsHooks.
Open Scope N_scope.

(* ------------------------------------------------------------------ renderer part (C02) *)
(* R1: the two-pass renderer (pre-walk that nulls denied fields and null-propagates, then the
   print walk) yields exactly the errors and the tree of the one-pass completion semantics, for
   every authorization decision function, plan and data *)
Theorem c14_resolve_refines_complete :
  forall (deny : bytes -> bytes -> bool) (root : node) (data : json),
    root_wf root = true ->
    let r := resolve deny root data in
    r_panic r = false /\ r_render_err r = false /\
    r_errors r = snd (complete_root deny root data) /\
    r_data r = data_bytes (fst (complete_root deny root data)) /\
    (r_data_null r = true <-> fst (complete_root deny root data) = None).
Proof. exact C02.Properties.resolve_refines_complete. Qed.
Print Assumptions c14_resolve_refines_complete.

(* R2: every denied field is null in the result and reported as UNAUTHORIZED at its path *)
Theorem c14_denied_is_null :
  forall (deny : bytes -> bytes -> bool) (root : node) (data : json) (t : json),
    root_wf root = true ->
    fst (complete_root deny root data) = Some t ->
    denied_null_b deny root data [] [] (snd (complete_root deny root data)) t = true.
Proof. exact C02.Properties.denied_is_null. Qed.
Print Assumptions c14_denied_is_null.

(* ------------------------------------------------------------------ collector *)
(* a plan with a shareable protected field below a list, an unprotected field, a protected root
   field of an entity fetch that is not in the response tree (a planner-added @requires input) *)
Definition ex_tree : pnode :=
  PObj [PFld [109] (Some {| fi_parent := [81]; fi_name := [109]; fi_rule := false; fi_sources := [[65]] |})
             (PArr (PObj [PFld [110] (Some {| fi_parent := [85]; fi_name := [110]; fi_rule := true; fi_sources := [[66]; [65]] |}) PLeaf;
                          PFld [116] None PLeaf]))].
Definition ex_plan : plan :=
  {| pl_op := OP_QUERY;
     pl_fetches := [{| ft_ds := [65]; ft_op := OP_QUERY; ft_roots := [{| rf_type := [81]; rf_field := [109]; rf_rule := false |}] |};
                    {| ft_ds := [67]; ft_op := OP_QUERY; ft_roots := [{| rf_type := [85]; rf_field := [120]; rf_rule := true |}] |}];
     pl_root := ex_tree |}.
Example c14_collect_example :
  collect_coordinates ex_plan =
  [{| co_ds := [65]; co_type := [85]; co_field := [110] |};
   {| co_ds := [66]; co_type := [85]; co_field := [110] |};
   {| co_ds := [67]; co_type := [85]; co_field := [120] |}].
Proof. vm_compute. reflexivity. Qed.

(* T1 collector_complete: every field of the response tree with an authorization rule has its
   (ExactParentTypeName, Name) coordinate in the collected list for each of its source ids, and
   so has every protected root field of every fetch *)
Theorem collector_complete :
  forall (p : plan),
    (forall f s, In f (fields_of (pl_root p)) -> fi_rule f = true -> In s (fi_sources f) ->
                 In {| co_ds := s; co_type := fi_parent f; co_field := fi_name f |} (collect_coordinates p)) /\
    (forall ft r, In ft (pl_fetches p) -> In r (ft_roots ft) -> rf_rule r = true ->
                  In {| co_ds := ft_ds ft; co_type := rf_type r; co_field := rf_field r |} (collect_coordinates p)).
Proof. exact collector_complete_lemma. Qed.
Print Assumptions collector_complete.

(* T2 collector_sound: nothing else is put before the batch authorizer *)
Theorem collector_sound :
  forall (p : plan) (c : coordinate), In c (collect_coordinates p) ->
    (exists ft r, In ft (pl_fetches p) /\ In r (ft_roots ft) /\ rf_rule r = true /\
                  c = {| co_ds := ft_ds ft; co_type := rf_type r; co_field := rf_field r |}) \/
    (exists f s, In f (fields_of (pl_root p)) /\ fi_rule f = true /\ In s (fi_sources f) /\
                 c = {| co_ds := s; co_type := fi_parent f; co_field := fi_name f |}).
Proof. exact collector_sound_lemma. Qed.
Print Assumptions collector_sound.

(* T3: the boolean checker the driver runs on the implementation's AuthorizationCoordinates
   decides the completeness clause *)
Theorem collector_complete_checker :
  forall (p : plan) (coords : list coordinate),
    collector_complete_b p coords = true <-> collector_complete_prop p coords.
Proof. exact collector_complete_b_spec. Qed.
Print Assumptions collector_complete_checker.
Example c14_checker_example : collector_complete_b ex_plan (collect_coordinates ex_plan) = true
                              /\ collector_complete_b ex_plan (tl (collect_coordinates ex_plan)) = false.
Proof. vm_compute. split; reflexivity. Qed.

(* T4: the same on the C02 plan tree (fields carry [authinfo]; [srcs] gives their source ids) *)
Theorem collector_complete_c02 :
  forall (srcs : authinfo -> list bytes) (root : node) (fetches : list fetchinfo) (op : N) (a : authinfo) (s : bytes),
    In a (node_auths root) -> In s (srcs a) ->
    In {| co_ds := s; co_type := au_parent_type a; co_field := au_field a |}
       (collect_coordinates {| pl_op := op; pl_fetches := fetches; pl_root := of_node srcs root |}).
Proof. exact collector_complete_c02_lemma. Qed.
Print Assumptions collector_complete_c02.
Example c14_c02_example :
  node_auths C02.Properties.ex_auth_plan = [{| au_parent_type := [84]; au_field := [97] |}] /\
  collect_coordinates {| pl_op := OP_QUERY; pl_fetches := []; pl_root := of_node (fun _ => [[65]]) C02.Properties.ex_auth_plan |}
  = [{| co_ds := [65]; co_type := [84]; co_field := [97] |}].
Proof. vm_compute. split; reflexivity. Qed.

(* T4b (seeded regression C14-m6): completeness over EVERY shape of the plan tree, against an independent occurrence
   relation (a field occurs directly in an object, below a field's value, or below an array's item -- any number of
   array levels in any mixture): [fields_of], which the other collector theorems quantify over, is exactly it, and every
   rule-carrying field that occurs in the tree has its coordinates collected; in particular below [k] list levels *)
Theorem fields_of_is_occurrence : forall (n : pnode) (f : finfo), In f (fields_of n) <-> occurs f n.
Proof. intros n f. split; [apply fields_of_occurs | apply occurs_fields_of]. Qed.
Print Assumptions fields_of_is_occurrence.
Theorem collector_complete_every_shape :
  forall (p : plan) (f : finfo) (s : bytes),
    occurs f (pl_root p) -> fi_rule f = true -> In s (fi_sources f) ->
    In {| co_ds := s; co_type := fi_parent f; co_field := fi_name f |} (collect_coordinates p).
Proof. exact collector_complete_every_shape_lemma. Qed.
Print Assumptions collector_complete_every_shape.
Theorem collector_complete_nested_lists :
  forall (op : N) (fetches : list fetchinfo) (k : nat) (outer : bytes) (oinfo : option finfo) (inner : bytes)
         (f : finfo) (v : pnode) (s : bytes),
    fi_rule f = true -> In s (fi_sources f) ->
    In {| co_ds := s; co_type := fi_parent f; co_field := fi_name f |}
       (collect_coordinates {| pl_op := op; pl_fetches := fetches;
                               pl_root := PObj [PFld outer oinfo (nest k (PObj [PFld inner (Some f) v]))] |}).
Proof. exact collector_complete_nested_lists_lemma. Qed.
Print Assumptions collector_complete_nested_lists.
(* `{ board { secret } }` with board: [[Cell]]: collected; the variant that descends into an array only when its item is
   an object collects nothing *)
Example c14_collector_nested_list_example :
  collect_coordinates {| pl_op := OP_QUERY; pl_fetches := []; pl_root := ex_board |}
  = [{| co_ds := [65]; co_type := [67]; co_field := [115] |}] /\
  collect_node_objitems ex_board = [].
Proof. vm_compute. split; reflexivity. Qed.

(* T5 unseeded_never_reached: with the decisions seeded from the collected coordinates by the
   batch authorizer [d] (true = deny), the coordinate the pre-fetch renderer consults for ANY field
   of the tree, whatever the data, is seeded, and the decision it gets is [d] of the field's
   plan-time coordinate -- "unseeded = allowed" is never reached for a field of the tree *)
Theorem unseeded_never_reached :
  forall (p : plan) (d : bytes -> bytes -> bool) (f : finfo) (value : option json) (c : coordinate),
    In f (fields_of (pl_root p)) -> consulted true value f = Some c ->
    In c (collect_coordinates p) /\
    decide_prefetch (seed d (collect_coordinates p)) c = d (fi_parent f) (fi_name f).
Proof. exact unseeded_never_reached_lemma. Qed.
Print Assumptions unseeded_never_reached.
(* ... while an unseeded coordinate is allowed: the hole that completeness closes *)
Theorem unseeded_is_allowed :
  forall (d : bytes -> bytes -> bool) (coords : list coordinate) (c : coordinate),
    ~ In c coords -> decide_prefetch (seed d coords) c = false.
Proof. exact decide_prefetch_unseeded. Qed.
Print Assumptions unseeded_is_allowed.
Example c14_unseeded_example :
  let deny_all := fun _ _ : bytes => true in
  decide_prefetch (seed deny_all (collect_coordinates ex_plan)) {| co_ds := [66]; co_type := [85]; co_field := [110] |} = true /\
  decide_prefetch (seed deny_all (tl (tl (collect_coordinates ex_plan)))) {| co_ds := [66]; co_type := [85]; co_field := [110] |} = false.
Proof. vm_compute. split; reflexivity. Qed.

(* ------------------------------------------------------------------ fetch gate *)
(* T6: a query request is held back exactly when it has a root field and every root field is
   protected and has a cached deny decision *)
Theorem fetch_gate_query :
  forall (ds : bytes) (roots : list rootfield) (k : cache),
    is_fetch_authorized_from_cache true OP_QUERY ds roots k = false <->
    roots <> [] /\
    forall r, In r roots ->
              rf_rule r = true /\ deny_reason k {| co_ds := ds; co_type := rf_type r; co_field := rf_field r |} = true.
Proof. exact fetch_gate_query_lemma. Qed.
Print Assumptions fetch_gate_query.

(* T7: a mutation / subscription request (any operation type other than query) is held back
   exactly when some root field is protected and has a cached deny decision *)
Theorem fetch_gate_mutation :
  forall (optype : N) (ds : bytes) (roots : list rootfield) (k : cache), optype <> OP_QUERY ->
    (is_fetch_authorized_from_cache true optype ds roots k = false <->
     exists r, In r roots /\ rf_rule r = true /\
               deny_reason k {| co_ds := ds; co_type := rf_type r; co_field := rf_field r |} = true).
Proof. exact fetch_gate_nonquery_lemma. Qed.
Print Assumptions fetch_gate_mutation.

(* T8: an UNSEEDED root coordinate lets the request through: a query request with a root field
   whose coordinate was not seeded is sent whatever the decisions of the others; a mutation
   request none of whose root coordinates was seeded is sent *)
Theorem fetch_gate_unseeded_query :
  forall (d : bytes -> bytes -> bool) (coords : list coordinate) (ds : bytes) (roots : list rootfield) (r : rootfield),
    In r roots -> ~ In {| co_ds := ds; co_type := rf_type r; co_field := rf_field r |} coords ->
    is_fetch_authorized_from_cache true OP_QUERY ds roots (seed d coords) = true.
Proof. exact fetch_gate_unseeded_query_lemma. Qed.
Print Assumptions fetch_gate_unseeded_query.
Theorem fetch_gate_unseeded_mutation :
  forall (d : bytes -> bytes -> bool) (coords : list coordinate) (optype : N) (ds : bytes) (roots : list rootfield),
    optype <> OP_QUERY ->
    (forall r, In r roots -> ~ In {| co_ds := ds; co_type := rf_type r; co_field := rf_field r |} coords) ->
    is_fetch_authorized_from_cache true optype ds roots (seed d coords) = true.
Proof. exact fetch_gate_unseeded_nonquery_lemma. Qed.
Print Assumptions fetch_gate_unseeded_mutation.

(* T9 fetch_gate: with the cache seeded from the collector by the batch authorizer [d], the
   verdict for every fetch of the plan is the rule of the property over the authorizer's answers
   for the fetch's root coordinates: not sent iff (query) all root fields are protected and denied
   / (otherwise) some root field is *)
Theorem fetch_gate :
  forall (p : plan) (d : bytes -> bytes -> bool) (ft : fetchinfo) (optype : N), In ft (pl_fetches p) ->
    is_fetch_authorized_from_cache true optype (ft_ds ft) (ft_roots ft) (seed d (collect_coordinates p))
    = negb (must_not_send optype (map (fun r => (rf_rule r, d (rf_type r) (rf_field r))) (ft_roots ft))).
Proof. exact fetch_gate_plan_lemma. Qed.
Print Assumptions fetch_gate.
(* T9b: the gate reads FetchInfo.RootFields only: a fetch for which the planner recorded no root
   field is never held back, whatever the decisions (the planner used to record none for an
   entity fetch planned below an inline fragment -- repaired finding
   gate-entity-fetch-below-fragment-has-no-root-fields; the request-level fetch_gate clause watches it) *)
Theorem fetch_gate_without_root_fields :
  forall (has_authorization : bool) (optype : N) (ds : bytes) (k : cache),
    is_fetch_authorized_from_cache has_authorization optype ds [] k = true.
Proof. exact gate_no_root_fields. Qed.
Print Assumptions fetch_gate_without_root_fields.
Example c14_gate_example :
  let deny_x := fun (_ f : bytes) => bytes_eqb f [120] in
  let k := seed deny_x (collect_coordinates ex_plan) in
  (* the entity fetch whose only root field is the denied U.x is not sent; as a mutation with a
     second, allowed root field it is still not sent; as a query with that second field it is *)
  is_fetch_authorized_from_cache true OP_QUERY [67] [{| rf_type := [85]; rf_field := [120]; rf_rule := true |}] k = false /\
  is_fetch_authorized_from_cache true OP_MUTATION [67]
     [{| rf_type := [85]; rf_field := [121]; rf_rule := false |}; {| rf_type := [85]; rf_field := [120]; rf_rule := true |}] k = false /\
  is_fetch_authorized_from_cache true OP_QUERY [67]
     [{| rf_type := [85]; rf_field := [121]; rf_rule := false |}; {| rf_type := [85]; rf_field := [120]; rf_rule := true |}] k = true /\
  (* no root fields recorded: never held back *)
  is_fetch_authorized_from_cache true OP_QUERY [67] [] k = true.
Proof. vm_compute. repeat split. Qed.

(* T9c: the rule is chosen by the operation type of the FETCH, not of the request: with the cache
   seeded from the collector, a fetch of the plan is held back iff the rule for its own type says so
   (query: all root fields denied; mutation / subscription: any); the request's operation type is
   used only for a fetch that carries none, and is otherwise irrelevant -- a query-typed nested
   _entities fetch below a mutation keeps the query rule *)
Theorem fetch_gate_fetch_type :
  forall (p : plan) (d : bytes -> bytes -> bool) (ft : fetchinfo) (request_op : N), In ft (pl_fetches p) ->
    is_fetch_authorized true request_op ft (seed d (collect_coordinates p))
    = negb (must_not_send (if ft_op ft =? OP_UNKNOWN then request_op else ft_op ft)
                          (map (fun r => (rf_rule r, d (rf_type r) (rf_field r))) (ft_roots ft))).
Proof. exact fetch_gate_fetch_type_lemma. Qed.
Print Assumptions fetch_gate_fetch_type.
Theorem fetch_gate_request_type_irrelevant_for_typed_fetch :
  forall (ft : fetchinfo) (k : cache) (request_op1 request_op2 : N), ft_op ft <> OP_UNKNOWN ->
    is_fetch_authorized true request_op1 ft k = is_fetch_authorized true request_op2 ft k.
Proof. exact fetch_gate_request_type_irrelevant. Qed.
Print Assumptions fetch_gate_request_type_irrelevant_for_typed_fetch.
Example c14_gate_fetch_type_example :
  let deny_x := fun (_ f : bytes) => bytes_eqb f [120] in
  let roots := [{| rf_type := [85]; rf_field := [121]; rf_rule := true |}; {| rf_type := [85]; rf_field := [120]; rf_rule := true |}] in
  let nested := {| ft_ds := [67]; ft_op := OP_QUERY; ft_roots := roots |} in
  let p := {| pl_op := OP_MUTATION; pl_fetches := [nested]; pl_root := PLeaf |} in
  let k := seed deny_x (collect_coordinates p) in
  (* U.y allowed, U.x denied: the query-typed nested fetch is sent although the request is a mutation ... *)
  is_fetch_authorized true OP_MUTATION nested k = true /\
  (* ... a mutation-typed fetch with the same root fields is not, whatever the request says ... *)
  is_fetch_authorized true OP_QUERY {| ft_ds := [67]; ft_op := OP_MUTATION; ft_roots := roots |} k = false /\
  (* ... and only a fetch without a type of its own follows the request *)
  is_fetch_authorized true OP_MUTATION {| ft_ds := [67]; ft_op := OP_UNKNOWN; ft_roots := roots |} k = false /\
  is_fetch_authorized true OP_QUERY {| ft_ds := [67]; ft_op := OP_UNKNOWN; ft_roots := roots |} k = true.
Proof. vm_compute. repeat split. Qed.

(* T9d (seeded regression C14-m7): the gate under the loader's other pre-fetch hooks.  validatePreFetch is the gate AND
   the rate limiter: for every limiter (absent, passing, rejecting, failing; enabled or not) and every cache a fetch
   that carries a FetchInfo is sent ONLY IF the gate allows it -- the limiter cannot turn the gate's "no" into a "yes" *)
Theorem validate_pre_fetch_is_gate_and_limit :
  forall (has_authorization : bool) (request_op : N) (ft : fetchinfo) (k : cache)
         (enabled : bool) (limiter : option (fetchinfo -> rl_answer)),
    validate_pre_fetch has_authorization request_op (Some ft) k enabled limiter
    = is_fetch_authorized has_authorization request_op ft k && rate_limit_fetch enabled limiter ft.
Proof. exact validate_is_gate_and_limit. Qed.
Print Assumptions validate_pre_fetch_is_gate_and_limit.
Theorem fetch_gate_under_rate_limit :
  forall (has_authorization : bool) (request_op : N) (ft : fetchinfo) (k : cache)
         (enabled : bool) (limiter : option (fetchinfo -> rl_answer)),
    validate_pre_fetch has_authorization request_op (Some ft) k enabled limiter = true ->
    is_fetch_authorized has_authorization request_op ft k = true.
Proof. exact validate_implies_gate. Qed.
Print Assumptions fetch_gate_under_rate_limit.
(* ... so, with the cache seeded from the collector by the batch authorizer [d], a fetch of the plan that is sent is one
   the rule of the property does not forbid, whatever the limiter answers; and under a limiter that is off, absent or
   lets everything pass, it is sent exactly then (rate limiting that passes is transparent) *)
Theorem fetch_gate_sent_only_if_rule_allows :
  forall (p : plan) (d : bytes -> bytes -> bool) (ft : fetchinfo) (request_op : N)
         (enabled : bool) (limiter : option (fetchinfo -> rl_answer)), In ft (pl_fetches p) ->
    validate_pre_fetch true request_op (Some ft) (seed d (collect_coordinates p)) enabled limiter = true ->
    must_not_send (if ft_op ft =? OP_UNKNOWN then request_op else ft_op ft)
                  (map (fun r => (rf_rule r, d (rf_type r) (rf_field r))) (ft_roots ft)) = false.
Proof. exact sent_only_if_rule_allows. Qed.
Print Assumptions fetch_gate_sent_only_if_rule_allows.
Theorem fetch_gate_transparent_limiter :
  forall (p : plan) (d : bytes -> bytes -> bool) (ft : fetchinfo) (request_op : N)
         (enabled : bool) (limiter : option (fetchinfo -> rl_answer)), In ft (pl_fetches p) ->
    limiter_transparent enabled limiter ->
    validate_pre_fetch true request_op (Some ft) (seed d (collect_coordinates p)) enabled limiter
    = negb (must_not_send (if ft_op ft =? OP_UNKNOWN then request_op else ft_op ft)
                          (map (fun r => (rf_rule r, d (rf_type r) (rf_field r))) (ft_roots ft))).
Proof. exact sent_iff_rule_allows. Qed.
Print Assumptions fetch_gate_transparent_limiter.
(* a fetch the gate holds back does not reach the limiter (consumes no budget) *)
Theorem held_back_fetch_not_rate_limited :
  forall (has_authorization : bool) (request_op : N) (ft : fetchinfo) (k : cache)
         (enabled : bool) (limiter : option (fetchinfo -> rl_answer)),
    is_fetch_authorized has_authorization request_op ft k = false ->
    validate_pre_fetch has_authorization request_op (Some ft) k enabled limiter = false /\
    limiter_consulted has_authorization request_op (Some ft) k enabled limiter = false.
Proof. intros. split; [apply gate_no_is_final | apply held_back_not_consulted]; assumption. Qed.
Print Assumptions held_back_fetch_not_rate_limited.
Example c14_gate_rate_limit_example :
  let deny_x := fun (_ f : bytes) => bytes_eqb f [120] in
  let mut := {| ft_ds := [67]; ft_op := OP_MUTATION; ft_roots := [{| rf_type := [77]; rf_field := [120]; rf_rule := true |}] |} in
  let ok := {| ft_ds := [67]; ft_op := OP_MUTATION; ft_roots := [{| rf_type := [77]; rf_field := [121]; rf_rule := true |}] |} in
  let p := {| pl_op := OP_MUTATION; pl_fetches := [mut; ok]; pl_root := PLeaf |} in
  let k := seed deny_x (collect_coordinates p) in
  let pass := Some (fun _ : fetchinfo => RlPass) in
  let reject := Some (fun _ : fetchinfo => RlReject) in
  (* the denied mutation fetch is not sent: limiter off, enabled and passing, enabled and rejecting *)
  validate_pre_fetch true OP_MUTATION (Some mut) k false None = false /\
  validate_pre_fetch true OP_MUTATION (Some mut) k true pass = false /\
  validate_pre_fetch true OP_MUTATION (Some mut) k true reject = false /\
  limiter_consulted true OP_MUTATION (Some mut) k true pass = false /\
  (* the allowed one follows the limiter *)
  validate_pre_fetch true OP_MUTATION (Some ok) k true pass = true /\
  validate_pre_fetch true OP_MUTATION (Some ok) k true reject = false /\
  validate_pre_fetch true OP_MUTATION (Some ok) k false reject = true /\
  (* a fetch without FetchInfo is not validated *)
  validate_pre_fetch true OP_MUTATION None k true reject = true.
Proof. vm_compute. repeat split. Qed.

(* ------------------------------------------------------------------ coordinate per mode *)
(* T10: pre-fetch mode authorizes under the plan-time type, post-fetch mode under the runtime
   __typename of the enclosing object (plan-time type when the data has none) *)
Theorem coordinate_mode :
  forall (v : json) (f : finfo),
    field_coordinate true (Some v) f = (fi_parent f, fi_name f) /\
    field_coordinate false (Some v) f = (match typename_of v with Some t => t | None => fi_parent f end, fi_name f) /\
    (forall t, typename_of v = Some t -> t <> fi_parent f ->
               field_coordinate false (Some v) f <> field_coordinate true (Some v) f).
Proof. exact coordinate_mode_lemma. Qed.
Print Assumptions coordinate_mode.
Example c14_mode_example :
  let f := {| fi_parent := [73]; fi_name := [102]; fi_rule := true; fi_sources := [[65]] |} in
  let v := JObj [([95;95;116;121;112;101;110;97;109;101], JStr [84])] in
  consulted true (Some v) f = Some {| co_ds := [65]; co_type := [73]; co_field := [102] |} /\
  consulted false (Some v) f = Some {| co_ds := [65]; co_type := [84]; co_field := [102] |}.
Proof. vm_compute. split; reflexivity. Qed.
