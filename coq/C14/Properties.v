(* C14 property theorems (renderer part); proofs live in C02 (the model is shared). In progress. *)
From Gv Require Import lib.Bytes lib.Json C02.Model C02.Spec.
