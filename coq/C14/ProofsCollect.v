(* C14 proofs, part 1: the coordinate collector is complete and sound; seeding from it leaves no
   protected field of the tree (and no protected root field of a fetch) without a decision. *)
From Coq Require Import Lia ZifyN ZifyBool.
From Gv Require Import lib.Bytes lib.Json C02.Model C02.Spec C02.ProofsBase C14.Model C14.Spec.
Open Scope N_scope.

(* ---- nested induction on the reduced plan tree ---- *)
Definition pfval (f : pfield) : pnode := match f with PFld _ _ v => v end.
Section PnodeInd.
  Variable P : pnode -> Prop.
  Hypothesis Hobj : forall fs, Forall (fun f => P (pfval f)) fs -> P (PObj fs).
  Hypothesis Harr : forall item, P item -> P (PArr item).
  Hypothesis Hleaf : P PLeaf.
  Fixpoint pnode_ind' (n : pnode) : P n :=
    match n with
    | PObj fs =>
      Hobj fs ((fix go (fs : list pfield) : Forall (fun f => P (pfval f)) fs :=
                  match fs with
                  | [] => Forall_nil _
                  | f :: r => Forall_cons f (match f return P (pfval f) with PFld _ _ v => pnode_ind' v end) (go r)
                  end) fs)
    | PArr item => Harr item (pnode_ind' item)
    | PLeaf => Hleaf
    end.
End PnodeInd.

(* ---- comparison ---- *)
Lemma bytes_compare_eq : forall a b, bytes_compare a b = Eq -> a = b.
Proof.
  induction a as [|x a IH]; destruct b as [|y b]; simpl; intro H; try discriminate; [reflexivity|].
  destruct (N.compare x y) eqn:E; try discriminate.
  apply N.compare_eq in E. subst. f_equal. apply IH. exact H.
Qed.
Lemma bytes_compare_refl : forall a, bytes_compare a a = Eq.
Proof. induction a as [|x a IH]; simpl; [reflexivity|]. rewrite N.compare_refl. exact IH. Qed.
Lemma coord_compare_eq : forall a b, coord_compare a b = Eq -> a = b.
Proof.
  intros [d1 t1 f1] [d2 t2 f2]. unfold coord_compare. cbn [co_ds co_type co_field].
  destruct (bytes_compare d1 d2) eqn:E1; try discriminate.
  destruct (bytes_compare t1 t2) eqn:E2; try discriminate.
  intro E3. apply bytes_compare_eq in E1, E2, E3. subst. reflexivity.
Qed.
Lemma coord_compare_refl : forall a, coord_compare a a = Eq.
Proof. intros [d t f]. unfold coord_compare. cbn. rewrite !bytes_compare_refl. reflexivity. Qed.

Lemma coord_eqb_eq : forall a b, coord_eqb a b = true <-> a = b.
Proof.
  intros [d1 t1 f1] [d2 t2 f2]. unfold coord_eqb. cbn [co_ds co_type co_field].
  rewrite !Bool.andb_true_iff, !bytes_eqb_eq. split.
  - intros [[-> ->] ->]. reflexivity.
  - intro H. inversion H. auto.
Qed.
Lemma coord_mem_In : forall c l, coord_mem c l = true <-> In c l.
Proof.
  intros c l. unfold coord_mem. rewrite existsb_exists. split.
  - intros [x [Hx He]]. apply coord_eqb_eq in He. subst. exact Hx.
  - intro H. exists c. split; [exact H | apply coord_eqb_eq; reflexivity].
Qed.

(* ---- the map + sort keeps exactly the members ---- *)
Lemma In_insert : forall c l x, In x (insert_coord c l) <-> x = c \/ In x l.
Proof.
  intros c l x. induction l as [|y r IH]; simpl.
  - intuition.
  - destruct (coord_compare c y) eqn:E.
    + apply coord_compare_eq in E. subst y. simpl. intuition.
    + simpl. intuition.
    + simpl. rewrite IH. intuition.
Qed.
Lemma In_sort_dedup : forall l x, In x (sort_dedup l) <-> In x l.
Proof.
  induction l as [|c r IH]; intro x; simpl; [tauto|].
  rewrite In_insert, IH. intuition.
Qed.

(* ---- collectNode = the coordinates of the fields of the tree ---- *)
Lemma collect_node_fields : forall n, collect_node n = flat_map field_coords (fields_of n).
Proof.
  apply pnode_ind'.
  - intros fs H. simpl. induction H as [|f r Hf Hr IH]; [reflexivity|].
    destruct f as [name info v]. simpl in Hf. rewrite IH, Hf.
    rewrite flat_map_app, flat_map_app. destruct info as [i|]; simpl; [rewrite app_nil_r|]; reflexivity.
  - intros item IH. simpl. exact IH.
  - reflexivity.
Qed.

Lemma in_field_coords : forall f s, fi_rule f = true -> In s (fi_sources f) ->
  In {| co_ds := s; co_type := fi_parent f; co_field := fi_name f |} (field_coords f).
Proof.
  intros f s Hr Hs. unfold field_coords. rewrite Hr.
  apply in_map with (f := fun s => {| co_ds := s; co_type := fi_parent f; co_field := fi_name f |}). exact Hs.
Qed.

Lemma tree_covered_raw : forall root, tree_covered root (collect_node root).
Proof.
  intros root f s Hf Hr Hs. rewrite collect_node_fields. apply in_flat_map.
  exists f. split; [exact Hf | apply in_field_coords; assumption].
Qed.

Lemma fetches_covered_raw : forall fs, fetches_covered fs (flat_map collect_fetch fs).
Proof.
  intros fs ft r Hft Hr Hrule. apply in_flat_map. exists ft. split; [exact Hft|].
  unfold collect_fetch. apply in_flat_map. exists r. split; [exact Hr|]. rewrite Hrule. left. reflexivity.
Qed.

Lemma collector_complete_lemma : forall p, collector_complete_prop p (collect_coordinates p).
Proof.
  intro p. unfold collect_coordinates, collect_raw. split.
  - intros f s Hf Hr Hs. apply In_sort_dedup. apply in_or_app. right. apply tree_covered_raw; assumption.
  - intros ft r Hft Hr Hrule. apply In_sort_dedup. apply in_or_app. left.
    apply (fetches_covered_raw (pl_fetches p) ft r); assumption.
Qed.

(* the boolean checker decides the Prop *)
Lemma field_covered_b_spec : forall coords f,
  field_covered_b coords f = true <->
  (fi_rule f = true -> forall s, In s (fi_sources f) ->
                                 In {| co_ds := s; co_type := fi_parent f; co_field := fi_name f |} coords).
Proof.
  intros coords f. unfold field_covered_b. destruct (fi_rule f).
  - rewrite forallb_forall. split.
    + intros H _ s Hs. apply coord_mem_In. apply H. exact Hs.
    + intros H s Hs. apply coord_mem_In. apply H; [reflexivity | exact Hs].
  - split; [intros _ H; discriminate | reflexivity].
Qed.
Lemma collector_complete_b_spec : forall p coords,
  collector_complete_b p coords = true <-> collector_complete_prop p coords.
Proof.
  intros p coords. unfold collector_complete_b, collector_complete_prop, tree_covered, fetches_covered.
  rewrite Bool.andb_true_iff, !forallb_forall. split.
  - intros [Ht Hf]. split.
    + intros f s Hin Hr Hs. exact (proj1 (field_covered_b_spec coords f) (Ht f Hin) Hr s Hs).
    + intros ft r Hft Hr Hrule. specialize (Hf ft Hft). unfold fetch_covered_b in Hf.
      rewrite forallb_forall in Hf. specialize (Hf r Hr). rewrite Hrule in Hf. apply coord_mem_In. exact Hf.
  - intros [Ht Hf]. split.
    + intros f Hin. apply field_covered_b_spec. intros Hr s Hs. exact (Ht f s Hin Hr Hs).
    + intros ft Hft. unfold fetch_covered_b. rewrite forallb_forall. intros r Hr.
      destruct (rf_rule r) eqn:E; [|reflexivity]. apply coord_mem_In. exact (Hf ft r Hft Hr E).
Qed.

(* soundness: only rule-carrying coordinates are put before the authorizer *)
Lemma collector_sound_lemma : forall p c, In c (collect_coordinates p) ->
  (exists ft r, In ft (pl_fetches p) /\ In r (ft_roots ft) /\ rf_rule r = true /\
                c = {| co_ds := ft_ds ft; co_type := rf_type r; co_field := rf_field r |}) \/
  (exists f s, In f (fields_of (pl_root p)) /\ fi_rule f = true /\ In s (fi_sources f) /\
               c = {| co_ds := s; co_type := fi_parent f; co_field := fi_name f |}).
Proof.
  intros p c H. unfold collect_coordinates in H. apply (proj1 (In_sort_dedup _ _)) in H. unfold collect_raw in H.
  apply in_app_or in H. destruct H as [H|H].
  - left. apply in_flat_map in H. destruct H as [ft [Hft H]]. unfold collect_fetch in H.
    apply in_flat_map in H. destruct H as [r [Hr H]]. destruct (rf_rule r) eqn:E; [|destruct H].
    destruct H as [H|[]]. exists ft, r. auto.
  - right. rewrite collect_node_fields in H. apply in_flat_map in H. destruct H as [f [Hf H]].
    unfold field_coords in H. destruct (fi_rule f) eqn:E; [|destruct H].
    apply in_map_iff in H. destruct H as [s [Hc Hs]]. exists f, s. auto.
Qed.

(* ---- seeding ---- *)
Lemma seed_allow_In : forall d coords c, In c (c_allow (seed d coords)) <-> In c coords /\ d (co_type c) (co_field c) = false.
Proof. intros. unfold seed. cbn. rewrite filter_In, Bool.negb_true_iff. tauto. Qed.
Lemma seed_deny_In : forall d coords c, In c (c_deny (seed d coords)) <-> In c coords /\ d (co_type c) (co_field c) = true.
Proof. intros. unfold seed. cbn. rewrite filter_In. tauto. Qed.

Lemma mem_false_notin : forall c l, coord_mem c l = false <-> ~ In c l.
Proof.
  intros c l. split.
  - intros H Hin. apply coord_mem_In in Hin. congruence.
  - intro H. destruct (coord_mem c l) eqn:E; [|reflexivity]. apply coord_mem_In in E. contradiction.
Qed.

(* a seeded coordinate gets exactly the batch authorizer's decision; an unseeded one is allowed *)
Lemma decide_prefetch_seeded : forall d coords c, In c coords ->
  decide_prefetch (seed d coords) c = d (co_type c) (co_field c).
Proof.
  intros d coords c Hin. unfold decide_prefetch, decide.
  destruct (d (co_type c) (co_field c)) eqn:E.
  - assert (Ha : coord_mem c (c_allow (seed d coords)) = false).
    { apply mem_false_notin. intro H. apply seed_allow_In in H. destruct H. congruence. }
    assert (Hd : coord_mem c (c_deny (seed d coords)) = true).
    { apply coord_mem_In. apply seed_deny_In. auto. }
    rewrite Ha, Hd. reflexivity.
  - assert (Ha : coord_mem c (c_allow (seed d coords)) = true).
    { apply coord_mem_In. apply seed_allow_In. auto. }
    rewrite Ha. reflexivity.
Qed.
Lemma decide_prefetch_unseeded : forall d coords c, ~ In c coords -> decide_prefetch (seed d coords) c = false.
Proof.
  intros d coords c Hn. unfold decide_prefetch, decide.
  assert (Ha : coord_mem c (c_allow (seed d coords)) = false).
  { apply mem_false_notin. intro H. apply seed_allow_In in H. tauto. }
  assert (Hd : coord_mem c (c_deny (seed d coords)) = false).
  { apply mem_false_notin. intro H. apply seed_deny_In in H. tauto. }
  rewrite Ha, Hd. reflexivity.
Qed.
Lemma deny_reason_seeded : forall d coords c,
  deny_reason (seed d coords) c = true <-> In c coords /\ d (co_type c) (co_field c) = true.
Proof. intros. unfold deny_reason. rewrite coord_mem_In. apply seed_deny_In. Qed.

(* the coordinate the renderer consults in pre-fetch mode is the plan-time one, whatever the data *)
Lemma consulted_prefetch : forall value f c, consulted true value f = Some c ->
  fi_rule f = true /\ exists s r, fi_sources f = s :: r /\ c = {| co_ds := s; co_type := fi_parent f; co_field := fi_name f |}.
Proof.
  intros value f c H. unfold consulted in H. destruct (fi_rule f) eqn:E; [|discriminate].
  destruct (fi_sources f) as [|s r] eqn:Es; [discriminate|]. cbn in H. inversion H. split; [reflexivity|].
  exists s, r. auto.
Qed.

Lemma unseeded_never_reached_lemma : forall p d f value c,
  In f (fields_of (pl_root p)) -> consulted true value f = Some c ->
  In c (collect_coordinates p) /\
  decide_prefetch (seed d (collect_coordinates p)) c = d (fi_parent f) (fi_name f).
Proof.
  intros p d f value c Hf Hc. apply consulted_prefetch in Hc. destruct Hc as [Hr [s [r [Hs ->]]]].
  assert (Hin : In {| co_ds := s; co_type := fi_parent f; co_field := fi_name f |} (collect_coordinates p)).
  { apply (proj1 (collector_complete_lemma p) f s Hf Hr). rewrite Hs. left. reflexivity. }
  split; [exact Hin|]. rewrite (decide_prefetch_seeded d _ _ Hin). reflexivity.
Qed.

(* the gate never reads an unseeded coordinate for a protected root field *)
Lemma gate_roots_seeded_lemma : forall p ft r, In ft (pl_fetches p) -> In r (ft_roots ft) -> rf_rule r = true ->
  In {| co_ds := ft_ds ft; co_type := rf_type r; co_field := rf_field r |} (collect_coordinates p).
Proof. intros p ft r Hft Hr Hrule. exact (proj2 (collector_complete_lemma p) ft r Hft Hr Hrule). Qed.

(* ---- the C02 tree ---- *)
Lemma fields_of_node : forall srcs n, fields_of (of_node srcs n) = map (finfo_of srcs) (node_auths n).
Proof.
  intro srcs. apply node_ind'; try reflexivity.
  - intros p nl ty poss inacc unres fields H. simpl.
    induction H as [|f r Hf Hr IH]; [reflexivity|].
    destruct f as [name on pon auth child]. simpl in Hf. rewrite IH, Hf.
    rewrite !map_app. destruct auth as [a|]; reflexivity.
  - intros p nl item IH. simpl. exact IH.
Qed.

Lemma collector_complete_c02_lemma : forall srcs root fetches op a s,
  In a (node_auths root) -> In s (srcs a) ->
  In {| co_ds := s; co_type := au_parent_type a; co_field := au_field a |}
     (collect_coordinates {| pl_op := op; pl_fetches := fetches; pl_root := of_node srcs root |}).
Proof.
  intros srcs root fetches op a s Ha Hs.
  apply (proj1 (collector_complete_lemma {| pl_op := op; pl_fetches := fetches; pl_root := of_node srcs root |})
               (finfo_of srcs a) s).
  - cbn [pl_root]. rewrite fields_of_node. apply in_map. exact Ha.
  - reflexivity.
  - exact Hs.
Qed.
