(* C14 (planner / loader part): the collector, seeding and gate models and the clause checkers. *)
From Gv Require Import lib.Bytes lib.Json lib.ExtractAnchor C02.Model C02.Spec C14.Model C14.Spec.
Require Import ExtrOcamlBasic.
Extraction Language OCaml.
Extraction "model.ml" extraction_anchor json_eqb
  collect_coordinates collector_complete_b collector_sound_b coord_eqb
  seed deny_reason decide_prefetch is_fetch_authorized_from_cache is_fetch_authorized validate_pre_fetch fetch_optype consulted
  gate_spec_b must_not_send
  denied_absent_b denied_reported_b untouched_b asked_complete_b batch_questions same_tf_set.
