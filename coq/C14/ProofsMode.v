(* C14 proofs, part 3: which coordinate a field is authorized under in the two modes. *)
From Gv Require Import lib.Bytes lib.Json C02.Model C02.Spec C02.ProofsBase C14.Model C14.Spec.
Open Scope N_scope.

(* pre-fetch mode: the plan-time coordinate (ExactParentTypeName, Name), whatever the data *)
Lemma coordinate_mode_prefetch : forall value f, field_coordinate true value f = (fi_parent f, fi_name f).
Proof. reflexivity. Qed.

(* post-fetch mode: the runtime __typename of the enclosing object when it has one, else the
   plan-time type; unreached fields (no enclosing value) use the plan-time type *)
Lemma coordinate_mode_postfetch : forall v f,
  field_coordinate false (Some v) f =
  (match typename_of v with Some t => t | None => fi_parent f end, fi_name f).
Proof. reflexivity. Qed.
Lemma coordinate_mode_unreached : forall prefetch f, field_coordinate prefetch None f = (fi_parent f, fi_name f).
Proof. intros [|] f; reflexivity. Qed.

(* the post-fetch coordinate is the one the C02 renderer model passes to its decision function *)
Lemma coordinate_mode_c02 : forall (deny : bytes -> bytes -> bool) srcs a value,
  deny (match typename_of value with Some t => t | None => au_parent_type a end) (au_field a) =
  (let '(t, n) := field_coordinate false (Some value) (finfo_of srcs a) in deny t n).
Proof. reflexivity. Qed.

(* the modes agree when the object's runtime type is the plan-time type or unknown ... *)
Lemma coordinate_mode_agree : forall v f,
  typename_of v = Some (fi_parent f) \/ typename_of v = None ->
  field_coordinate false (Some v) f = field_coordinate true (Some v) f.
Proof. intros v f [H|H]; unfold field_coordinate; cbn; rewrite H; reflexivity. Qed.
(* ... and differ exactly when the data carries another type name (an abstract plan-time parent) *)
Lemma coordinate_mode_differ : forall v f t,
  typename_of v = Some t -> t <> fi_parent f ->
  field_coordinate false (Some v) f <> field_coordinate true (Some v) f.
Proof.
  intros v f t H Hne E. unfold field_coordinate in E. cbn in E. rewrite H in E. inversion E. contradiction.
Qed.

Lemma coordinate_mode_lemma : forall (v : json) (f : finfo),
    field_coordinate true (Some v) f = (fi_parent f, fi_name f) /\
    field_coordinate false (Some v) f = (match typename_of v with Some t => t | None => fi_parent f end, fi_name f) /\
    (forall t, typename_of v = Some t -> t <> fi_parent f ->
               field_coordinate false (Some v) f <> field_coordinate true (Some v) f).
Proof.
  intros v f. split; [apply coordinate_mode_prefetch|]. split; [apply coordinate_mode_postfetch|].
  apply coordinate_mode_differ.
Qed.

(* consequence for the two modes on one field: the pre-fetch renderer consults the batch decision
   of the plan-time coordinate, the post-fetch renderer asks about the runtime coordinate *)
Lemma consulted_modes : forall v f s r, fi_rule f = true -> fi_sources f = s :: r ->
  consulted true (Some v) f = Some {| co_ds := s; co_type := fi_parent f; co_field := fi_name f |} /\
  consulted false (Some v) f =
    Some {| co_ds := s; co_type := match typename_of v with Some t => t | None => fi_parent f end; co_field := fi_name f |}.
Proof. intros v f s r Hr Hs. unfold consulted. rewrite Hr, Hs. split; reflexivity. Qed.

(* a protected field without any source id is not authorized at all (authorizeField returns
   false before deciding): stated so that the hole is explicit *)
Lemma consulted_no_source : forall prefetch value f, fi_sources f = [] -> consulted prefetch value f = None.
Proof. intros prefetch value f H. unfold consulted. rewrite H. destruct (fi_rule f); reflexivity. Qed.
