(* C14 proofs, part 2: the fetch gate (isFetchAuthorizedFromCache) implements the sent / not-sent
   rule of the property, and an unseeded root coordinate never holds a request back. *)
From Coq Require Import Lia ZifyN ZifyNat ZifyBool PeanoNat List.
From Gv Require Import lib.Bytes lib.Json C02.Model C14.Model C14.Spec C14.ProofsCollect.
Open Scope N_scope.

Definition root_coord (ds : bytes) (r : rootfield) : coordinate :=
  {| co_ds := ds; co_type := rf_type r; co_field := rf_field r |}.
(* the root field has a rule and a cached deny decision *)
Definition denied_root (k : cache) (ds : bytes) (r : rootfield) : bool :=
  rf_rule r && deny_reason k (root_coord ds r).

Fixpoint count_b {A} (f : A -> bool) (l : list A) : nat :=
  match l with [] => O | x :: r => (if f x then 1 else 0)%nat + count_b f r end.
Lemma count_b_le : forall A (f : A -> bool) l, (count_b f l <= length l)%nat.
Proof. induction l as [|x r IH]; simpl; [lia|]. destruct (f x); lia. Qed.
Lemma count_b_all : forall A (f : A -> bool) l, count_b f l = length l <-> forallb f l = true.
Proof.
  induction l as [|x r IH]; simpl; [tauto|].
  pose proof (count_b_le A f r). destruct (f x); simpl.
  - rewrite <- IH. lia.
  - split; [lia | discriminate].
Qed.

Lemma gate_loop_query : forall ds k roots n,
  gate_loop OP_QUERY ds k roots n = Some (n + count_b (denied_root k ds) roots)%nat.
Proof.
  intros ds k roots. induction roots as [|r rest IH]; intro n; simpl.
  - f_equal. lia.
  - unfold denied_root at 1. fold (root_coord ds r). destruct (rf_rule r); simpl.
    + destruct (deny_reason k (root_coord ds r)); simpl; rewrite IH; f_equal; lia.
    + rewrite IH. f_equal.
Qed.
Lemma gate_loop_nonquery : forall optype ds k roots n, (optype =? OP_QUERY) = false ->
  gate_loop optype ds k roots n = if existsb (denied_root k ds) roots then None else Some n.
Proof.
  intros optype ds k roots n Hq. induction roots as [|r rest IH]; simpl; [reflexivity|].
  unfold denied_root at 1. fold (root_coord ds r). destruct (rf_rule r); simpl.
  - destruct (deny_reason k (root_coord ds r)); simpl.
    + rewrite Hq. reflexivity.
    + exact IH.
  - exact IH.
Qed.

(* the verdict in terms of the rule of the property *)
Definition root_flags (k : cache) (ds : bytes) (roots : list rootfield) : list (bool * bool) :=
  map (fun r => (rf_rule r, deny_reason k (root_coord ds r))) roots.

Lemma forallb_flags : forall k ds roots,
  forallb (fun r : bool * bool => fst r && snd r) (root_flags k ds roots) = forallb (denied_root k ds) roots.
Proof. intros. unfold root_flags. induction roots as [|r rest IH]; simpl; [reflexivity|]. rewrite IH. reflexivity. Qed.
Lemma existsb_flags : forall k ds roots,
  existsb (fun r : bool * bool => fst r && snd r) (root_flags k ds roots) = existsb (denied_root k ds) roots.
Proof. intros. unfold root_flags. induction roots as [|r rest IH]; simpl; [reflexivity|]. rewrite IH. reflexivity. Qed.

Lemma gate_is_rule : forall optype ds roots k,
  is_fetch_authorized_from_cache true optype ds roots k = negb (must_not_send optype (root_flags k ds roots)).
Proof.
  intros optype ds roots k. unfold is_fetch_authorized_from_cache, must_not_send. cbn [negb].
  destruct roots as [|r0 rest].
  - simpl. destruct (optype =? OP_QUERY); reflexivity.
  - remember (r0 :: rest) as roots eqn:Hr.
    destruct (optype =? OP_QUERY) eqn:Hq.
    + apply N.eqb_eq in Hq. subst optype. rewrite gate_loop_query. cbn [plus].
      change (OP_QUERY =? OP_QUERY) with true. cbn [andb].
      unfold all_denied.
      assert (Hne : root_flags k ds roots <> []) by (subst roots; discriminate).
      destruct (root_flags k ds roots) eqn:Ef; [congruence|]. rewrite <- Ef. rewrite forallb_flags.
      destruct (forallb (denied_root k ds) roots) eqn:Ea.
      * apply count_b_all in Ea. rewrite Ea. rewrite Nat.eqb_refl. reflexivity.
      * destruct (Nat.eqb (count_b (denied_root k ds) roots) (length roots)) eqn:En; [|reflexivity].
        apply Nat.eqb_eq in En. apply count_b_all in En. congruence.
    + rewrite (gate_loop_nonquery optype ds k roots O Hq). unfold any_denied. rewrite existsb_flags.
      destruct (existsb (denied_root k ds) roots); reflexivity.
Qed.

Lemma gate_without_authorization : forall optype ds roots k,
  is_fetch_authorized_from_cache false optype ds roots k = true.
Proof. reflexivity. Qed.

Lemma gate_no_root_fields : forall has_auth optype ds k,
  is_fetch_authorized_from_cache has_auth optype ds [] k = true.
Proof. intros [|] optype ds k; reflexivity. Qed.

(* query: held back exactly when there is a root field and every root field is protected and denied *)
Lemma fetch_gate_query_lemma : forall ds roots k,
  is_fetch_authorized_from_cache true OP_QUERY ds roots k = false <->
  roots <> [] /\ forall r, In r roots -> rf_rule r = true /\ deny_reason k (root_coord ds r) = true.
Proof.
  intros ds roots k. rewrite gate_is_rule, Bool.negb_false_iff. unfold must_not_send.
  change (OP_QUERY =? OP_QUERY) with true. cbn iota. unfold all_denied.
  destruct roots as [|r0 rest]; [simpl; split; [discriminate | intros [H _]; congruence]|].
  remember (r0 :: rest) as roots eqn:Hr.
  assert (Hne : root_flags k ds roots <> []) by (subst roots; discriminate).
  destruct (root_flags k ds roots) eqn:Ef; [congruence|]. rewrite <- Ef, forallb_flags, forallb_forall.
  split.
  - intro H. split; [subst roots; discriminate|]. intros r Hin. specialize (H r Hin).
    unfold denied_root in H. apply Bool.andb_true_iff in H. exact H.
  - intros [_ H] r Hin. unfold denied_root. apply Bool.andb_true_iff. apply H. exact Hin.
Qed.

(* mutation / subscription: held back exactly when some root field is protected and denied *)
Lemma fetch_gate_nonquery_lemma : forall optype ds roots k, optype <> OP_QUERY ->
  (is_fetch_authorized_from_cache true optype ds roots k = false <->
   exists r, In r roots /\ rf_rule r = true /\ deny_reason k (root_coord ds r) = true).
Proof.
  intros optype ds roots k Hq. rewrite gate_is_rule, Bool.negb_false_iff. unfold must_not_send.
  apply N.eqb_neq in Hq. rewrite Hq. unfold any_denied. rewrite existsb_flags, existsb_exists.
  split.
  - intros [r [Hin H]]. exists r. unfold denied_root in H. apply Bool.andb_true_iff in H. tauto.
  - intros [r [Hin [H1 H2]]]. exists r. split; [exact Hin|]. unfold denied_root. rewrite H1, H2. reflexivity.
Qed.

(* an UNSEEDED root coordinate counts as not denied: a query request with such a root field is
   sent, and for a mutation that root field alone never holds the request back *)
Lemma unseeded_root_not_denied : forall d coords ds r, ~ In (root_coord ds r) coords ->
  deny_reason (seed d coords) (root_coord ds r) = false.
Proof.
  intros d coords ds r Hn. destruct (deny_reason (seed d coords) (root_coord ds r)) eqn:E; [|reflexivity].
  apply deny_reason_seeded in E. tauto.
Qed.
Lemma fetch_gate_unseeded_query_lemma : forall d coords ds roots r,
  In r roots -> ~ In (root_coord ds r) coords ->
  is_fetch_authorized_from_cache true OP_QUERY ds roots (seed d coords) = true.
Proof.
  intros d coords ds roots r Hin Hn.
  destruct (is_fetch_authorized_from_cache true OP_QUERY ds roots (seed d coords)) eqn:E; [reflexivity|].
  apply fetch_gate_query_lemma in E. destruct E as [_ H]. destruct (H r Hin) as [_ Hd].
  rewrite (unseeded_root_not_denied d coords ds r Hn) in Hd. discriminate.
Qed.
Lemma fetch_gate_unseeded_nonquery_lemma : forall d coords optype ds roots, optype <> OP_QUERY ->
  (forall r, In r roots -> ~ In (root_coord ds r) coords) ->
  is_fetch_authorized_from_cache true optype ds roots (seed d coords) = true.
Proof.
  intros d coords optype ds roots Hq Hn.
  destruct (is_fetch_authorized_from_cache true optype ds roots (seed d coords)) eqn:E; [reflexivity|].
  apply (fetch_gate_nonquery_lemma optype ds roots _ Hq) in E. destruct E as [r [Hin [_ Hd]]].
  rewrite (unseeded_root_not_denied d coords ds r (Hn r Hin)) in Hd. discriminate.
Qed.

(* with the decisions seeded from the collector, the gate of every fetch of the plan follows the
   batch authorizer's answers for the fetch's own root coordinates *)
Definition decided_flags (d : bytes -> bytes -> bool) (roots : list rootfield) : list (bool * bool) :=
  map (fun r => (rf_rule r, d (rf_type r) (rf_field r))) roots.

Lemma flags_and_eq : forall (l1 l2 : list (bool * bool)),
  map (fun r : bool * bool => fst r && snd r) l1 = map (fun r : bool * bool => fst r && snd r) l2 ->
  forall optype, must_not_send optype l1 = must_not_send optype l2.
Proof.
  intros l1 l2 H optype. unfold must_not_send, all_denied, any_denied.
  assert (He : existsb (fun r : bool * bool => fst r && snd r) l1 = existsb (fun r : bool * bool => fst r && snd r) l2).
  { clear optype. revert l2 H. induction l1 as [|x r IH]; intros [|y r2] H; simpl in *; try discriminate; [reflexivity|].
    inversion H as [[Hx Hr]]. rewrite Hx, (IH r2 Hr). reflexivity. }
  assert (Hf : forallb (fun r : bool * bool => fst r && snd r) l1 = forallb (fun r : bool * bool => fst r && snd r) l2).
  { clear optype He. revert l2 H. induction l1 as [|x r IH]; intros [|y r2] H; simpl in *; try discriminate; [reflexivity|].
    inversion H as [[Hx Hr]]. rewrite Hx, (IH r2 Hr). reflexivity. }
  destruct l1, l2; try discriminate; [reflexivity|]. rewrite Hf, He. reflexivity.
Qed.

Lemma fetch_gate_plan_lemma : forall p d ft optype, In ft (pl_fetches p) ->
  is_fetch_authorized_from_cache true optype (ft_ds ft) (ft_roots ft) (seed d (collect_coordinates p))
  = negb (must_not_send optype (decided_flags d (ft_roots ft))).
Proof.
  intros p d ft optype Hft. rewrite gate_is_rule. f_equal. apply flags_and_eq.
  unfold root_flags, decided_flags. rewrite !map_map. apply map_ext_in. intros r Hr. cbn [fst snd].
  destruct (rf_rule r) eqn:Er; [|reflexivity]. cbn [andb].
  pose proof (gate_roots_seeded_lemma p ft r Hft Hr Er) as Hin.
  destruct (d (rf_type r) (rf_field r)) eqn:Ed.
  - apply deny_reason_seeded. split; [exact Hin | exact Ed].
  - destruct (deny_reason (seed d (collect_coordinates p)) (root_coord (ft_ds ft) r)) eqn:E; [|reflexivity].
    apply deny_reason_seeded in E. destruct E as [_ E]. cbn in E. congruence.
Qed.

Lemma gate_meets_spec_lemma : forall p d ft optype, In ft (pl_fetches p) ->
  gate_spec_b optype (decided_flags d (ft_roots ft))
              (is_fetch_authorized_from_cache true optype (ft_ds ft) (ft_roots ft) (seed d (collect_coordinates p))) = true.
Proof.
  intros p d ft optype Hft. rewrite (fetch_gate_plan_lemma p d ft optype Hft). unfold gate_spec_b.
  destruct (must_not_send optype (decided_flags d (ft_roots ft))); reflexivity.
Qed.

(* fetchOperationType *)
Lemma fetch_optype_known : forall info_op loader_op, info_op <> OP_UNKNOWN -> fetch_optype info_op loader_op = info_op.
Proof. intros i l H. unfold fetch_optype. apply N.eqb_neq in H. rewrite H. reflexivity. Qed.
Lemma fetch_optype_unknown : forall loader_op, fetch_optype OP_UNKNOWN loader_op = loader_op.
Proof. reflexivity. Qed.

(* the rule applied to a fetch is that of the fetch's own operation type; the request's type is
   used only when the fetch has none *)
Lemma fetch_gate_fetch_type_lemma : forall p d ft loader_op, In ft (pl_fetches p) ->
  is_fetch_authorized true loader_op ft (seed d (collect_coordinates p))
  = negb (must_not_send (if ft_op ft =? OP_UNKNOWN then loader_op else ft_op ft) (decided_flags d (ft_roots ft))).
Proof.
  intros p d ft loader_op Hft. unfold is_fetch_authorized. rewrite (fetch_gate_plan_lemma p d ft _ Hft).
  unfold fetch_optype. reflexivity.
Qed.
Lemma fetch_gate_request_type_irrelevant : forall ft k l1 l2, ft_op ft <> OP_UNKNOWN ->
  is_fetch_authorized true l1 ft k = is_fetch_authorized true l2 ft k.
Proof.
  intros ft k l1 l2 H. unfold is_fetch_authorized. rewrite !(fetch_optype_known _ _ H). reflexivity.
Qed.
