(* C14 model, planner / loader part (the renderer part is C02.Model, which carries the decision
   function).  Mirrors, branch by branch:
     v2/pkg/engine/postprocess/collect_authorization_coordinates.go   collect_coordinates
     v2/pkg/engine/resolve/field_authorization.go                     seed (authorizePreFetch), decide, deny_reason
     v2/pkg/engine/resolve/resolvable.go                              consulted (authorizeField), field_coordinate
     v2/pkg/engine/resolve/loader.go                                  fetch_optype, is_fetch_authorized_from_cache,
                                                                      rate_limit_fetch, validate_pre_fetch
   No proofs here.

   The plan tree is the response tree of C02 reduced to what authorization reads: each field's
   FieldInfo (ExactParentTypeName, Name, HasAuthorizationRule, Source.IDs).  C02's [authinfo]
   has no source ids, so the tree is re-declared with them ([pnode]); [of_node] embeds a C02
   [node] given the source ids of its protected fields.
   The decision cache is keyed by the triple (data source id, type, field) itself: Go keys it by
   xxhash64 of "ds\0type\0field" -- hash collisions are outside the model. *)
From Gv Require Import lib.Bytes lib.Json C02.Model.
Open Scope N_scope.

Record coordinate := { co_ds : bytes; co_type : bytes; co_field : bytes }.

(* resolve.FieldInfo, projected *)
Record finfo := { fi_parent : bytes; fi_name : bytes; fi_rule : bool; fi_sources : list bytes }.

Inductive pnode :=
| PObj (fields : list pfield)
| PArr (item : pnode)
| PLeaf
with pfield :=
| PFld (name : bytes) (info : option finfo) (value : pnode).

(* resolve.GraphCoordinate of FetchInfo.RootFields *)
Record rootfield := { rf_type : bytes; rf_field : bytes; rf_rule : bool }.

(* ast.OperationType *)
Definition OP_UNKNOWN : N := 0.
Definition OP_QUERY : N := 1.
Definition OP_MUTATION : N := 2.
Definition OP_SUBSCRIPTION : N := 3.

(* resolve.FetchInfo, projected *)
Record fetchinfo := { ft_ds : bytes; ft_op : N; ft_roots : list rootfield }.

(* GraphQLResponse: Info.OperationType, the fetches (RawFetches + the flat fetch tree), Data *)
Record plan := { pl_op : N; pl_fetches : list fetchinfo; pl_root : pnode }.

(* ---- ordering of coordinates (sort.Slice in Process: DataSourceID, TypeName, FieldName; Go's
   string < is bytewise lexicographic) ---- *)
Fixpoint bytes_compare (a b : bytes) : comparison :=
  match a, b with
  | [], [] => Eq
  | [], _ :: _ => Lt
  | _ :: _, [] => Gt
  | x :: a', y :: b' => match N.compare x y with Eq => bytes_compare a' b' | c => c end
  end.
Definition coord_compare (a b : coordinate) : comparison :=
  match bytes_compare (co_ds a) (co_ds b) with
  | Eq => match bytes_compare (co_type a) (co_type b) with
          | Eq => bytes_compare (co_field a) (co_field b)
          | c => c
          end
  | c => c
  end.
Definition coord_eqb (a b : coordinate) : bool :=
  bytes_eqb (co_ds a) (co_ds b) && bytes_eqb (co_type a) (co_type b) && bytes_eqb (co_field a) (co_field b).
Definition coord_mem (c : coordinate) (l : list coordinate) : bool := existsb (coord_eqb c) l.

(* the map keyed by {ds, type, field} followed by the sort: a sorted list without duplicates *)
Fixpoint insert_coord (c : coordinate) (l : list coordinate) : list coordinate :=
  match l with
  | [] => [c]
  | x :: r => match coord_compare c x with
              | Lt => c :: l
              | Eq => l
              | Gt => x :: insert_coord c r
              end
  end.
Definition sort_dedup (l : list coordinate) : list coordinate := fold_right insert_coord [] l.

(* ---- collect_authorization_coordinates.go ---- *)
(* collectNode: a field with Info != nil && HasAuthorizationRule contributes one coordinate per
   Source.ID, typed by ExactParentTypeName *)
Definition field_coords (i : finfo) : list coordinate :=
  if fi_rule i
  then map (fun s => {| co_ds := s; co_type := fi_parent i; co_field := fi_name i |}) (fi_sources i)
  else [].
Definition info_coords (info : option finfo) : list coordinate :=
  match info with Some i => field_coords i | None => [] end.
Fixpoint collect_node (n : pnode) : list coordinate :=
  match n with
  | PObj fs =>
    (fix go (fs : list pfield) : list coordinate :=
       match fs with
       | [] => []
       | PFld _ info v :: r => info_coords info ++ collect_node v ++ go r
       end) fs
  | PArr item => collect_node item
  | PLeaf => []
  end.
(* collectFetchItem: the root fields with a rule, under the fetch's data source id *)
Definition collect_fetch (f : fetchinfo) : list coordinate :=
  flat_map (fun r => if rf_rule r
                     then [{| co_ds := ft_ds f; co_type := rf_type r; co_field := rf_field r |}]
                     else []) (ft_roots f).
Definition collect_raw (p : plan) : list coordinate :=
  flat_map collect_fetch (pl_fetches p) ++ collect_node (pl_root p).
Definition collect_coordinates (p : plan) : list coordinate := sort_dedup (collect_raw p).

(* all fields of the tree that have an Info *)
Fixpoint fields_of (n : pnode) : list finfo :=
  match n with
  | PObj fs =>
    (fix go (fs : list pfield) : list finfo :=
       match fs with
       | [] => []
       | PFld _ info v :: r => (match info with Some i => [i] | None => [] end) ++ fields_of v ++ go r
       end) fs
  | PArr item => fields_of item
  | PLeaf => []
  end.

(* ---- field_authorization.go ---- *)
(* the allow / deny maps *)
Record cache := { c_allow : list coordinate; c_deny : list coordinate }.
Definition empty_cache : cache := {| c_allow := []; c_deny := [] |}.

(* authorizePreFetch: one batch call; [d t f = true] means the batch authorizer DENIES (t, f).
   The decision of an AuthorizationCoordinate is the decision of its graph coordinate. *)
Definition seed (d : bytes -> bytes -> bool) (coords : list coordinate) : cache :=
  {| c_allow := filter (fun c => negb (d (co_type c) (co_field c))) coords;
     c_deny := filter (fun c => d (co_type c) (co_field c)) coords |}.

Definition deny_reason (k : cache) (c : coordinate) : bool := coord_mem c (c_deny k).

(* decide: (denied?, new cache).  [auth] is the post-fetch authorizer (None when only the
   pre-fetch batch authorizer is installed); [auth c = true] means AuthorizeObjectField denies. *)
Definition decide (auth : option (coordinate -> bool)) (k : cache) (c : coordinate) : bool * cache :=
  if coord_mem c (c_allow k) then (false, k)
  else if coord_mem c (c_deny k) then (true, k)
  else match auth with
       | None => (false, k)       (* unseeded = allowed *)
       | Some a =>
         if a c then (true, {| c_allow := c_allow k; c_deny := c :: c_deny k |})
         else (false, {| c_allow := c :: c_allow k; c_deny := c_deny k |})
       end.
(* pre-fetch mode without a post-fetch authorizer *)
Definition decide_prefetch (k : cache) (c : coordinate) : bool := fst (decide None k c).

(* ---- resolvable.go ---- *)
(* fieldAuthorizationCoordinate: [value] is the enclosing object's data (None = unreached) *)
Definition field_coordinate (prefetch : bool) (value : option json) (f : finfo) : bytes * bytes :=
  let tn :=
    if negb prefetch then
      match value with
      | Some v => match typename_of v with Some t => t | None => fi_parent f end
      | None => fi_parent f
      end
    else fi_parent f in
  (tn, fi_name f).

(* authorizeField up to the decide call: the coordinate whose decision is consulted, None when
   the field is not authorized at all (no rule, or no source id) *)
Definition consulted (prefetch : bool) (value : option json) (f : finfo) : option coordinate :=
  if fi_rule f then
    match fi_sources f with
    | s :: _ => let '(t, n) := field_coordinate prefetch value f in
                Some {| co_ds := s; co_type := t; co_field := n |}
    | [] => None
    end
  else None.

(* ---- loader.go ---- *)
(* fetchOperationType *)
Definition fetch_optype (info_op loader_op : N) : N :=
  if info_op =? OP_UNKNOWN then loader_op else info_op.

(* the loop of isFetchAuthorizedFromCache: None = returned false inside the loop, Some n = the
   loop finished with n denied root fields *)
Fixpoint gate_loop (optype : N) (ds : bytes) (k : cache) (roots : list rootfield) (denied : nat) : option nat :=
  match roots with
  | [] => Some denied
  | r :: rest =>
    if negb (rf_rule r) then gate_loop optype ds k rest denied
    else if negb (deny_reason k {| co_ds := ds; co_type := rf_type r; co_field := rf_field r |})
         then gate_loop optype ds k rest denied
         else if negb (optype =? OP_QUERY) then None
              else gate_loop optype ds k rest (S denied)
  end.
(* isFetchAuthorizedFromCache; [has_authorization] = (l.authorization != nil) *)
Definition is_fetch_authorized_from_cache (has_authorization : bool) (optype : N) (ds : bytes)
           (roots : list rootfield) (k : cache) : bool :=
  if negb has_authorization then true
  else match roots with
       | [] => true
       | _ =>
         match gate_loop optype ds k roots O with
         | None => false
         | Some n => negb ((optype =? OP_QUERY) && Nat.eqb n (length roots))
         end
       end.

(* isFetchAuthorized, pre-fetch branch: the gate rule is chosen by the operation type recorded on the
   FETCH (FetchInfo.OperationType: the type its root fields live on -- a nested _entities fetch below
   a mutation is a query fetch); the operation type of the whole request ([loader_op], l.info) is
   only the fallback for a fetch without one *)
Definition is_fetch_authorized (has_authorization : bool) (loader_op : N) (ft : fetchinfo) (k : cache) : bool :=
  is_fetch_authorized_from_cache has_authorization (fetch_optype (ft_op ft) loader_op) (ft_ds ft) (ft_roots ft) k.

(* rateLimitFetch.  [enabled] = l.ctx.RateLimitOptions.Enable; [limiter] = l.ctx.rateLimiter (None = nil) as its answer
   for a fetch: RlPass = (nil, nil), RlReject = a *RateLimitDeny, RlError = an error *)
Inductive rl_answer := RlPass | RlReject | RlError.
Definition rate_limit_fetch (enabled : bool) (limiter : option (fetchinfo -> rl_answer)) (ft : fetchinfo) : bool :=
  if negb enabled then true
  else match limiter with
       | None => true
       | Some lim => match lim ft with RlPass => true | _ => false end
       end.
(* validatePreFetch, the one place where the loader's pre-fetch hooks are chained for single, entity and batch entity
   fetches (pre-fetch authorization mode): a fetch without FetchInfo is not validated; the gate's "no" is final -- the
   limiter is consulted only for a fetch the gate lets through *)
Definition validate_pre_fetch (has_authorization : bool) (loader_op : N) (info : option fetchinfo) (k : cache)
           (enabled : bool) (limiter : option (fetchinfo -> rl_answer)) : bool :=
  match info with
  | None => true
  | Some ft =>
    if negb (is_fetch_authorized has_authorization loader_op ft k) then false
    else rate_limit_fetch enabled limiter ft
  end.
(* is the limiter consulted (does the fetch consume rate limit budget)? *)
Definition limiter_consulted (has_authorization : bool) (loader_op : N) (info : option fetchinfo) (k : cache)
           (enabled : bool) (limiter : option (fetchinfo -> rl_answer)) : bool :=
  match info, limiter with
  | Some ft, Some _ => is_fetch_authorized has_authorization loader_op ft k && enabled
  | _, _ => false
  end.

(* ---- embedding of the C02 plan tree ---- *)
Definition finfo_of (srcs : authinfo -> list bytes) (a : authinfo) : finfo :=
  {| fi_parent := au_parent_type a; fi_name := au_field a; fi_rule := true; fi_sources := srcs a |}.
Fixpoint of_node (srcs : authinfo -> list bytes) (n : node) : pnode :=
  match n with
  | NObj _ _ _ _ _ _ fields =>
    PObj ((fix go (fs : list field) : list pfield :=
             match fs with
             | [] => []
             | Fld name _ _ auth child :: r =>
               PFld name (match auth with Some a => Some (finfo_of srcs a) | None => None end)
                    (of_node srcs child) :: go r
             end) fields)
  | NArr _ _ item => PArr (of_node srcs item)
  | _ => PLeaf
  end.
(* the authorization infos of a C02 tree *)
Fixpoint node_auths (n : node) : list authinfo :=
  match n with
  | NObj _ _ _ _ _ _ fields =>
    (fix go (fs : list field) : list authinfo :=
       match fs with
       | [] => []
       | Fld _ _ _ auth child :: r =>
         (match auth with Some a => [a] | None => [] end) ++ node_auths child ++ go r
       end) fields
  | NArr _ _ item => node_auths item
  | _ => []
  end.
