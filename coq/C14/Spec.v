(* C14 specification, planner / loader part: the clauses as Props and as boolean checkers that the
   OCaml driver evaluates on the IMPLEMENTATION's observables (the real plan's response tree and
   AuthorizationCoordinates, the real response and request log). *)
From Gv Require Import lib.Bytes lib.Json C02.Model C02.Spec C14.Model.
Open Scope N_scope.

(* ---- collector_complete ---- *)
(* every field of the response tree that has an authorization rule has, for each of its source
   ids, its (ExactParentTypeName, Name) coordinate in [coords]; so has every root field with a
   rule of every fetch, under the fetch's data source id *)
Definition tree_covered (root : pnode) (coords : list coordinate) : Prop :=
  forall f s, In f (fields_of root) -> fi_rule f = true -> In s (fi_sources f) ->
              In {| co_ds := s; co_type := fi_parent f; co_field := fi_name f |} coords.
Definition fetches_covered (fs : list fetchinfo) (coords : list coordinate) : Prop :=
  forall ft r, In ft fs -> In r (ft_roots ft) -> rf_rule r = true ->
               In {| co_ds := ft_ds ft; co_type := rf_type r; co_field := rf_field r |} coords.
Definition collector_complete_prop (p : plan) (coords : list coordinate) : Prop :=
  tree_covered (pl_root p) coords /\ fetches_covered (pl_fetches p) coords.

Definition field_covered_b (coords : list coordinate) (f : finfo) : bool :=
  if fi_rule f
  then forallb (fun s => coord_mem {| co_ds := s; co_type := fi_parent f; co_field := fi_name f |} coords) (fi_sources f)
  else true.
Definition fetch_covered_b (coords : list coordinate) (ft : fetchinfo) : bool :=
  forallb (fun r => if rf_rule r
                    then coord_mem {| co_ds := ft_ds ft; co_type := rf_type r; co_field := rf_field r |} coords
                    else true) (ft_roots ft).
Definition collector_complete_b (p : plan) (coords : list coordinate) : bool :=
  forallb (field_covered_b coords) (fields_of (pl_root p)) && forallb (fetch_covered_b coords) (pl_fetches p).

(* the coordinate list is exactly what a sorted map of the rule-carrying coordinates gives:
   nothing that is not protected is put before the authorizer *)
Definition collector_sound_b (p : plan) (coords : list coordinate) : bool :=
  forallb (fun c => coord_mem c (collect_raw p)) coords.

(* ---- fetch_gate: the rule of the property, on (is the root field protected?, is it denied?) ---- *)
(* a query request is not sent when ALL of its root fields are denied; a mutation / subscription
   request is not sent when ANY is.  [sent] is the observation. *)
Definition all_denied (roots : list (bool * bool)) : bool :=
  match roots with [] => false | _ => forallb (fun r => fst r && snd r) roots end.
Definition any_denied (roots : list (bool * bool)) : bool := existsb (fun r => fst r && snd r) roots.
Definition must_not_send (optype : N) (roots : list (bool * bool)) : bool :=
  if optype =? OP_QUERY then all_denied roots else any_denied roots.
Definition gate_spec_b (optype : N) (roots : list (bool * bool)) (sent : bool) : bool :=
  if must_not_send optype roots then negb sent else true.

(* ---- positions in a response ---- *)
Inductive lookup_result := LAbsent | LNullAbove | LVal (v : json).
(* walk a response path; a null (or a missing member / index) on the way means the position does
   not exist in the response *)
Fixpoint lookup_pos (p : rpath) (j : json) : lookup_result :=
  match p with
  | [] => LVal j
  | e :: r =>
    match j with
    | JNull => LNullAbove
    | JObj m => match e with
                | PName k => match obj_get k m with Some v => lookup_pos r v | None => LAbsent end
                | PIdx _ => LAbsent
                end
    | JArr l => match e with
                | PIdx i => match nth_error l (N.to_nat i) with Some v => lookup_pos r v | None => LAbsent end
                | PName _ => LAbsent
                end
    | _ => LAbsent
    end
  end.
(* denied_absent: at a denied position the response holds null or nothing *)
Definition position_null_b (data : json) (p : rpath) : bool :=
  match lookup_pos p data with
  | LVal JNull | LAbsent | LNullAbove => true
  | LVal _ => false
  end.
Definition denied_absent_b (data : json) (denied : list rpath) : bool := forallb (position_null_b data) denied.

(* denied_reported: when the object holding the denied field is present in the response, an
   error with exactly the field's path exists *)
Definition parent_present_b (data : json) (p : rpath) : bool :=
  match lookup_pos (removelast p) data with
  | LVal (JObj _) => true
  | _ => false
  end.
Definition path_mem (p : rpath) (l : list rpath) : bool := existsb (rpath_eqb p) l.
Definition denied_reported_b (data : json) (errs : list rpath) (denied : list rpath) : bool :=
  forallb (fun p => if parent_present_b data p then path_mem p errs else true) denied.

(* allowed_untouched: compared with the run without denials, every position outside the denied
   ones is unchanged, or it disappeared under a null that sits on the way to a denied position
   (null propagation from that position) *)
Fixpoint is_prefix (a b : rpath) : bool :=
  match a, b with
  | [], _ => true
  | x :: a', y :: b' => pelem_eqb x y && is_prefix a' b'
  | _ :: _, [] => false
  end.
Definition on_way_to_denied (p : rpath) (denied : list rpath) : bool := existsb (is_prefix p) denied.
Fixpoint untouched_b (base gw : json) (path : rpath) (denied : list rpath) {struct base} : bool :=
  if path_mem path denied then true
  else
    match gw with
    | JNull => match base with JNull => true | _ => on_way_to_denied path denied end
    | _ =>
      match base, gw with
      | JObj bm, JObj gm =>
        (fix go (bm : list (bytes * json)) : bool :=
           match bm with
           | [] => true
           | (k, bv) :: r =>
             (match obj_get k gm with
              | Some gv => untouched_b bv gv (path ++ [PName k]) denied
              | None => false
              end) && go r
           end) bm
      | JArr bl, JArr gl =>
        (fix go (bl gl : list json) (i : N) : bool :=
           match bl, gl with
           | [], [] => true
           | b :: bl', g :: gl' => untouched_b b g (path ++ [PIdx i]) denied && go bl' gl' (i + 1)
           | _, _ => false
           end) bl gl 0
      | _, _ => json_eqb base gw
      end
    end.

(* collector_complete on a run: every protected plan-time coordinate that occurs in the response
   tree was put before the batch authorizer *)
Definition tf_eqb (a b : bytes * bytes) : bool := bytes_eqb (fst a) (fst b) && bytes_eqb (snd a) (snd b).
Definition asked_complete_b (seen asked : list (bytes * bytes)) : bool :=
  forallb (fun c => existsb (tf_eqb c) asked) seen.

(* the (type, field) projection of the coordinates, without duplicates: what authorizePreFetch
   passes to AuthorizeFields *)
Fixpoint dedup_tf (l : list (bytes * bytes)) : list (bytes * bytes) :=
  match l with
  | [] => []
  | x :: r => if existsb (tf_eqb x) r then dedup_tf r else x :: dedup_tf r
  end.
Definition batch_questions (coords : list coordinate) : list (bytes * bytes) :=
  dedup_tf (map (fun c => (co_type c, co_field c)) coords).
Definition same_tf_set (a b : list (bytes * bytes)) : bool :=
  forallb (fun c => existsb (tf_eqb c) b) a && forallb (fun c => existsb (tf_eqb c) a) b.
