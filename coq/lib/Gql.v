(* GraphQL abstract syntax as trees (the Go ast.Document is index based; the harness dumps it to
   this form).  Shared by the parser/printer, normalisation, validation, variables and execution
   models.  Definitions only. *)
From Gv Require Import lib.Bytes.

Definition name := bytes.

(* type references *)
Inductive ty :=
| TNamed (n : name)
| TList (t : ty)
| TNonNull (t : ty).

(* values (literals).  Strings keep the raw source content between the quotes (escapes
   uninterpreted) and a flag for block strings; numbers keep the raw token. *)
Inductive value :=
| VVar (n : name)
| VInt (raw : bytes)
| VFloat (raw : bytes)
| VStr (raw : bytes) (block : bool)
| VBool (b : bool)
| VNull
| VEnum (n : name)
| VList (items : list value)
| VObj (fields : list (name * value)).

Definition argument := (name * value)%type.
Record directive := { d_name : name; d_args : list argument }.

Inductive selection :=
| SField (alias : option name) (fname : name) (args : list argument) (dirs : list directive) (sels : list selection)
| SInline (tycond : option name) (dirs : list directive) (sels : list selection)
| SSpread (frag : name) (dirs : list directive).

Record vardef := { vd_name : name; vd_type : ty; vd_default : option value; vd_dirs : list directive }.

Inductive opkind := OpQuery | OpMutation | OpSubscription.
Record operation := {
  op_kind : opkind; op_name : option name; op_vars : list vardef;
  op_dirs : list directive; op_sels : list selection }.
Record fragment := { fr_name : name; fr_type : name; fr_dirs : list directive; fr_sels : list selection }.

Inductive definition :=
| DOp (o : operation)
| DFrag (f : fragment).
Definition document := list definition.

(* ---- type system ---- *)
Record inputvalue_def := { iv_name : name; iv_type : ty; iv_default : option value; iv_dirs : list directive }.
Record field_def := { fd_name : name; fd_args : list inputvalue_def; fd_type : ty; fd_dirs : list directive }.
Record enum_value_def := { ev_name : name; ev_dirs : list directive }.
Inductive type_kind := KScalar | KObject | KInterface | KUnion | KEnum | KInputObject.
Record type_def := {
  td_kind : type_kind; td_name : name;
  td_implements : list name;                (* object / interface *)
  td_fields : list field_def;               (* object / interface *)
  td_members : list name;                   (* union *)
  td_enum_values : list enum_value_def;     (* enum *)
  td_input_fields : list inputvalue_def;    (* input object *)
  td_dirs : list directive }.
Record directive_def := { dd_name : name; dd_args : list inputvalue_def; dd_locations : list name; dd_repeatable : bool }.
Record schema := {
  s_query : name; s_mutation : option name; s_subscription : option name;
  s_types : list type_def; s_directives : list directive_def }.

Fixpoint find_type (n : name) (ts : list type_def) : option type_def :=
  match ts with
  | [] => None
  | t :: r => if bytes_eqb n (td_name t) then Some t else find_type n r
  end.
Fixpoint find_field (n : name) (fs : list field_def) : option field_def :=
  match fs with
  | [] => None
  | f :: r => if bytes_eqb n (fd_name f) then Some f else find_field n r
  end.
Fixpoint named_of (t : ty) : name :=
  match t with TNamed n => n | TList t' => named_of t' | TNonNull t' => named_of t' end.
Definition response_name (alias : option name) (fname : name) : name :=
  match alias with Some a => a | None => fname end.
