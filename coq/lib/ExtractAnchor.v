(* Forces nat, N, Z and positive into every extraction (ocaml/common/prelude.ml refers to all of
   them): add [extraction_anchor] to the list of extracted constants of each Extract.v. *)
From Coq Require Import NArith ZArith.
Definition extraction_anchor : nat * N * Z * positive := (0, 0%N, 0%Z, 1%positive).
