(* JSON values as trees.  Numbers keep their raw token (never re-formatted, never compared as
   floats); strings are the *decoded* byte content unless a model says otherwise; object member
   order is preserved.  No proofs here except the nested induction principle. *)
From Gv Require Import lib.Bytes.

Inductive json :=
| JNull
| JBool (b : bool)
| JNum (raw : bytes)
| JStr (s : bytes)
| JArr (items : list json)
| JObj (members : list (bytes * json)).

Section JsonInd.
  Variable P : json -> Prop.
  Hypothesis Hnull : P JNull.
  Hypothesis Hbool : forall b, P (JBool b).
  Hypothesis Hnum : forall r, P (JNum r).
  Hypothesis Hstr : forall s, P (JStr s).
  Hypothesis Harr : forall l, Forall P l -> P (JArr l).
  Hypothesis Hobj : forall m, Forall (fun kv => P (snd kv)) m -> P (JObj m).
  Fixpoint json_ind' (j : json) : P j :=
    match j with
    | JNull => Hnull
    | JBool b => Hbool b
    | JNum r => Hnum r
    | JStr s => Hstr s
    | JArr l => Harr l ((fix go (l : list json) : Forall P l :=
                           match l with [] => Forall_nil _ | x :: r => Forall_cons _ (json_ind' x) (go r) end) l)
    | JObj m => Hobj m ((fix go (m : list (bytes * json)) : Forall (fun kv => P (snd kv)) m :=
                           match m with [] => Forall_nil _ | kv :: r => Forall_cons _ (json_ind' (snd kv)) (go r) end) m)
    end.
End JsonInd.

Fixpoint obj_get (k : bytes) (m : list (bytes * json)) : option json :=
  match m with
  | [] => None
  | (k', v) :: r => if bytes_eqb k k' then Some v else obj_get k r
  end.
Definition jget (k : bytes) (j : json) : option json :=
  match j with JObj m => obj_get k m | _ => None end.
Fixpoint jget_path (p : list bytes) (j : json) : option json :=
  match p with
  | [] => Some j
  | k :: r => match jget k j with Some v => jget_path r v | None => None end
  end.

Fixpoint json_eqb (a b : json) {struct a} : bool :=
  match a, b with
  | JNull, JNull => true
  | JBool x, JBool y => Bool.eqb x y
  | JNum x, JNum y => bytes_eqb x y
  | JStr x, JStr y => bytes_eqb x y
  | JArr x, JArr y =>
    (fix go (x y : list json) : bool :=
       match x, y with
       | [], [] => true
       | a :: x', b :: y' => json_eqb a b && go x' y'
       | _, _ => false
       end) x y
  | JObj x, JObj y =>
    (fix go (x y : list (bytes * json)) : bool :=
       match x, y with
       | [], [] => true
       | (ka, a) :: x', (kb, b) :: y' => bytes_eqb ka kb && json_eqb a b && go x' y'
       | _, _ => false
       end) x y
  | _, _ => false
  end.
