(* Bytes as N; ASCII helpers shared by all byte-level models. No proofs here. *)
From Coq Require Export List NArith Bool.
Export ListNotations.
Open Scope N_scope.

Definition byte := N.
Definition bytes := list byte.

Definition wf_byte (b : byte) : bool := b <? 256.
Definition wf_bytes (l : bytes) : bool := forallb wf_byte l.

Fixpoint bytes_eqb (a b : bytes) : bool :=
  match a, b with
  | [], [] => true
  | x :: a', y :: b' => (x =? y) && bytes_eqb a' b'
  | _, _ => false
  end.

Definition is_upper (b : byte) : bool := (65 <=? b) && (b <=? 90).
Definition is_lower (b : byte) : bool := (97 <=? b) && (b <=? 122).
Definition is_digit (b : byte) : bool := (48 <=? b) && (b <=? 57).
Definition to_lower (b : byte) : byte := if is_upper b then b + 32 else b.
Definition lower (l : bytes) : bytes := map to_lower l.

(* decimal value of a digit string (caller guarantees digits) *)
Definition dec_value (l : bytes) : N := fold_left (fun acc b => acc * 10 + (b - 48)) l 0.

Fixpoint mem_bytes (x : bytes) (l : list bytes) : bool :=
  match l with [] => false | y :: l' => bytes_eqb x y || mem_bytes x l' end.
