(* Reference GraphQL execution (spec section 6) over a data universe.  One definition, used as
   the monolithic reference server, as the semantic subgraph servers (mode [sub]: _entities by key
   lookup, @requires values taken from the representation) and as the semantics that
   normalisation must preserve.  Executable definitions only; see FEDLAB.md for the data formats.
   Recursion through fragment spreads and data uses explicit fuel; [XOutOfFuel] is reported as an
   error of its own so that callers can exclude it. *)
From Gv Require Import lib.Bytes lib.Json lib.Gql.
Open Scope N_scope.

(* ---- JSON text of a tree (same function as astjson's MarshalTo; see C02.Model.marshal) ---- *)
Definition xhexd (n : N) : byte := if n <? 10 then 48 + n else 87 + n.
Fixpoint xescape_body (s : bytes) : bytes :=
  match s with
  | [] => []
  | c :: r =>
    (if c =? 34 then [92; 34]
     else if c =? 92 then [92; 92]
     else if 32 <=? c then [c]
     else if c =? 8 then [92; 98]
     else if c =? 9 then [92; 116]
     else if c =? 10 then [92; 110]
     else if c =? 12 then [92; 102]
     else if c =? 13 then [92; 114]
     else [92; 117; 48; 48; xhexd (c / 16); xhexd (c mod 16)]) ++ xescape_body r
  end.
Definition xescape_string (s : bytes) : bytes := 34 :: xescape_body s ++ [34].
Fixpoint jmarshal (j : json) : bytes :=
  match j with
  | JNull => [110;117;108;108]
  | JBool true => [116;114;117;101]
  | JBool false => [102;97;108;115;101]
  | JNum raw => raw
  | JStr s => xescape_string s
  | JArr items =>
    91 :: (fix go (l : list json) : bytes :=
             match l with
             | [] => []
             | [x] => jmarshal x
             | x :: r => jmarshal x ++ 44 :: go r
             end) items ++ [93]
  | JObj m =>
    123 :: (fix go (l : list (bytes * json)) : bytes :=
              match l with
              | [] => []
              | [(k, v)] => xescape_string k ++ 58 :: jmarshal v
              | (k, v) :: r => xescape_string k ++ 58 :: jmarshal v ++ 44 :: go r
              end) m ++ [125]
  end.

(* ---- universe ---- *)
Inductive fval :=
| FSc (j : json)
| FRef (t : name) (key : bytes)
| FNullRef
| FLst (l : list fval)
| FErr
| FEcho
| FLookup (t : name) (arg : name)
| FReq (fs : list name).
Record entity := { en_type : name; en_key : bytes; en_fields : list (name * fval) }.
Definition universe := list entity.

Fixpoint find_entity (u : universe) (t : name) (k : bytes) : option entity :=
  match u with
  | [] => None
  | e :: r => if bytes_eqb (en_type e) t && bytes_eqb (en_key e) k then Some e else find_entity r t k
  end.
Fixpoint assoc {A} (k : bytes) (l : list (bytes * A)) : option A :=
  match l with
  | [] => None
  | (k', v) :: r => if bytes_eqb k k' then Some v else assoc k r
  end.

(* ---- errors ---- *)
Inductive pel := PN (n : name) | PI (i : N).
Inductive xerr :=
| XErr (path : list pel)          (* resolver error or non-null violation at this response path *)
| XInvalid (reason : bytes)       (* the request itself is not executable (unknown field, fragment, ...) *)
| XOutOfFuel.

Inductive mode := Mono | Sub.

Definition s_typename : bytes := [95;95;116;121;112;101;110;97;109;101].
Definition s_entities : bytes := [95;101;110;116;105;116;105;101;115].
Definition s_representations : bytes := [114;101;112;114;101;115;101;110;116;97;116;105;111;110;115].
Definition s_skip : bytes := [115;107;105;112].
Definition s_include : bytes := [105;110;99;108;117;100;101].
Definition s_if : bytes := [105;102].

Definition builtin_scalar (n : name) : bool :=
  mem_bytes n [[73;110;116]; [70;108;111;97;116]; [83;116;114;105;110;103]; [66;111;111;108;101;97;110]; [73;68]].

Section Exec.
  Variable S : schema.
  Variable U : universe.
  Variable frags : list fragment.
  Variable vars : list (bytes * json).     (* variable values after defaults *)
  Variable md : mode.

  Definition kind_of (n : name) : option type_kind :=
    if builtin_scalar n then Some KScalar
    else match find_type n (s_types S) with Some t => Some (td_kind t) | None => None end.

  (* does a fragment type condition apply to a concrete object type? *)
  Definition type_applies (objty : name) (cond : name) : bool :=
    bytes_eqb objty cond ||
    match find_type cond (s_types S) with
    | Some t =>
      match td_kind t with
      | KInterface => match find_type objty (s_types S) with
                      | Some o => mem_bytes cond (td_implements o)
                      | None => false
                      end
      | KUnion => mem_bytes objty (td_members t)
      | _ => false
      end
    | None => false
    end.
  (* possible runtime type of a declared (object/interface/union) type; [_Entity] accepts anything *)
  Definition possible (declared objty : name) : bool :=
    bytes_eqb declared [95;69;110;116;105;116;121] || type_applies objty declared.

  (* ---- values ---- *)
  (* literal -> JSON; None = absent (an undefined variable) *)
  Fixpoint lit_json (v : value) : option json :=
    match v with
    | VVar n => assoc n vars
    | VInt r => Some (JNum r)
    | VFloat r => Some (JNum r)
    | VStr r _ => Some (JStr r)
    | VBool b => Some (JBool b)
    | VNull => Some JNull
    | VEnum n => Some (JStr n)
    | VList items =>
      Some (JArr ((fix go (l : list value) : list json :=
                     match l with
                     | [] => []
                     | x :: r => match lit_json x with Some j => j :: go r | None => JNull :: go r end
                     end) items))
    | VObj fields =>
      Some (JObj ((fix go (l : list (name * value)) : list (bytes * json) :=
                     match l with
                     | [] => []
                     | (k, x) :: r => match lit_json x with Some j => (k, j) :: go r | None => go r end
                     end) fields))
    end.

  (* input coercion used to canonicalise argument values: list wrapping, input-object defaults,
     fields in declaration order.  Fuel bounds recursive input types. *)
  Fixpoint coerce (fuel : nat) (t : ty) (j : json) : json :=
    match fuel with
    | O => j
    | Datatypes.S f =>
      match t with
      | TNonNull t' => coerce f t' j
      | TList t' =>
        match j with
        | JNull => JNull
        | JArr items => JArr (map (coerce f t') items)
        | _ => JArr [coerce f t' j]
        end
      | TNamed n =>
        match find_type n (s_types S) with
        | Some td =>
          match td_kind td, j with
          | KInputObject, JObj m =>
            JObj ((fix go (defs : list inputvalue_def) : list (bytes * json) :=
                     match defs with
                     | [] => []
                     | d :: r =>
                       match obj_get (iv_name d) m with
                       | Some v => (iv_name d, coerce f (iv_type d) v) :: go r
                       | None =>
                         match iv_default d with
                         | Some dv => match lit_json dv with
                                      | Some v => (iv_name d, coerce f (iv_type d) v) :: go r
                                      | None => go r
                                      end
                         | None => go r
                         end
                       end
                     end) (td_input_fields td))
          | _, _ => j
          end
        | None => j
        end
      end
    end.

  (* arguments of a field in declaration order, supplied or defaulted *)
  Definition coerce_args (defs : list inputvalue_def) (args : list argument) : list (bytes * json) :=
    (fix go (defs : list inputvalue_def) : list (bytes * json) :=
       match defs with
       | [] => []
       | d :: r =>
         let supplied := match assoc (iv_name d) args with Some v => lit_json v | None => None end in
         match supplied with
         | Some j => (iv_name d, coerce 16 (iv_type d) j) :: go r
         | None =>
           match iv_default d with
           | Some dv => match lit_json dv with
                        | Some j => (iv_name d, coerce 16 (iv_type d) j) :: go r
                        | None => go r
                        end
           | None => go r
           end
         end
       end) defs.

  (* @skip / @include *)
  Definition dir_if (d : directive) : option bool :=
    match assoc s_if (d_args d) with
    | Some v => match lit_json v with Some (JBool b) => Some b | _ => None end
    | None => None
    end.
  Fixpoint included (dirs : list directive) : bool :=
    match dirs with
    | [] => true
    | d :: r =>
      (if bytes_eqb (d_name d) s_skip then match dir_if d with Some true => false | _ => true end
       else if bytes_eqb (d_name d) s_include then match dir_if d with Some false => false | _ => true end
       else true) && included r
    end.

  Fixpoint find_frag (n : name) (fs : list fragment) : option fragment :=
    match fs with
    | [] => None
    | f :: r => if bytes_eqb n (fr_name f) then Some f else find_frag n r
    end.

  (* CollectFields, flattened: the field selections that apply to [objty], in document order *)
  Inductive flat := FlatOk (l : list selection) | FlatBad (e : xerr).
  Fixpoint flatten (fuel : nat) (objty : name) (sels : list selection) : flat :=
    match fuel with
    | O => FlatBad XOutOfFuel
    | Datatypes.S f =>
      match sels with
      | [] => FlatOk []
      | s :: rest =>
        let here :=
          match s with
          | SField _ _ _ dirs _ => if included dirs then FlatOk [s] else FlatOk []
          | SInline cond dirs sub =>
            if negb (included dirs) then FlatOk []
            else match cond with
                 | None => flatten f objty sub
                 | Some c =>
                   match kind_of c with
                   | None => if bytes_eqb c [95;69;110;116;105;116;121] then flatten f objty sub
                             else FlatBad (XInvalid c)
                   | Some _ => if type_applies objty c then flatten f objty sub else FlatOk []
                   end
                 end
          | SSpread n dirs =>
            if negb (included dirs) then FlatOk []
            else match find_frag n frags with
                 | None => FlatBad (XInvalid n)
                 | Some fr => if type_applies objty (fr_type fr) then flatten f objty (fr_sels fr) else FlatOk []
                 end
          end in
        match here with
        | FlatBad e => FlatBad e
        | FlatOk l1 => match flatten f objty rest with
                       | FlatBad e => FlatBad e
                       | FlatOk l2 => FlatOk (l1 ++ l2)
                       end
        end
      end
    end.

  Definition sel_key (s : selection) : name :=
    match s with SField a n _ _ _ => response_name a n | _ => [] end.
  (* group by response key, keeping first-occurrence order; each group: (key, first field, merged sub-selections) *)
  Fixpoint group (fuel : nat) (l : list selection) : list (name * selection * list selection) :=
    match fuel with
    | O => []
    | Datatypes.S f =>
      match l with
      | [] => []
      | s :: rest =>
        let k := sel_key s in
        let same := filter (fun x => bytes_eqb (sel_key x) k) rest in
        let other := filter (fun x => negb (bytes_eqb (sel_key x) k)) rest in
        let subs := flat_map (fun x => match x with SField _ _ _ _ ss => ss | _ => [] end) (s :: same) in
        (k, s, subs) :: group f other
      end
    end.

  (* the object being executed: the entity and, in subgraph mode under _entities, the representation *)
  Record oval := { ov_ent : entity; ov_repr : option json }.

  (* does entity (t,k) match the representation members? *)
  Fixpoint repr_matches (fuel : nat) (e : entity) (members : list (bytes * json)) : bool :=
    match fuel with
    | O => false
    | Datatypes.S f =>
      forallb (fun kv =>
        let '(k, v) := kv in
        if bytes_eqb k s_typename then true else
        match assoc k (en_fields e) with
        | Some (FSc j) => json_eqb j v
        | Some FNullRef => match v with JNull => true | _ => false end
        | Some (FRef t' k') =>
          match v, find_entity U t' k' with
          | JObj m', Some e' => repr_matches f e' m'
          | _, _ => false
          end
        | Some (FLst items) =>
          match v with
          | JArr vs =>
            (fix go (a : list fval) (b : list json) : bool :=
               match a, b with
               | [], [] => true
               | FSc j :: a', x :: b' => json_eqb j x && go a' b'
               | _, _ => false
               end) items vs
          | _ => false
          end
        | _ => false
        end) members
    end.
  Definition find_by_repr (r : json) : option entity :=
    match r with
    | JObj m =>
      match obj_get s_typename m with
      | Some (JStr t) => find (fun e => bytes_eqb (en_type e) t && repr_matches 8 e m) U
      | _ => None
      end
    | _ => None
    end.

  Definition json_key_string (j : json) : bytes :=
    match j with JStr s => s | JNum r => r | _ => [] end.

  (* result of completing a value: the JSON, the errors, and whether a non-null violation must
     propagate to the parent *)
  Record cres := { c_json : json; c_errs : list xerr; c_viol : bool }.
  Definition cnull (errs : list xerr) := {| c_json := JNull; c_errs := errs; c_viol := false |}.

  Definition leaf_value (ov : oval) (fname : name) (args : list (bytes * json)) (fv : fval) (path : list pel) : cres :=
    match fv with
    | FSc j => {| c_json := j; c_errs := []; c_viol := false |}
    | FEcho => {| c_json := JStr (fname ++ [40] ++ jmarshal (JObj args) ++ [41; 64] ++ en_key (ov_ent ov));
                  c_errs := []; c_viol := false |}
    | FReq fs =>
      let vals :=
        map (fun f =>
               match md, ov_repr ov with
               | Sub, Some (JObj m) => obj_get f m
               | _, _ => match assoc f (en_fields (ov_ent ov)) with Some (FSc j) => Some j | _ => None end
               end) fs in
      if forallb (fun o => match o with Some _ => true | None => false end) vals then
        {| c_json := JStr (fname ++ [91] ++
                           (fix go (l : list (option json)) : bytes :=
                              match l with
                              | [] => []
                              | [Some j] => jmarshal j
                              | Some j :: r => jmarshal j ++ 44 :: go r
                              | None :: r => go r
                              end) vals ++ [93]);
           c_errs := []; c_viol := false |}
      else cnull [XErr path]
    | FNullRef => cnull []
    | FErr => cnull [XErr path]
    | _ => cnull [XErr path]
    end.

  Fixpoint exec_sels (fuel : nat) (objty : name) (ov : oval) (sels : list selection) (path : list pel)
    : option (list (bytes * json)) * list xerr :=
    match fuel with
    | O => (None, [XOutOfFuel])
    | Datatypes.S f =>
      match flatten (Datatypes.S f) objty sels with
      | FlatBad e => (None, [e])
      | FlatOk fl =>
        (fix go (gs : list (name * selection * list selection)) : option (list (bytes * json)) * list xerr :=
           match gs with
           | [] => (Some [], [])
           | (key, s, subs) :: rest =>
             let r := exec_field f objty ov key s subs (path ++ [PN key]) in
             if c_viol r then (None, c_errs r)
             else
               let '(o, e2) := go rest in
               (match o with Some l => Some ((key, c_json r) :: l) | None => None end, c_errs r ++ e2)
           end) (group (Datatypes.S (length fl)) fl)
      end
    end
  with exec_field (fuel : nat) (objty : name) (ov : oval) (key : name) (s : selection) (subs : list selection)
                  (path : list pel) : cres :=
    match fuel with
    | O => {| c_json := JNull; c_errs := [XOutOfFuel]; c_viol := true |}
    | Datatypes.S f =>
      match s with
      | SField _ fname args _ _ =>
        if bytes_eqb fname s_typename then {| c_json := JStr objty; c_errs := []; c_viol := false |}
        else
          let is_entities :=
            match md with Sub => bytes_eqb fname s_entities && bytes_eqb objty (s_query S) | Mono => false end in
          if is_entities then
            let reprs := match assoc s_representations args with
                         | Some v => match lit_json v with Some (JArr l) => l | _ => [] end
                         | None => []
                         end in
            let '(items, errs, viol, _) :=
              fold_left (fun acc r =>
                let '(items, errs, viol, i) := acc in
                match find_by_repr r with
                | None => (items ++ [JNull], errs, viol, i + 1)
                | Some e =>
                  let '(o, e2) := exec_sels f (en_type e) {| ov_ent := e; ov_repr := Some r |} subs (path ++ [PI i]) in
                  match o with
                  | Some l => (items ++ [JObj l], errs ++ e2, viol, i + 1)
                  | None => (items ++ [JNull], errs ++ e2, viol, i + 1)
                  end
                end) reprs ([], [], false, 0) in
            {| c_json := JArr items; c_errs := errs; c_viol := viol |}
          else
          match find_type objty (s_types S) with
          | None => {| c_json := JNull; c_errs := [XInvalid objty]; c_viol := true |}
          | Some td =>
            match find_field fname (td_fields td) with
            | None => {| c_json := JNull; c_errs := [XInvalid fname]; c_viol := true |}
            | Some fd =>
              let cargs := coerce_args (fd_args fd) args in
              let fv := match assoc fname (en_fields (ov_ent ov)) with Some v => v | None => FSc JNull end in
              complete f (fd_type fd) ov fname cargs fv subs path
            end
          end
      | _ => {| c_json := JNull; c_errs := [XInvalid []]; c_viol := true |}
      end
    end
  with complete (fuel : nat) (t : ty) (ov : oval) (fname : name) (cargs : list (bytes * json)) (fv : fval)
                (subs : list selection) (path : list pel) : cres :=
    match fuel with
    | O => {| c_json := JNull; c_errs := [XOutOfFuel]; c_viol := true |}
    | Datatypes.S f =>
      match t with
      | TNonNull t' =>
        let r := complete f t' ov fname cargs fv subs path in
        match c_json r with
        | JNull => {| c_json := JNull;
                      c_errs := match c_errs r with [] => [XErr path] | e => e end;
                      c_viol := true |}
        | _ => r
        end
      | TList t' =>
        match fv with
        | FLst items =>
          let '(out, errs, viol, _) :=
            fold_left (fun acc it =>
              let '(out, errs, viol, i) := acc in
              let r := complete f t' ov fname cargs it subs (path ++ [PI i]) in
              (out ++ [c_json r], errs ++ c_errs r, viol || c_viol r, i + 1)) items ([], [], false, 0) in
          if viol then cnull errs else {| c_json := JArr out; c_errs := errs; c_viol := false |}
        | FSc JNull | FNullRef => cnull []
        | FSc (JArr js) =>   (* a list of leaves stored as one JSON value *)
          complete f t ov fname cargs (FLst (map FSc js)) subs path
        | _ => cnull [XErr path]
        end
      | TNamed n =>
        match kind_of n with
        | Some KScalar | Some KEnum => leaf_value ov fname cargs fv path
        | Some KObject | Some KInterface | Some KUnion | None =>
          let target :=
            match fv with
            | FRef t' k => match find_entity U t' k with Some e => Some (Some e) | None => None end
            | FLookup t' a =>
              match assoc a cargs with
              | Some j => Some (find_entity U t' (json_key_string j))
              | None => Some None
              end
            | FNullRef | FSc JNull => Some None
            | _ => None
            end in
          match target with
          | None => cnull [XErr path]
          | Some None => cnull []
          | Some (Some e) =>
            if negb (match kind_of n with None => bytes_eqb n [95;69;110;116;105;116;121] | _ => possible n (en_type e) end)
            then cnull [XErr path]
            else
              let '(o, errs) := exec_sels f (en_type e) {| ov_ent := e; ov_repr := None |} subs path in
              match o with
              | Some l => {| c_json := JObj l; c_errs := errs; c_viol := false |}
              | None => cnull errs
              end
          end
        | Some KInputObject => cnull [XInvalid n]
        end
      end
    end.
End Exec.

(* ---- requests ---- *)
Fixpoint doc_frags (d : document) : list fragment :=
  match d with
  | [] => []
  | DFrag f :: r => f :: doc_frags r
  | DOp _ :: r => doc_frags r
  end.
Fixpoint doc_ops (d : document) : list operation :=
  match d with
  | [] => []
  | DOp o :: r => o :: doc_ops r
  | DFrag _ :: r => doc_ops r
  end.
Definition pick_op (d : document) (opname : option name) : option operation :=
  match opname with
  | None => match doc_ops d with [o] => Some o | o :: _ => Some o | [] => None end
  | Some n => find (fun o => match op_name o with Some m => bytes_eqb m n | None => false end) (doc_ops d)
  end.

Fixpoint sel_size (s : selection) : nat :=
  match s with
  | SField _ _ _ _ ss => Datatypes.S (fold_right (fun x acc => sel_size x + acc)%nat O ss)
  | SInline _ _ ss => Datatypes.S (fold_right (fun x acc => sel_size x + acc)%nat O ss)
  | SSpread _ _ => 1%nat
  end.
Definition sels_size (l : list selection) : nat := fold_right (fun x acc => sel_size x + acc)%nat O l.
Definition doc_size (d : document) : nat :=
  fold_right (fun x acc => (match x with DOp o => sels_size (op_sels o) | DFrag f => sels_size (fr_sels f) end + acc)%nat) O d.

Record response := { rs_data : json; rs_errs : list xerr }.

(* variables: supplied object, plus defaults of the operation's variable definitions *)
Definition effective_vars (o : operation) (supplied : list (bytes * json)) : list (bytes * json) :=
  flat_map (fun vd =>
              match assoc (vd_name vd) supplied with
              | Some j => [(vd_name vd, j)]
              | None => match vd_default vd with
                        | Some dv => match lit_json [] dv with Some j => [(vd_name vd, j)] | None => [] end
                        | None => []
                        end
              end) (op_vars o).

Definition root_type (S : schema) (k : opkind) : option name :=
  match k with
  | OpQuery => Some (s_query S)
  | OpMutation => s_mutation S
  | OpSubscription => s_subscription S
  end.

(* fuel: enough for every selection of the document to be entered at every nesting level of the
   data reached; [execute] takes it explicitly and [execute_default] uses a generous bound *)
Definition execute (fuel : nat) (S : schema) (U : universe) (md : mode) (d : document) (opname : option name)
           (supplied : json) : response :=
  match pick_op d opname with
  | None => {| rs_data := JNull; rs_errs := [XInvalid [111;112]] |}
  | Some o =>
    match root_type S (op_kind o) with
    | None => {| rs_data := JNull; rs_errs := [XInvalid [114;111;111;116]] |}
    | Some rt =>
      let sup := match supplied with JObj m => m | _ => [] end in
      let vars := effective_vars o sup in
      match find_entity U rt [] with
      | None => {| rs_data := JNull; rs_errs := [XInvalid rt] |}
      | Some root =>
        let '(r, errs) := exec_sels S U (doc_frags d) vars md fuel rt {| ov_ent := root; ov_repr := None |} (op_sels o) [] in
        {| rs_data := match r with Some l => JObj l | None => JNull end; rs_errs := errs |}
      end
    end
  end.

Definition default_fuel (d : document) : nat := (4 * doc_size d + 64)%nat.
Definition execute_default S U md d opname supplied := execute (default_fuel d) S U md d opname supplied.
