(* C02 proofs, part 4: every plan node refines the completion semantics; the root theorem. *)
From Coq Require Import Lia ZifyN ZifyBool.
From Gv Require Import lib.Bytes lib.Json C02.Model C02.Spec C02.ProofsBase C02.ProofsPaths C02.ProofsExt C02.ProofsRefine.
Open Scope N_scope.

Section Refine2.
  Variable deny : bytes -> bytes -> bool.

  Definition node_post (n : node) (parent : json) (tns : list (option bytes))
             (parent' : json) (errs : list gerr) (st : wstatus) (res : option json) (errs' : list gerr) : Prop :=
    errs = errs' /\ st <> WPanic /\ (st = WErr -> res = None) /\
    (st = WOk -> exists t, res = Some t /\ render n parent' tns false = (marshal t, false)) /\
    frame n parent parent'.

  Lemma post_err : forall n parent tns parent' e,
    frame n parent parent' -> node_post n parent tns parent' e WErr None e.
  Proof. intros. repeat split; try congruence; auto. Qed.
  Lemma post_ok : forall n parent tns parent' e t,
    render n parent' tns false = (marshal t, false) ->
    frame n parent parent' -> node_post n parent tns parent' e WOk (Some t) e.
  Proof. intros. repeat split; try congruence; auto. intros _. exists t. auto. Qed.
  Lemma frame_same : forall n parent, frame n parent parent.
  Proof. intros n parent _ _. apply rw_refl. Qed.

  Lemma refines_scalar : forall n kind accept accept',
    has_path_kind n = true ->
    (forall x, accept x = true -> accept' x = true) ->
    (forall parent path tns, prewalk deny n parent path tns =
       let '(e, s) := scalar_prewalk path (node_path n) (node_nullable n) kind accept parent in (parent, e, s)) ->
    (forall parent path tns, complete deny n parent path tns =
       scalar_complete path (node_path n) (node_nullable n) kind accept parent) ->
    (forall parent tns r, render n parent tns r = scalar_render (node_path n) (node_nullable n) accept' parent) ->
    refines deny n.
  Proof.
    intros n kind accept accept' Hk Hacc Hpw Hcp Hrd depth Hwf parent path tns parent' errs st res errs' Hp Hc.
    rewrite Hpw in Hp. rewrite Hcp in Hc.
    destruct (scalar_prewalk path (node_path n) (node_nullable n) kind accept parent) as [e s] eqn:Hsp.
    injection Hp as <- <- <-.
    destruct (scalar_ok _ _ _ _ _ _ _ _ _ _ _ Hacc Hsp Hc) as (He & Hnp & Herr & Hok).
    split; [exact He|]. split; [exact Hnp|]. split; [exact Herr|]. split.
    - intros Hs. destruct (Hok Hs) as (t & Hr & Hsr). exists t. split; [exact Hr|]. rewrite Hrd. exact Hsr.
    - apply frame_same.
  Qed.

  Ltac fin_tac Hg :=
    repeat split; try congruence; try (apply frame_same);
    try (intros _; eexists; split; [reflexivity|]; rewrite Hg; reflexivity).

  Lemma refines_enum : forall p nl ty vs inacc, refines deny (NEnum p nl ty vs inacc).
  Proof.
    intros p nl ty vs inacc depth Hwf parent path tns parent' errs st res errs' Hp Hc.
    cbn [prewalk] in Hp. cbn [complete] in Hc. cbn [render]. cbv zeta in *.
    destruct (get_path p parent) as [x|] eqn:Hg.
    - destruct x as [| b | raw | s | items | m]; cbn [is_null_or_missing] in *.
      + destruct nl; injection Hp as <- <- <-; injection Hc as <- <-; fin_tac Hg.
      + injection Hp as <- <- <-; injection Hc as <- <-; fin_tac Hg.
      + injection Hp as <- <- <-; injection Hc as <- <-; fin_tac Hg.
      + destruct (mem_bytes s vs) eqn:Hv; cbn [negb] in *; [destruct (mem_bytes s inacc) eqn:Hi|];
          destruct nl; injection Hp as <- <- <-; injection Hc as <- <-;
          repeat split; try congruence; try (apply frame_same);
          intros _; eexists; (split; [reflexivity|]); rewrite Hg; cbn [is_null_or_missing];
          rewrite Hv; cbn [negb orb]; rewrite ?Hi; reflexivity.
      + injection Hp as <- <- <-; injection Hc as <- <-; fin_tac Hg.
      + injection Hp as <- <- <-; injection Hc as <- <-; fin_tac Hg.
    - cbn [is_null_or_missing] in *. destruct nl; injection Hp as <- <- <-; injection Hc as <- <-; fin_tac Hg.
  Qed.

  (* the null-or-missing branch shared by lists and objects *)
  Lemma refines_missing : forall n parent path parent' errs st res errs' tns,
    has_path_kind n = true ->
    is_null_or_missing (get_path (node_path n) parent) = true ->
    (if node_nullable n then (parent, [], WOk) else (parent, nonnull_error path (node_path n) parent, WErr))
      = (parent', errs, st) ->
    (if node_nullable n then (Some JNull, []) else (None, nonnull_error path (node_path n) parent))
      = (res, errs') ->
    node_post n parent tns parent' errs st res errs'.
  Proof.
    intros n parent path parent' errs st res errs' tns Hk Hm Hp Hc.
    destruct (node_nullable n) eqn:Hn; injection Hp as <- <- <-; injection Hc as <- <-;
      repeat split; try congruence; try (apply frame_same).
    intros _. exists JNull. split; [reflexivity|]. apply render_nullish; auto.
  Qed.

  (* writing back at the node's own (non-empty) path *)
  Lemma frame_set_cons : forall n k r parent x v,
    (is_obj_node n || is_arr_node n) = true -> node_path n = k :: r ->
    get_path (k :: r) parent = Some v ->
    frame n parent (set_path (k :: r) x parent).
  Proof.
    intros n k r parent x v Hoa Hp Hg _ Htn.
    assert (rpaths n = [k :: r]) as Hrp.
    { rewrite <- Hp. apply rpaths_own; [destruct n; try discriminate; reflexivity | rewrite Hp; discriminate]. }
    apply rewrites_one.
    - rewrite Hrp. left. reflexivity.
    - destruct n; try discriminate Hoa; cbn [node_path] in Hp; subst; cbn [tn_ok] in Htn;
        eapply head_not_typename_cons; eauto.
    - congruence.
  Qed.

  Lemma post_nulled : forall n k r parent tns e v,
    (is_obj_node n || is_arr_node n) = true -> node_nullable n = true -> node_path n = k :: r ->
    get_path (k :: r) parent = Some v ->
    node_post n parent tns (set_path (k :: r) JNull parent) e WOk (Some JNull) e.
  Proof.
    intros n k r parent tns e v Hoa Hnl Hp Hg.
    apply post_ok; [|eapply frame_set_cons; eauto].
    apply render_nullish; auto.
    - destruct n; try discriminate; reflexivity.
    - rewrite Hp, get_set_same by congruence. reflexivity.
  Qed.

  Lemma refines_arr : forall p nl item, refines deny item -> refines deny (NArr p nl item).
  Proof.
    intros p nl item IH depth Hwf parent path tns parent' errs st res errs' Hp Hc.
    change (node_post (NArr p nl item) parent tns parent' errs st res errs').
    rewrite plan_wf_arr_eq in Hwf.
    rewrite prewalk_arr_eq in Hp. rewrite complete_arr_eq in Hc. cbv zeta in Hp.
    destruct (get_path p parent) as [x|] eqn:Hg;
      [destruct x as [| b | raw | s | items | m]|]; cbn [is_null_or_missing] in Hp;
      try (injection Hp as <- <- <-; injection Hc as <- <-; apply post_err; apply frame_same);
      try (apply (refines_missing (NArr p nl item) parent path parent' errs st res errs' tns);
           cbn [node_path node_nullable]; auto; rewrite Hg; reflexivity).
    destruct (pw_items deny item (push_names path p) tns items 0) as [[items' e] s] eqn:Hpi.
    destruct (comp_items deny item (push_names path p) tns items 0) as [r e'] eqn:Hci.
    destruct (items_ok deny item nl p _ _ depth IH Hwf _ _ _ _ _ _ _ Hpi Hci) as (He & Hs). subst e'.
    (* the frame of a write-back at the list's own path *)
    assert (forall x, frame (NArr p nl item) parent (set_path p x parent)) as Hframe.
    { intros x. destruct p as [|k pr].
      - intros [m ->] _. cbn [get_path] in Hg. discriminate Hg.
      - eapply frame_set_cons; eauto. }
    destruct s as [s0|].
    - destruct Hs as (-> & ->).
      destruct nl.
      + destruct p as [|k rp].
        * injection Hp as <- <- <-; injection Hc as <- <-. apply post_err. apply Hframe.
        * injection Hp as <- <- <-; injection Hc as <- <-.
          apply (post_nulled (NArr (k :: rp) true item) k rp parent tns e (JArr items)); auto.
      + injection Hp as <- <- <-; injection Hc as <- <-. apply post_err. apply Hframe.
    - destruct Hs as (l & -> & Hrd). injection Hp as <- <- <-. injection Hc as <- <-.
      apply post_ok; [|apply Hframe].
      rewrite render_arr_eq. cbv zeta. rewrite get_set_same by congruence. cbn [is_null_or_missing].
      rewrite Hrd. rewrite marshal_arr_eq, marshal_items_bytes. reflexivity.
  Qed.

  Lemma refines_obj : forall p nl ty poss inacc unres fields,
    Forall (fun f => refines deny (fval f)) fields -> refines deny (NObj p nl ty poss inacc unres fields).
  Proof.
    intros p nl ty poss inacc unres fields IH depth Hwf parent path tns parent' errs st res errs' Hp Hc.
    change (node_post (NObj p nl ty poss inacc unres fields) parent tns parent' errs st res errs').
    rewrite plan_wf_obj_eq in Hwf. apply andb_true_iff in Hwf. destruct Hwf as [Hdist Hfwf].
    rewrite prewalk_obj_eq in Hp. rewrite complete_obj_eq in Hc. cbv zeta in Hp, Hc.
    destruct unres.
    { injection Hp as <- <- <-; injection Hc as <- <-. apply post_err; apply frame_same. }
    destruct (get_path p parent) as [x|] eqn:Hg;
      [destruct x as [| b | raw | s | items | m]|]; cbn [is_null_or_missing] in Hp;
      try (injection Hp as <- <- <-; injection Hc as <- <-; apply post_err; apply frame_same);
      try (apply (refines_missing (NObj p nl ty poss inacc false fields) parent path parent' errs st res errs' tns);
           cbn [node_path node_nullable]; auto; rewrite Hg; reflexivity).
    destruct (tn_bad ty poss (typename_of (JObj m))) eqn:Htb.
    { destruct nl; injection Hp as <- <- <-; injection Hc as <- <-.
      - apply post_ok; [|apply frame_same].
        rewrite render_obj_eq. cbv zeta. rewrite Hg. cbn [is_null_or_missing]. rewrite Htb. reflexivity.
      - apply post_err; apply frame_same. }
    set (tn := typename_of (JObj m)) in *.
    destruct (pw_fields deny nl p (push_names path p) (tn :: tns) fields (JObj m)) as [[value' e] s] eqn:Hpf.
    destruct (comp_fields deny (JObj m) (push_names path p) (tn :: tns) tn fields) as [r e'] eqn:Hcf.
    assert (exists m0, JObj m = JObj m0) as Hobj by eauto.
    destruct (fields_ok deny nl p _ _ depth fields IH Hfwf Hdist (JObj m) tn eq_refl Hobj _ _ _ _ _ Hpf Hcf)
      as (He & Hrw & Hs).
    subst e'.
    destruct (rewrites_obj _ _ _ Hrw Hobj) as [m' Hm'].
    pose proof (rewrites_typename _ _ _ Hrw) as Htn'. fold tn in Htn'.
    (* the frame of a write-back at the object's own path: the rewritten value itself when the path is
       empty (the object is the enclosing value), anything below a key otherwise *)
    assert (forall x, x = value' \/ p <> [] ->
                      frame (NObj p nl ty poss inacc false fields) parent (set_path p x parent)) as Hframe.
    { intros x Hx. destruct p as [|k pr].
      - destruct Hx as [->|Hx]; [|congruence]. cbn [get_path] in Hg. injection Hg as ->.
        intros _ _. rewrite rpaths_obj_nil. exact Hrw.
      - eapply frame_set_cons; eauto. }
    destruct s as [[nulled st0]|].
    - destruct Hs as (-> & Hn & Hst). destruct nulled.
      + rewrite <- Hn in Hc. injection Hp as <- <- <-; injection Hc as <- <-.
        symmetry in Hn. apply andb_true_iff in Hn. destruct Hn as [-> Hpne].
        destruct p as [|k pr]; [discriminate Hpne|].
        apply (post_nulled (NObj (k :: pr) true ty poss inacc false fields) k pr parent tns e (JObj m)); auto.
      + rewrite <- Hn in Hc. subst st0. injection Hp as <- <- <-; injection Hc as <- <-.
        apply post_err. apply Hframe. left. reflexivity.
    - destruct Hs as (l & -> & Hrd). injection Hp as <- <- <-; injection Hc as <- <-.
      apply post_ok; [|apply Hframe; left; reflexivity].
      rewrite render_obj_eq. cbv zeta. rewrite get_set_same by congruence. subst value'.
      cbn [is_null_or_missing].
      rewrite Htn'. rewrite Htb. rewrite Hrd by (auto using same_head_refl).
      rewrite marshal_obj_eq, marshal_members_bytes. reflexivity.
  Qed.

  Theorem refines_all : forall n, refines deny n.
  Proof.
    induction n using node_ind'.
    - apply refines_obj; assumption.
    - apply refines_arr; assumption.
    - apply (refines_scalar _ EK_STRING is_jstr is_jstr); auto.
    - apply (refines_scalar _ EK_BOOL is_jbool is_jbool); auto.
    - apply (refines_scalar _ EK_INT is_jnum is_jnum); auto.
    - apply (refines_scalar _ EK_FLOAT is_jnum (fun _ => true)); auto.
    - apply (refines_scalar _ 0 (fun _ => true) (fun _ => true)); auto.
    - apply (refines_scalar _ 0 (fun _ => true) (fun _ => true)); auto.
    - apply refines_enum.
    - intros depth Hwf parent path tns parent' errs st res errs' Hp Hc.
      injection Hp as <- <- <-; injection Hc as <- <-.
      apply post_ok; [reflexivity | apply frame_same].
    - intros depth Hwf parent path tns parent' errs st res errs' Hp Hc.
      injection Hp as <- <- <-; injection Hc as <- <-.
      apply post_ok; [|apply frame_same].
      simpl in Hwf. cbn [render marshal]. rewrite escape_string_plain by exact Hwf. reflexivity.
    - intros depth Hwf parent path tns parent' errs st res errs' Hp Hc.
      injection Hp as <- <- <-; injection Hc as <- <-.
      apply post_ok; [reflexivity | apply frame_same].
    - intros depth Hwf parent path tns parent' errs st res errs' Hp Hc.
      injection Hp as <- <- <-; injection Hc as <- <-.
      apply post_ok; [reflexivity | apply frame_same].
  Qed.

  (* ---- the root ---- *)
  Lemma root_wf_shape : forall root, root_wf root = true ->
    exists ty poss inacc fields, root = NObj [] false ty poss inacc false fields /\ plan_wf 0 root = true.
  Proof.
    intros root H. destruct root; try discriminate. unfold root_wf in H.
    destruct path; [|discriminate]. destruct nullable; [discriminate|]. destruct unresolvable; [discriminate|].
    eauto 10.
  Qed.

  Lemma render_root : forall ty poss inacc fields v tns l,
    render (NObj [] false ty poss inacc false fields) v tns false = (marshal (JObj l), false) ->
    render (NObj [] false ty poss inacc false fields) v tns true = (marshal_members l, false).
  Proof.
    intros ty poss inacc fields v tns l H. rewrite render_obj_eq in *. cbv zeta in *.
    cbn [get_path] in *.
    destruct (is_null_or_missing (Some v)); [discriminate|].
    destruct v; try discriminate.
    destruct (tn_bad ty poss (typename_of (JObj members))); [discriminate|].
    destruct (rd_fields false (JObj members) (typename_of (JObj members) :: tns) fields false) as [b err].
    destruct err; [discriminate|].
    rewrite marshal_obj_eq in H. cbn [app] in H. injection H as H.
    apply app_inv_tail in H. subst b. rewrite app_nil_r. reflexivity.
  Qed.

  Theorem resolve_refines_complete_lemma : forall root data,
    root_wf root = true ->
    let r := resolve deny root data in
    r_panic r = false /\ r_render_err r = false /\
    r_errors r = snd (complete_root deny root data) /\
    r_data r = data_bytes (fst (complete_root deny root data)) /\
    (r_data_null r = true <-> fst (complete_root deny root data) = None).
  Proof.
    intros root data Hwf. destruct (root_wf_shape root Hwf) as (ty & poss & inacc & fields & -> & Hpw).
    unfold resolve, complete_root.
    destruct (prewalk deny (NObj [] false ty poss inacc false fields) data [] []) as [[data' errs] st] eqn:Hp.
    destruct (complete deny (NObj [] false ty poss inacc false fields) data [] []) as [res errs'] eqn:Hc.
    destruct (refines_all _ 0%nat Hpw _ _ _ _ _ _ _ _ Hp Hc) as (He & Hnp & Herr & Hok & _).
    subst errs'. cbn [fst snd].
    destruct st.
    - destruct (Hok eq_refl) as (t & -> & Hrd).
      assert (exists l, t = JObj l) as [l ->].
      { rewrite complete_obj_eq in Hc. cbv zeta in Hc. cbn [get_path] in Hc.
        destruct data; cbv beta iota zeta in Hc; try discriminate Hc.
        destruct (tn_bad ty poss (typename_of (JObj members))); cbv beta iota zeta in Hc; [discriminate Hc|].
        destruct (comp_fields deny (JObj members) (push_names [] []) (typename_of (JObj members) :: [])
                              (typename_of (JObj members)) fields) as [[l|] e]; cbv beta iota zeta in Hc.
        - injection Hc as <- _. eauto.
        - discriminate Hc. }
      rewrite (render_root _ _ _ _ _ _ _ Hrd). cbn [r_panic r_render_err r_errors r_data r_data_null data_bytes].
      rewrite marshal_obj_eq. repeat split; try discriminate.
    - rewrite (Herr eq_refl). cbn. repeat split; auto.
    - congruence.
  Qed.
End Refine2.
