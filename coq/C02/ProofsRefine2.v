(* C02 proofs, part 4: every plan node refines the completion semantics; the root theorem. *)
From Coq Require Import Lia ZifyN ZifyBool.
From Gv Require Import lib.Bytes lib.Json C02.Model C02.Spec C02.ProofsBase C02.ProofsExt C02.ProofsRefine.
Open Scope N_scope.

Lemma path_shape : forall (as_item : bool) (p : list bytes),
  (if as_item then match p with [] => true | _ => false end else single_key p) = true ->
  (as_item = true /\ p = []) \/ (as_item = false /\ exists k, p = [k]).
Proof.
  intros as_item p H. destruct as_item; destruct p as [|k [|k2 r]]; try discriminate; eauto.
Qed.

Lemma get_set_path : forall p x parent v,
  p = [] \/ (exists k, p = [k]) -> get_path p parent = Some v -> get_path p (set_path p x parent) = Some x.
Proof.
  intros p x parent v [-> | [k ->]] H; [reflexivity|]. eapply mutk_get_same; eauto.
Qed.

Section Refine2.
  Variable deny : bytes -> bytes -> bool.

  Lemma refines_scalar : forall n kind accept accept',
    has_path_kind n = true ->
    (forall x, accept x = true -> accept' x = true) ->
    (forall parent path tns, prewalk deny n parent path tns =
       let '(e, s) := scalar_prewalk path (node_path n) (node_nullable n) kind accept parent in (parent, e, s)) ->
    (forall parent path tns, complete deny n parent path tns =
       scalar_complete path (node_path n) (node_nullable n) kind accept parent) ->
    (forall parent tns r, render n parent tns r = scalar_render (node_path n) (node_nullable n) accept' parent) ->
    refines deny n.
  Proof.
    intros n kind accept accept' Hk Hacc Hpw Hcp Hrd as_item depth Hwf parent path tns parent' errs st res errs' Hp Hc.
    rewrite Hpw in Hp. rewrite Hcp in Hc.
    destruct (scalar_prewalk path (node_path n) (node_nullable n) kind accept parent) as [e s] eqn:Hsp.
    injection Hp as <- <- <-.
    destruct (scalar_ok _ _ _ _ _ _ _ _ _ _ _ Hacc Hsp Hc) as (He & Hnp & Herr & Hok).
    split; [exact He|]. split; [exact Hnp|]. split; [exact Herr|]. split.
    - intros Hs. destruct (Hok Hs) as (t & Hr & Hsr). exists t. split; [exact Hr|]. rewrite Hrd. exact Hsr.
    - intros _. left. reflexivity.
  Qed.

  Ltac fin_tac Hg :=
    repeat split; try congruence; try (intros _; left; reflexivity);
    try (intros _; eexists; split; [reflexivity|]; rewrite Hg; reflexivity).

  Lemma refines_enum : forall p nl ty vs inacc, refines deny (NEnum p nl ty vs inacc).
  Proof.
    intros p nl ty vs inacc as_item depth Hwf parent path tns parent' errs st res errs' Hp Hc.
    cbn [prewalk] in Hp. cbn [complete] in Hc. cbn [render]. cbv zeta in *.
    destruct (get_path p parent) as [x|] eqn:Hg.
    - destruct x as [| b | raw | s | items | m]; cbn [is_null_or_missing] in *.
      + destruct nl; injection Hp as <- <- <-; injection Hc as <- <-; fin_tac Hg.
      + injection Hp as <- <- <-; injection Hc as <- <-; fin_tac Hg.
      + injection Hp as <- <- <-; injection Hc as <- <-; fin_tac Hg.
      + destruct (mem_bytes s vs) eqn:Hv; cbn [negb] in *; [destruct (mem_bytes s inacc) eqn:Hi|];
          destruct nl; injection Hp as <- <- <-; injection Hc as <- <-;
          repeat split; try congruence; try (intros _; left; reflexivity);
          intros _; eexists; (split; [reflexivity|]); rewrite Hg; cbn [is_null_or_missing];
          rewrite Hv; cbn [negb orb]; rewrite ?Hi; reflexivity.
      + injection Hp as <- <- <-; injection Hc as <- <-; fin_tac Hg.
      + injection Hp as <- <- <-; injection Hc as <- <-; fin_tac Hg.
    - cbn [is_null_or_missing] in *. destruct nl; injection Hp as <- <- <-; injection Hc as <- <-; fin_tac Hg.
  Qed.

  (* the null-or-missing branch shared by lists and objects *)
  Lemma refines_missing : forall n as_item parent path parent' errs st res errs' tns,
    has_path_kind n = true ->
    is_null_or_missing (get_path (node_path n) parent) = true ->
    (if node_nullable n then (parent, [], WOk) else (parent, nonnull_error path (node_path n) parent, WErr))
      = (parent', errs, st) ->
    (if node_nullable n then (Some JNull, []) else (None, nonnull_error path (node_path n) parent))
      = (res, errs') ->
    errs = errs' /\ st <> WPanic /\ (st = WErr -> res = None) /\
    (st = WOk -> exists t, res = Some t /\ render n parent' tns false = (marshal t, false)) /\
    (as_item = false -> parent' = parent \/
       ((is_obj_node n || is_arr_node n) = true /\ exists k, node_path n = [k] /\ mutk k parent parent')).
  Proof.
    intros n as_item parent path parent' errs st res errs' tns Hk Hm Hp Hc.
    destruct (node_nullable n) eqn:Hn; injection Hp as <- <- <-; injection Hc as <- <-;
      repeat split; try congruence; auto.
    intros _. exists JNull. split; [reflexivity|]. apply render_nullish; auto.
  Qed.

  Lemma refines_arr : forall p nl item, refines deny item -> refines deny (NArr p nl item).
  Proof.
    intros p nl item IH as_item depth Hwf parent path tns parent' errs st res errs' Hp Hc.
    rewrite plan_wf_arr_eq in Hwf. apply andb_true_iff in Hwf. destruct Hwf as [Hpath Hiwf].
    apply path_shape in Hpath.
    assert (p = [] \/ exists k, p = [k]) as Hp01 by (destruct Hpath as [[_ ->]|[_ Hk]]; auto).
    rewrite prewalk_arr_eq in Hp. rewrite complete_arr_eq in Hc. cbv zeta in Hp.
    destruct (get_path p parent) as [x|] eqn:Hg;
      [destruct x as [| b | raw | s | items | m]|]; cbn [is_null_or_missing] in Hp;
      try (injection Hp as <- <- <-; injection Hc as <- <-; repeat split; try congruence; auto; fail);
      try (apply (refines_missing (NArr p nl item) as_item parent path parent' errs st res errs' tns);
           cbn [node_path node_nullable]; auto; rewrite Hg; reflexivity).
    destruct (pw_items deny item (push_names path p) tns items 0) as [[items' e] s] eqn:Hpi.
    destruct (comp_items deny item (push_names path p) tns items 0) as [r e'] eqn:Hci.
    destruct (items_ok deny item nl p _ _ depth IH Hiwf _ _ _ _ _ _ _ Hpi Hci) as (He & Hs). subst e'.
    destruct s as [s0|].
    - destruct Hs as (-> & ->).
      destruct nl; [destruct p as [|k [|k2 rp]]|]; injection Hp as <- <- <-; injection Hc as <- <-;
        repeat split; try congruence; auto.
      + intros _. exists JNull. split; [reflexivity|]. apply render_nullish; auto.
        cbn [node_path]. erewrite mutk_get_same by eauto. reflexivity.
      + intros ->. right. split; [reflexivity|]. exists k. split; [reflexivity|]. eapply mutk_set; eauto.
      + intros _. exfalso. destruct Hp01 as [H|[k' H]]; discriminate H.
      + intros ->. destruct Hpath as [[H _]|[_ [k' H]]]; discriminate H.
      + intros ->. destruct Hpath as [[H _]|[_ [k' ->]]]; [discriminate H|].
        right. split; [reflexivity|]. exists k'. split; [reflexivity|]. eapply mutk_set; eauto.
    - destruct Hs as (l & -> & Hrd). injection Hp as <- <- <-. injection Hc as <- <-.
      repeat split; try congruence; auto.
      + intros _. exists (JArr l). split; [reflexivity|].
        rewrite render_arr_eq. cbv zeta. erewrite get_set_path by eauto. cbn [is_null_or_missing].
        rewrite Hrd. rewrite marshal_arr_eq, marshal_items_bytes. reflexivity.
      + intros ->. destruct Hpath as [[H _]|[_ [k' ->]]]; [discriminate H|].
        right. split; [reflexivity|]. exists k'. split; [reflexivity|]. eapply mutk_set; eauto.
  Qed.
End Refine2.
