From Gv Require Import lib.Bytes lib.Json lib.ExtractAnchor C02.Model.
Require Import ExtrOcamlBasic.
Extraction Language OCaml.
Extraction "model.ml" extraction_anchor resolve envelope marshal.
