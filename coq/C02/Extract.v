From Gv Require Import lib.Bytes lib.Json lib.ExtractAnchor C02.Model C02.Spec.
Require Import ExtrOcamlBasic.
Extraction Language OCaml.
Extraction "model.ml" extraction_anchor resolve envelope marshal complete_root conforms_b root_wf root_wf_upto json_eqb data_bytes.
