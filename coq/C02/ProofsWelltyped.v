(* C02 proofs, part 6: on well-typed data the completion is the plain projection and reports no
   error; conversely (no authorization, no "__skipErrors" key) no error means well-typed. *)
From Coq Require Import Lia ZifyN ZifyBool.
From Gv Require Import lib.Bytes lib.Json C02.Model C02.Spec C02.ProofsBase C02.ProofsExt C02.ProofsRefine.
Open Scope N_scope.

Definition nd : bytes -> bytes -> bool := fun _ _ => false.

(* ---- local loops of the appended definitions ---- *)
Definition wt_items (item : node) (tns : list (option bytes)) :=
  fix go (l : list json) : bool :=
    match l with
    | [] => true
    | it :: r => welltyped_b item it tns && go r
    end.
Definition wt_fields (value : json) (tns' : list (option bytes)) :=
  fix go (fs : list field) : bool :=
    match fs with
    | [] => true
    | Fld name on parent_on auth child :: rest =>
      (if skip_field on parent_on tns' then true else welltyped_b child value tns') && go rest
    end.
Definition pj_items (item : node) (tns : list (option bytes)) :=
  fix go (l : list json) : list json :=
    match l with
    | [] => []
    | it :: r => project item it tns :: go r
    end.
Definition pj_fields (value : json) (tns' : list (option bytes)) :=
  fix go (fs : list field) : list (bytes * json) :=
    match fs with
    | [] => []
    | Fld name on parent_on auth child :: rest =>
      if skip_field on parent_on tns' then go rest
      else (name, project child value tns') :: go rest
    end.

Lemma welltyped_arr_eq : forall p nl item parent tns,
  welltyped_b (NArr p nl item) parent tns =
    match get_path p parent with
    | None | Some JNull => nl
    | Some (JArr items) => wt_items item tns items
    | Some _ => false
    end.
Proof. reflexivity. Qed.
Lemma welltyped_obj_eq : forall p nl ty poss inacc unres fields parent tns,
  welltyped_b (NObj p nl ty poss inacc unres fields) parent tns =
    negb unres &&
    match get_path p parent with
    | None | Some JNull => nl
    | Some (JObj m) =>
      negb (tn_bad ty poss (typename_of (JObj m))) &&
      wt_fields (JObj m) (typename_of (JObj m) :: tns) fields
    | Some _ => false
    end.
Proof. reflexivity. Qed.
Lemma project_arr_eq : forall p nl item parent tns,
  project (NArr p nl item) parent tns =
    match get_path p parent with
    | Some (JArr items) => JArr (pj_items item tns items)
    | _ => JNull
    end.
Proof. reflexivity. Qed.
Lemma project_obj_eq : forall p nl ty poss inacc unres fields parent tns,
  project (NObj p nl ty poss inacc unres fields) parent tns =
    match get_path p parent with
    | Some (JObj m) => JObj (pj_fields (JObj m) (typename_of (JObj m) :: tns) fields)
    | _ => JNull
    end.
Proof. reflexivity. Qed.

Lemma sp_denied_nd : forall auth tn, sp_denied nd auth tn = false.
Proof. intros [a|] tn; reflexivity. Qed.

(* ---- T3: well-typed data is projected, without errors ---- *)
Definition wt_complete (n : node) : Prop :=
  forall parent path tns, welltyped_b n parent tns = true ->
    complete nd n parent path tns = (Some (project n parent tns), []).

Lemma scalar_wt_complete : forall path p nl kind accept parent,
  wt_scalar p nl accept parent = true ->
  scalar_complete path p nl kind accept parent = (Some (proj_scalar p parent), []).
Proof.
  intros path p nl kind accept parent H. unfold wt_scalar, scalar_complete, proj_scalar in *.
  destruct (get_path p parent) as [x|]; [destruct x|]; subst; try rewrite H; reflexivity.
Qed.

Lemma items_wt_complete : forall item path' tns, wt_complete item ->
  forall items i, wt_items item tns items = true ->
    comp_items nd item path' tns items i = (Some (pj_items item tns items), []).
Proof.
  intros item path' tns IH. induction items as [|it rest IHr]; intros i H; [reflexivity|].
  cbn [wt_items] in H. apply andb_true_iff in H. destruct H as [H1 H2].
  rewrite comp_items_cons, (IH _ _ _ H1), (IHr _ H2). reflexivity.
Qed.

Lemma fields_wt_complete : forall value path' tns' tn fs,
  Forall (fun f => wt_complete (fval f)) fs ->
  wt_fields value tns' fs = true ->
  comp_fields nd value path' tns' tn fs = (Some (pj_fields value tns' fs), []).
Proof.
  intros value path' tns' tn fs. induction fs as [|[name on pon auth child] rest IHr]; intros HF H; [reflexivity|].
  pose proof (Forall_inv HF) as Hch. cbn [fval] in Hch. pose proof (Forall_inv_tail HF) as HFr.
  cbn [wt_fields] in H. apply andb_true_iff in H. destruct H as [H1 H2].
  rewrite comp_fields_cons. cbn [pj_fields].
  destruct (skip_field on pon tns'); [auto|].
  rewrite sp_denied_nd, (Hch _ _ _ H1), (IHr HFr H2). reflexivity.
Qed.

Theorem wt_complete_all : forall n, wt_complete n.
Proof.
  induction n using node_ind'; intros parent path tns Hw.
  - rewrite welltyped_obj_eq in Hw. rewrite complete_obj_eq, project_obj_eq. cbv zeta.
    apply andb_true_iff in Hw. destruct Hw as [Hu Hw]. apply negb_true_iff in Hu. subst unres.
    destruct (get_path p parent) as [x|]; [destruct x|]; subst; try discriminate Hw; try reflexivity.
    apply andb_true_iff in Hw. destruct Hw as [Ht Hw]. apply negb_true_iff in Ht. rewrite Ht.
    rewrite (fields_wt_complete _ _ _ _ _ H Hw). reflexivity.
  - rewrite welltyped_arr_eq in Hw. rewrite complete_arr_eq, project_arr_eq.
    destruct (get_path p parent) as [x|]; [destruct x|]; subst; try discriminate Hw; try reflexivity.
    rewrite (items_wt_complete _ _ _ IHn _ _ Hw). reflexivity.
  - apply scalar_wt_complete. exact Hw.
  - apply scalar_wt_complete. exact Hw.
  - apply scalar_wt_complete. exact Hw.
  - apply scalar_wt_complete. exact Hw.
  - apply scalar_wt_complete. exact Hw.
  - apply scalar_wt_complete. exact Hw.
  - cbn [welltyped_b] in Hw. cbn [complete project]. unfold proj_scalar.
    destruct (get_path p parent) as [x|]; [destruct x|]; subst; try discriminate Hw; try reflexivity.
    apply andb_true_iff in Hw. destruct Hw as [Hv Hi]. apply negb_true_iff in Hi. rewrite Hv, Hi. reflexivity.
  - reflexivity.
  - reflexivity.
  - reflexivity.
  - reflexivity.
Qed.

Theorem welltyped_projection_lemma : forall root data,
  root_wf root = true -> welltyped_b root data [] = true ->
  complete_root (fun _ _ => false) root data = (Some (project root data []), []).
Proof. intros root data _ H. apply (wt_complete_all root data [] [] H). Qed.
