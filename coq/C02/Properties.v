(* C02 property theorems: statements only; every proof is [exact lemma]. (proofs in progress) *)
From Gv Require Import lib.Bytes lib.Json C02.Model C02.Spec.
Open Scope N_scope.

(* non-vacuity: a well-formed plan with an abstract object, a nested list and an enum *)
Example c02_wf_example :
  root_wf (NObj [] false [81] [] [] false
            [Fld [97] None None None (NArr [[97]] true (NArr [] true (NInt [] false)));
             Fld [98] None None None (NObj [[98]] true [73] [[65];[66]] [] false
                                        [Fld [99] (Some [[65]]) None None (NEnum [[99]] false [69] [[82]] [])])]) = true.
Proof. reflexivity. Qed.
