(* C02 property theorems: statements only; every proof is [exact lemma]. *)
From Gv Require Import lib.Bytes lib.Json C02.Model C02.Spec C02.ProofsRefine2 C02.ProofsTypesafe.
Open Scope N_scope.

(* non-vacuity: a well-formed plan with an abstract object, a nested list and an enum *)
Example c02_wf_example :
  root_wf (NObj [] false [81] [] [] false
            [Fld [97] None None None (NArr [[97]] true (NArr [] true (NInt [] false)));
             Fld [98] None None None (NObj [[98]] true [73] [[65];[66]] [] false
                                        [Fld [99] (Some [[65]]) None None (NEnum [[99]] false [69] [[82]] [])])]) = true.
Proof. reflexivity. Qed.

(* T1: the two-pass implementation model (mutating pre-walk, then print walk) never panics, never
   reports a print error, and yields exactly the errors and the marshalled tree of the one-pass
   completion semantics -- for every authorization decision function, plan and data. *)
Theorem resolve_refines_complete :
  forall (deny : bytes -> bytes -> bool) (root : node) (data : json),
    root_wf root = true ->
    let r := resolve deny root data in
    r_panic r = false /\ r_render_err r = false /\
    r_errors r = snd (complete_root deny root data) /\
    r_data r = data_bytes (fst (complete_root deny root data)) /\
    (r_data_null r = true <-> fst (complete_root deny root data) = None).
Proof. exact resolve_refines_complete_lemma. Qed.
Print Assumptions resolve_refines_complete.

(* T2: the completion result is type-safe and has exactly the selected keys *)
Theorem complete_typesafe :
  forall (deny : bytes -> bytes -> bool) (root : node) (data : json) (t : json),
    root_wf root = true ->
    fst (complete_root deny root data) = Some t ->
    conforms_b root data [] t = true.
Proof. exact complete_typesafe_lemma. Qed.
Print Assumptions complete_typesafe.
