(* C02 property theorems: statements only; every proof is [exact lemma]. *)
From Gv Require Import lib.Bytes lib.Json C02.Model C02.Spec C02.ProofsRefine2 C02.ProofsTypesafe
     C02.ProofsWelltyped C02.ProofsNoErr C02.ProofsDenied C02.ProofsTypename.
Open Scope N_scope.

(* non-vacuity: a well-formed plan with an abstract object, a nested list and an enum *)
Example c02_wf_example :
  root_wf (NObj [] false [81] [] [] false
            [Fld [97] None None None (NArr [[97]] true (NArr [] true (NInt [] false)));
             Fld [98] None None None (NObj [[98]] true [73] [[65];[66]] [] false
                                        [Fld [99] (Some [[65]]) None None (NEnum [[99]] false [69] [[82]] [])])]) = true.
Proof. reflexivity. Qed.

(* non-vacuity for data paths of every length: a field read three keys deep next to one sharing its
   two-key prefix (n.m.a / n.m.b), a segment equal to a sibling's key (d.a next to a), a flattened
   object (empty path) whose own fields sit next to the enclosing object's, and list items read
   below a key (each item {"v":..} rendered as its "v") *)
Example c02_wf_paths_example :
  root_wf (NObj [] false [81] [] [] false
            [Fld [120] None None None (NStr [[110];[109];[97]] true);
             Fld [121] None None None (NObj [[110];[109];[98]] true [84] [] [] false
                                         [Fld [122] None None None (NInt [[122]] false)]);
             Fld [97] None None None (NInt [[97]] true);
             Fld [119] None None None (NBool [[100];[97]] false);
             Fld [102] None None None (NObj [] true [81] [] [] false
                                         [Fld [103] None None None (NFloat [[103];[104]] true)]);
             Fld [108] None None None (NArr [[108];[105]] true (NStr [[118]] false))]) = true.
Proof. vm_compute. reflexivity. Qed.

(* T1: the two-pass implementation model (mutating pre-walk, then print walk) never panics, never
   reports a print error, and yields exactly the errors and the marshalled tree of the one-pass
   completion semantics -- for every authorization decision function, plan and data. *)
Theorem resolve_refines_complete :
  forall (deny : bytes -> bytes -> bool) (root : node) (data : json),
    root_wf root = true ->
    let r := resolve deny root data in
    r_panic r = false /\ r_render_err r = false /\
    r_errors r = snd (complete_root deny root data) /\
    r_data r = data_bytes (fst (complete_root deny root data)) /\
    (r_data_null r = true <-> fst (complete_root deny root data) = None).
Proof. exact resolve_refines_complete_lemma. Qed.
Print Assumptions resolve_refines_complete.

(* T2: the completion result is type-safe and has exactly the selected keys *)
Theorem complete_typesafe :
  forall (deny : bytes -> bytes -> bool) (root : node) (data : json) (t : json),
    root_wf root = true ->
    fst (complete_root deny root data) = Some t ->
    conforms_b root data [] t = true.
Proof. exact complete_typesafe_lemma. Qed.
Print Assumptions complete_typesafe.

(* T3: on well-typed data (no authorization) the completion is the plain projection, no errors *)
Theorem welltyped_projection :
  forall (root : node) (data : json),
    root_wf root = true ->
    welltyped_b root data [] = true ->
    complete_root (fun _ _ => false) root data = (Some (project root data []), []).
Proof. exact welltyped_projection_lemma. Qed.
Print Assumptions welltyped_projection.

(* T4: without authorization and without any "__skipErrors" key in the data, the error list is
   empty exactly when the data is well-typed *)
Theorem errors_iff_not_welltyped :
  forall (root : node) (data : json),
    root_wf root = true ->
    no_skip_errors data = true ->
    (snd (complete_root (fun _ _ => false) root data) = [] <-> welltyped_b root data [] = true).
Proof. exact errors_iff_not_welltyped_lemma. Qed.
Print Assumptions errors_iff_not_welltyped.

(* T5: every denied field is null in the result and reported as EK_UNAUTHORIZED at its path *)
Theorem denied_is_null :
  forall (deny : bytes -> bytes -> bool) (root : node) (data : json) (t : json),
    root_wf root = true ->
    fst (complete_root deny root data) = Some t ->
    denied_null_b deny root data [] [] (snd (complete_root deny root data)) t = true.
Proof. exact denied_is_null_lemma. Qed.
Print Assumptions denied_is_null.

(* ---- non-vacuity: a non-null leaf is null inside a nullable object inside a list ----
   plan  { l: [T] } with T { x: Int! };  data {"l":[{"x":1},{"x":null}]}
   result {"l":[{"x":1},null]} with one non-null error at l.1.x *)
Definition ex_plan : node :=
  NObj [] false [81] [] [] false
       [Fld [108] None None None
            (NArr [[108]] true
                  (NObj [] true [84] [] [] false [Fld [120] None None None (NInt [[120]] false)]))].
Definition ex_data : json :=
  JObj [([108], JArr [JObj [([120], JNum [49])]; JObj [([120], JNull)]])].
Definition ex_out : json :=
  JObj [([108], JArr [JObj [([120], JNum [49])]; JNull])].
Definition ex_errs : list gerr :=
  [{| ge_kind := EK_NONNULL; ge_path := [PName [108]; PIdx 1; PName [120]] |}].

Example c02_bubble_wf : root_wf ex_plan = true.
Proof. vm_compute. reflexivity. Qed.
Example c02_bubble_complete :
  complete_root (fun _ _ => false) ex_plan ex_data = (Some ex_out, ex_errs).
Proof. vm_compute. reflexivity. Qed.
Example c02_bubble_resolve :
  let r := resolve (fun _ _ => false) ex_plan ex_data in
  r_errors r = ex_errs /\ r_data r = marshal ex_out /\ r_data_null r = false /\
  r_panic r = false /\ r_render_err r = false.
Proof. vm_compute. repeat split. Qed.
Example c02_bubble_conforms : conforms_b ex_plan ex_data [] ex_out = true.
Proof. vm_compute. reflexivity. Qed.
Example c02_bubble_not_welltyped : welltyped_b ex_plan ex_data [] = false.
Proof. vm_compute. reflexivity. Qed.

(* a denied, nullable, unresolvable object followed by a sibling: null + error, sibling printed *)
Definition ex_auth_plan : node :=
  NObj [] false [84] [] [] false
       [Fld [97] None None (Some {| au_parent_type := [84]; au_field := [97] |})
            (NObj [[97]] true [85] [] [] true []);
        Fld [98] None None None (NInt [[98]] true)].
Definition ex_auth_data : json := JObj [([97], JObj []); ([98], JNum [50])].
Definition ex_auth_out : json := JObj [([97], JNull); ([98], JNum [50])].
Definition ex_auth_errs : list gerr := [{| ge_kind := EK_UNAUTHORIZED; ge_path := [PName [97]] |}].
Example c02_denied_wf : root_wf ex_auth_plan = true.
Proof. vm_compute. reflexivity. Qed.
Example c02_denied_complete :
  complete_root (fun _ f => bytes_eqb f [97]) ex_auth_plan ex_auth_data = (Some ex_auth_out, ex_auth_errs).
Proof. vm_compute. reflexivity. Qed.
Example c02_denied_resolve :
  let r := resolve (fun _ f => bytes_eqb f [97]) ex_auth_plan ex_auth_data in
  r_errors r = ex_auth_errs /\ r_data r = marshal ex_auth_out /\ r_render_err r = false.
Proof. vm_compute. repeat split. Qed.
Example c02_denied_null :
  denied_null_b (fun _ f => bytes_eqb f [97]) ex_auth_plan ex_auth_data [] [] ex_auth_errs ex_auth_out = true.
Proof. vm_compute. reflexivity. Qed.

(* ---- multi-segment paths: the bubble stops at a nullable object read two keys deep ----
   plan  { u: U } with U read at data.user, U { id: String!, name: String! }
   data  {"data":{"user":{"id":"1","name":null}},"x":1}
   result {"u":null} with one non-null error at data.user.name (error paths are data paths) *)
Definition ex2_plan : node :=
  NObj [] false [81] [] [] false
       [Fld [117] None None None
            (NObj [[100;97;116;97]; [117;115;101;114]] true [85] [] [] false
                  [Fld [105;100] None None None (NStr [[105;100]] false);
                   Fld [110;97;109;101] None None None (NStr [[110;97;109;101]] false)])].
Definition ex2_data : json :=
  JObj [([100;97;116;97], JObj [([117;115;101;114], JObj [([105;100], JStr [49]); ([110;97;109;101], JNull)])]);
        ([120], JNum [49])].
Definition ex2_out : json := JObj [([117], JNull)].
Definition ex2_errs : list gerr :=
  [{| ge_kind := EK_NONNULL;
      ge_path := [PName [100;97;116;97]; PName [117;115;101;114]; PName [110;97;109;101]] |}].
Example c02_paths_wf : root_wf ex2_plan = true.
Proof. vm_compute. reflexivity. Qed.
Example c02_paths_complete :
  complete_root (fun _ _ => false) ex2_plan ex2_data = (Some ex2_out, ex2_errs).
Proof. vm_compute. reflexivity. Qed.
Example c02_paths_resolve :
  let r := resolve (fun _ _ => false) ex2_plan ex2_data in
  r_errors r = ex2_errs /\ r_data r = marshal ex2_out /\ r_data_null r = false /\
  r_panic r = false /\ r_render_err r = false.
Proof. vm_compute. repeat split. Qed.

(* ---- why plan_wf asks for prefix-incomparable sibling paths ----
   plan  { s: String! read at a.b ; o: O read at a (nullable), O { c: Int! } }
   data  {"a":{"b":"x","c":null}}
   The pre-walk accepts s, then nulls "a" for o.  The print walk reads a.b from the nulled data: the
   model reports a print-walk error (the real renderer writes "s":null for a String! and stops),
   while the completion semantics gives {"s":"x","o":null}.  Every other clause of plan_wf holds. *)
Definition ex_overlap_plan : node :=
  NObj [] false [81] [] [] false
       [Fld [115] None None None (NStr [[97];[98]] false);
        Fld [111] None None None (NObj [[97]] true [79] [] [] false
                                    [Fld [99] None None None (NInt [[99]] false)])].
Definition ex_overlap_data : json := JObj [([97], JObj [([98], JStr [120]); ([99], JNull)])].
Example c02_overlap_not_wf : root_wf ex_overlap_plan = false.
Proof. vm_compute. reflexivity. Qed.
Example c02_overlap_breaks_two_pass :
  r_render_err (resolve (fun _ _ => false) ex_overlap_plan ex_overlap_data) = true /\
  fst (complete_root (fun _ _ => false) ex_overlap_plan ex_overlap_data)
    = Some (JObj [([115], JStr [120]); ([111], JNull)]).
Proof. vm_compute. split; reflexivity. Qed.

(* ---- the abstract-type guard and the `__typename` leaf (seeded regressions C02-m6, C02-m8, C02-m9) ----
   T1-T5 quantify over every (tyname, possible) pair and every data value; the statements below spell out
   what they imply at the two guards.  [possible] lists the keys of the Go map PossibleTypes. *)

(* T6: [is_abstract] is Object.isAbstract(): len(PossibleTypes) > 1, or exactly one possible type that is
   not the object's own type name *)
Theorem is_abstract_exact :
  forall (ty : bytes) (possible : list bytes),
    is_abstract ty possible = true <->
    (1 < length possible)%nat \/ (length possible = 1%nat /\ ~ In ty possible).
Proof. exact is_abstract_exact_lemma. Qed.
Print Assumptions is_abstract_exact.

(* T7: an entity interface (own name among two or more possible types) is abstract *)
Theorem entity_interface_is_abstract :
  forall (ty : bytes) (possible : list bytes),
    In ty possible -> (1 < length possible)%nat -> is_abstract ty possible = true.
Proof. exact entity_interface_is_abstract_lemma. Qed.
Print Assumptions entity_interface_is_abstract.

(* T8: data without a string "__typename" at an abstract position is never rendered as an object: null at
   a nullable position / propagated otherwise, one EK_TYPENAME error at the position -- in the completion
   semantics and in both passes of the implementation model *)
Theorem abstract_without_typename :
  forall (deny : bytes -> bytes -> bool) p nl ty possible inacc fields parent m path tns,
    is_abstract ty possible = true ->
    get_path p parent = Some (JObj m) ->
    typename_of (JObj m) = None ->
    complete deny (NObj p nl ty possible inacc false fields) parent path tns
      = (if nl then Some JNull else None, [{| ge_kind := EK_TYPENAME; ge_path := push_names path p |}]) /\
    prewalk deny (NObj p nl ty possible inacc false fields) parent path tns
      = (parent, [{| ge_kind := EK_TYPENAME; ge_path := push_names path p |}], if nl then WOk else WErr) /\
    forall is_root, render (NObj p nl ty possible inacc false fields) parent tns is_root = (b_null, false).
Proof. exact abstract_without_typename_lemma. Qed.
Print Assumptions abstract_without_typename.

(* T9: a `__typename` leaf (String{IsTypeName:true} = [NStr]) renders the string of the data or null at a
   nullable leaf, without error *)
Theorem typename_leaf_string :
  forall (deny : bytes -> bytes -> bool) p nl parent path tns t e,
    complete deny (NStr p nl) parent path tns = (Some t, e) ->
    e = [] /\ ((t = JNull /\ nl = true) \/ exists s, t = JStr s /\ get_path p parent = Some (JStr s)).
Proof. exact typename_leaf_string_lemma. Qed.
Print Assumptions typename_leaf_string.

(* T10: a number / boolean / object / array at the leaf is rejected with EK_STRING at the leaf's path and
   printed by neither pass *)
Theorem typename_leaf_nonstring :
  forall (deny : bytes -> bytes -> bool) p nl parent path tns x,
    get_path p parent = Some x -> x <> JNull -> is_jstr x = false ->
    complete deny (NStr p nl) parent path tns = (None, [{| ge_kind := EK_STRING; ge_path := push_names path p |}]) /\
    prewalk deny (NStr p nl) parent path tns = (parent, [{| ge_kind := EK_STRING; ge_path := push_names path p |}], WErr) /\
    forall is_root, render (NStr p nl) parent tns is_root = ([], true).
Proof. exact typename_leaf_nonstring_lemma. Qed.
Print Assumptions typename_leaf_nonstring.

(* non-vacuity: account: Account (entity interface: PossibleTypes {Account, Admin, User}) with
   id, ... on Admin { level }; data {"account":{"id":"1","level":3}} has no __typename:
   {"account":null} and one EK_TYPENAME error at account; with "__typename":"Admin" both fields render *)
Definition b_account : bytes := [97;99;99;111;117;110;116].
Definition b_Account : bytes := [65;99;99;111;117;110;116].
Definition b_Admin : bytes := [65;100;109;105;110].
Definition b_User : bytes := [85;115;101;114].
Definition b_id : bytes := [105;100].
Definition b_level : bytes := [108;101;118;101;108].
Definition ex_ei_plan : node :=
  NObj [] false [81] [] [] false
       [Fld b_account None None None
            (NObj [b_account] true b_Account [b_Account; b_Admin; b_User] [] false
                  [Fld b_id None None None (NStr [b_id] false);
                   Fld b_level (Some [b_Admin]) None None (NInt [b_level] false)])].
Definition ex_ei_data (tn : list (bytes * json)) : json :=
  JObj [(b_account, JObj (tn ++ [(b_id, JStr [49]); (b_level, JNum [51])]))].
Example c02_entity_interface_wf : root_wf ex_ei_plan = true.
Proof. vm_compute. reflexivity. Qed.
Example c02_entity_interface_abstract : is_abstract b_Account [b_Account; b_Admin; b_User] = true.
Proof. reflexivity. Qed.
Example c02_entity_interface_missing_typename :
  complete_root (fun _ _ => false) ex_ei_plan (ex_ei_data [])
    = (Some (JObj [(b_account, JNull)]), [{| ge_kind := EK_TYPENAME; ge_path := [PName b_account] |}]) /\
  r_data (resolve (fun _ _ => false) ex_ei_plan (ex_ei_data [])) = marshal (JObj [(b_account, JNull)]).
Proof. vm_compute. split; reflexivity. Qed.
Example c02_entity_interface_nonstring_typename :
  complete_root (fun _ _ => false) ex_ei_plan (ex_ei_data [(typename_key, JNum [55])])
    = (Some (JObj [(b_account, JNull)]), [{| ge_kind := EK_TYPENAME; ge_path := [PName b_account] |}]).
Proof. vm_compute. reflexivity. Qed.
Example c02_entity_interface_typed :
  complete_root (fun _ _ => false) ex_ei_plan (ex_ei_data [(typename_key, JStr b_Admin)])
    = (Some (JObj [(b_account, JObj [(b_id, JStr [49]); (b_level, JNum [51])])]), []).
Proof. vm_compute. reflexivity. Qed.

(* non-vacuity: users: [User]! with User (concrete, PossibleTypes {User}) { __typename id };
   data {"users":[{"__typename":"User","id":"1"},{"__typename":5,"id":"2"}]}:
   {"users":[{"__typename":"User","id":"1"},null]} and one EK_STRING error at users.1.__typename *)
Definition b_users : bytes := [117;115;101;114;115].
Definition ex_tn_plan : node :=
  NObj [] false [81] [] [] false
       [Fld b_users None None None
            (NArr [b_users] false
                  (NObj [] true b_User [b_User] [] false
                        [Fld typename_key None None None (NStr [typename_key] false);
                         Fld b_id None None None (NStr [b_id] false)]))].
Definition ex_tn_data : json :=
  JObj [(b_users, JArr [JObj [(typename_key, JStr b_User); (b_id, JStr [49])];
                        JObj [(typename_key, JNum [53]); (b_id, JStr [50])]])].
Example c02_typename_leaf_wf : root_wf ex_tn_plan = true.
Proof. vm_compute. reflexivity. Qed.
Example c02_typename_leaf_nonstring :
  complete_root (fun _ _ => false) ex_tn_plan ex_tn_data
    = (Some (JObj [(b_users, JArr [JObj [(typename_key, JStr b_User); (b_id, JStr [49])]; JNull])]),
       [{| ge_kind := EK_STRING; ge_path := [PName b_users; PIdx 1; PName typename_key] |}]) /\
  r_errors (resolve (fun _ _ => false) ex_tn_plan ex_tn_data)
    = [{| ge_kind := EK_STRING; ge_path := [PName b_users; PIdx 1; PName typename_key] |}].
Proof. vm_compute. split; reflexivity. Qed.
