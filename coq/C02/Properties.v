(* C02 property theorems: statements only; every proof is [exact lemma]. *)
From Gv Require Import lib.Bytes lib.Json C02.Model C02.Spec C02.ProofsRefine2 C02.ProofsTypesafe
     C02.ProofsWelltyped C02.ProofsNoErr C02.ProofsDenied.
Open Scope N_scope.

(* non-vacuity: a well-formed plan with an abstract object, a nested list and an enum *)
Example c02_wf_example :
  root_wf (NObj [] false [81] [] [] false
            [Fld [97] None None None (NArr [[97]] true (NArr [] true (NInt [] false)));
             Fld [98] None None None (NObj [[98]] true [73] [[65];[66]] [] false
                                        [Fld [99] (Some [[65]]) None None (NEnum [[99]] false [69] [[82]] [])])]) = true.
Proof. reflexivity. Qed.

(* non-vacuity for data paths of every length: a field read three keys deep next to one sharing its
   two-key prefix (n.m.a / n.m.b), a segment equal to a sibling's key (d.a next to a), a flattened
   object (empty path) whose own fields sit next to the enclosing object's, and list items read
   below a key (each item {"v":..} rendered as its "v") *)
Example c02_wf_paths_example :
  root_wf (NObj [] false [81] [] [] false
            [Fld [120] None None None (NStr [[110];[109];[97]] true);
             Fld [121] None None None (NObj [[110];[109];[98]] true [84] [] [] false
                                         [Fld [122] None None None (NInt [[122]] false)]);
             Fld [97] None None None (NInt [[97]] true);
             Fld [119] None None None (NBool [[100];[97]] false);
             Fld [102] None None None (NObj [] true [81] [] [] false
                                         [Fld [103] None None None (NFloat [[103];[104]] true)]);
             Fld [108] None None None (NArr [[108];[105]] true (NStr [[118]] false))]) = true.
Proof. vm_compute. reflexivity. Qed.

(* T1: the two-pass implementation model (mutating pre-walk, then print walk) never panics, never
   reports a print error, and yields exactly the errors and the marshalled tree of the one-pass
   completion semantics -- for every authorization decision function, plan and data. *)
Theorem resolve_refines_complete :
  forall (deny : bytes -> bytes -> bool) (root : node) (data : json),
    root_wf root = true ->
    let r := resolve deny root data in
    r_panic r = false /\ r_render_err r = false /\
    r_errors r = snd (complete_root deny root data) /\
    r_data r = data_bytes (fst (complete_root deny root data)) /\
    (r_data_null r = true <-> fst (complete_root deny root data) = None).
Proof. exact resolve_refines_complete_lemma. Qed.
Print Assumptions resolve_refines_complete.

(* T2: the completion result is type-safe and has exactly the selected keys *)
Theorem complete_typesafe :
  forall (deny : bytes -> bytes -> bool) (root : node) (data : json) (t : json),
    root_wf root = true ->
    fst (complete_root deny root data) = Some t ->
    conforms_b root data [] t = true.
Proof. exact complete_typesafe_lemma. Qed.
Print Assumptions complete_typesafe.

(* T3: on well-typed data (no authorization) the completion is the plain projection, no errors *)
Theorem welltyped_projection :
  forall (root : node) (data : json),
    root_wf root = true ->
    welltyped_b root data [] = true ->
    complete_root (fun _ _ => false) root data = (Some (project root data []), []).
Proof. exact welltyped_projection_lemma. Qed.
Print Assumptions welltyped_projection.

(* T4: without authorization and without any "__skipErrors" key in the data, the error list is
   empty exactly when the data is well-typed *)
Theorem errors_iff_not_welltyped :
  forall (root : node) (data : json),
    root_wf root = true ->
    no_skip_errors data = true ->
    (snd (complete_root (fun _ _ => false) root data) = [] <-> welltyped_b root data [] = true).
Proof. exact errors_iff_not_welltyped_lemma. Qed.
Print Assumptions errors_iff_not_welltyped.

(* T5: every denied field is null in the result and reported as EK_UNAUTHORIZED at its path *)
Theorem denied_is_null :
  forall (deny : bytes -> bytes -> bool) (root : node) (data : json) (t : json),
    root_wf root = true ->
    fst (complete_root deny root data) = Some t ->
    denied_null_b deny root data [] [] (snd (complete_root deny root data)) t = true.
Proof. exact denied_is_null_lemma. Qed.
Print Assumptions denied_is_null.

(* ---- non-vacuity: a non-null leaf is null inside a nullable object inside a list ----
   plan  { l: [T] } with T { x: Int! };  data {"l":[{"x":1},{"x":null}]}
   result {"l":[{"x":1},null]} with one non-null error at l.1.x *)
Definition ex_plan : node :=
  NObj [] false [81] [] [] false
       [Fld [108] None None None
            (NArr [[108]] true
                  (NObj [] true [84] [] [] false [Fld [120] None None None (NInt [[120]] false)]))].
Definition ex_data : json :=
  JObj [([108], JArr [JObj [([120], JNum [49])]; JObj [([120], JNull)]])].
Definition ex_out : json :=
  JObj [([108], JArr [JObj [([120], JNum [49])]; JNull])].
Definition ex_errs : list gerr :=
  [{| ge_kind := EK_NONNULL; ge_path := [PName [108]; PIdx 1; PName [120]] |}].

Example c02_bubble_wf : root_wf ex_plan = true.
Proof. vm_compute. reflexivity. Qed.
Example c02_bubble_complete :
  complete_root (fun _ _ => false) ex_plan ex_data = (Some ex_out, ex_errs).
Proof. vm_compute. reflexivity. Qed.
Example c02_bubble_resolve :
  let r := resolve (fun _ _ => false) ex_plan ex_data in
  r_errors r = ex_errs /\ r_data r = marshal ex_out /\ r_data_null r = false /\
  r_panic r = false /\ r_render_err r = false.
Proof. vm_compute. repeat split. Qed.
Example c02_bubble_conforms : conforms_b ex_plan ex_data [] ex_out = true.
Proof. vm_compute. reflexivity. Qed.
Example c02_bubble_not_welltyped : welltyped_b ex_plan ex_data [] = false.
Proof. vm_compute. reflexivity. Qed.

(* a denied, nullable, unresolvable object followed by a sibling: null + error, sibling printed *)
Definition ex_auth_plan : node :=
  NObj [] false [84] [] [] false
       [Fld [97] None None (Some {| au_parent_type := [84]; au_field := [97] |})
            (NObj [[97]] true [85] [] [] true []);
        Fld [98] None None None (NInt [[98]] true)].
Definition ex_auth_data : json := JObj [([97], JObj []); ([98], JNum [50])].
Definition ex_auth_out : json := JObj [([97], JNull); ([98], JNum [50])].
Definition ex_auth_errs : list gerr := [{| ge_kind := EK_UNAUTHORIZED; ge_path := [PName [97]] |}].
Example c02_denied_wf : root_wf ex_auth_plan = true.
Proof. vm_compute. reflexivity. Qed.
Example c02_denied_complete :
  complete_root (fun _ f => bytes_eqb f [97]) ex_auth_plan ex_auth_data = (Some ex_auth_out, ex_auth_errs).
Proof. vm_compute. reflexivity. Qed.
Example c02_denied_resolve :
  let r := resolve (fun _ f => bytes_eqb f [97]) ex_auth_plan ex_auth_data in
  r_errors r = ex_auth_errs /\ r_data r = marshal ex_auth_out /\ r_render_err r = false.
Proof. vm_compute. repeat split. Qed.
Example c02_denied_null :
  denied_null_b (fun _ f => bytes_eqb f [97]) ex_auth_plan ex_auth_data [] [] ex_auth_errs ex_auth_out = true.
Proof. vm_compute. reflexivity. Qed.

(* ---- multi-segment paths: the bubble stops at a nullable object read two keys deep ----
   plan  { u: U } with U read at data.user, U { id: String!, name: String! }
   data  {"data":{"user":{"id":"1","name":null}},"x":1}
   result {"u":null} with one non-null error at data.user.name (error paths are data paths) *)
Definition ex2_plan : node :=
  NObj [] false [81] [] [] false
       [Fld [117] None None None
            (NObj [[100;97;116;97]; [117;115;101;114]] true [85] [] [] false
                  [Fld [105;100] None None None (NStr [[105;100]] false);
                   Fld [110;97;109;101] None None None (NStr [[110;97;109;101]] false)])].
Definition ex2_data : json :=
  JObj [([100;97;116;97], JObj [([117;115;101;114], JObj [([105;100], JStr [49]); ([110;97;109;101], JNull)])]);
        ([120], JNum [49])].
Definition ex2_out : json := JObj [([117], JNull)].
Definition ex2_errs : list gerr :=
  [{| ge_kind := EK_NONNULL;
      ge_path := [PName [100;97;116;97]; PName [117;115;101;114]; PName [110;97;109;101]] |}].
Example c02_paths_wf : root_wf ex2_plan = true.
Proof. vm_compute. reflexivity. Qed.
Example c02_paths_complete :
  complete_root (fun _ _ => false) ex2_plan ex2_data = (Some ex2_out, ex2_errs).
Proof. vm_compute. reflexivity. Qed.
Example c02_paths_resolve :
  let r := resolve (fun _ _ => false) ex2_plan ex2_data in
  r_errors r = ex2_errs /\ r_data r = marshal ex2_out /\ r_data_null r = false /\
  r_panic r = false /\ r_render_err r = false.
Proof. vm_compute. repeat split. Qed.

(* ---- why plan_wf asks for prefix-incomparable sibling paths ----
   plan  { s: String! read at a.b ; o: O read at a (nullable), O { c: Int! } }
   data  {"a":{"b":"x","c":null}}
   The pre-walk accepts s, then nulls "a" for o.  The print walk reads a.b from the nulled data: the
   model reports a print-walk error (the real renderer writes "s":null for a String! and stops),
   while the completion semantics gives {"s":"x","o":null}.  Every other clause of plan_wf holds. *)
Definition ex_overlap_plan : node :=
  NObj [] false [81] [] [] false
       [Fld [115] None None None (NStr [[97];[98]] false);
        Fld [111] None None None (NObj [[97]] true [79] [] [] false
                                    [Fld [99] None None None (NInt [[99]] false)])].
Definition ex_overlap_data : json := JObj [([97], JObj [([98], JStr [120]); ([99], JNull)])].
Example c02_overlap_not_wf : root_wf ex_overlap_plan = false.
Proof. vm_compute. reflexivity. Qed.
Example c02_overlap_breaks_two_pass :
  r_render_err (resolve (fun _ _ => false) ex_overlap_plan ex_overlap_data) = true /\
  fst (complete_root (fun _ _ => false) ex_overlap_plan ex_overlap_data)
    = Some (JObj [([115], JStr [120]); ([111], JNull)]).
Proof. vm_compute. split; reflexivity. Qed.
