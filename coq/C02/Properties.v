(* C02 property theorems: statements only; every proof is [exact lemma]. *)
From Gv Require Import lib.Bytes lib.Json C02.Model C02.Spec C02.ProofsRefine2 C02.ProofsTypesafe
     C02.ProofsWelltyped C02.ProofsNoErr C02.ProofsDenied.
Open Scope N_scope.

(* non-vacuity: a well-formed plan with an abstract object, a nested list and an enum *)
Example c02_wf_example :
  root_wf (NObj [] false [81] [] [] false
            [Fld [97] None None None (NArr [[97]] true (NArr [] true (NInt [] false)));
             Fld [98] None None None (NObj [[98]] true [73] [[65];[66]] [] false
                                        [Fld [99] (Some [[65]]) None None (NEnum [[99]] false [69] [[82]] [])])]) = true.
Proof. reflexivity. Qed.

(* T1: the two-pass implementation model (mutating pre-walk, then print walk) never panics, never
   reports a print error, and yields exactly the errors and the marshalled tree of the one-pass
   completion semantics -- for every authorization decision function, plan and data. *)
Theorem resolve_refines_complete :
  forall (deny : bytes -> bytes -> bool) (root : node) (data : json),
    root_wf root = true ->
    let r := resolve deny root data in
    r_panic r = false /\ r_render_err r = false /\
    r_errors r = snd (complete_root deny root data) /\
    r_data r = data_bytes (fst (complete_root deny root data)) /\
    (r_data_null r = true <-> fst (complete_root deny root data) = None).
Proof. exact resolve_refines_complete_lemma. Qed.
Print Assumptions resolve_refines_complete.

(* T2: the completion result is type-safe and has exactly the selected keys *)
Theorem complete_typesafe :
  forall (deny : bytes -> bytes -> bool) (root : node) (data : json) (t : json),
    root_wf root = true ->
    fst (complete_root deny root data) = Some t ->
    conforms_b root data [] t = true.
Proof. exact complete_typesafe_lemma. Qed.
Print Assumptions complete_typesafe.

(* T3: on well-typed data (no authorization) the completion is the plain projection, no errors *)
Theorem welltyped_projection :
  forall (root : node) (data : json),
    root_wf root = true ->
    welltyped_b root data [] = true ->
    complete_root (fun _ _ => false) root data = (Some (project root data []), []).
Proof. exact welltyped_projection_lemma. Qed.
Print Assumptions welltyped_projection.

(* T4: without authorization and without any "__skipErrors" key in the data, the error list is
   empty exactly when the data is well-typed *)
Theorem errors_iff_not_welltyped :
  forall (root : node) (data : json),
    root_wf root = true ->
    no_skip_errors data = true ->
    (snd (complete_root (fun _ _ => false) root data) = [] <-> welltyped_b root data [] = true).
Proof. exact errors_iff_not_welltyped_lemma. Qed.
Print Assumptions errors_iff_not_welltyped.

(* T5: every denied field is null in the result and reported as EK_UNAUTHORIZED at its path *)
Theorem denied_is_null :
  forall (deny : bytes -> bytes -> bool) (root : node) (data : json) (t : json),
    root_wf root = true ->
    fst (complete_root deny root data) = Some t ->
    denied_null_b deny root data [] [] (snd (complete_root deny root data)) t = true.
Proof. exact denied_is_null_lemma. Qed.
Print Assumptions denied_is_null.

(* ---- non-vacuity: a non-null leaf is null inside a nullable object inside a list ----
   plan  { l: [T] } with T { x: Int! };  data {"l":[{"x":1},{"x":null}]}
   result {"l":[{"x":1},null]} with one non-null error at l.1.x *)
Definition ex_plan : node :=
  NObj [] false [81] [] [] false
       [Fld [108] None None None
            (NArr [[108]] true
                  (NObj [] true [84] [] [] false [Fld [120] None None None (NInt [[120]] false)]))].
Definition ex_data : json :=
  JObj [([108], JArr [JObj [([120], JNum [49])]; JObj [([120], JNull)]])].
Definition ex_out : json :=
  JObj [([108], JArr [JObj [([120], JNum [49])]; JNull])].
Definition ex_errs : list gerr :=
  [{| ge_kind := EK_NONNULL; ge_path := [PName [108]; PIdx 1; PName [120]] |}].

Example c02_bubble_wf : root_wf ex_plan = true.
Proof. vm_compute. reflexivity. Qed.
Example c02_bubble_complete :
  complete_root (fun _ _ => false) ex_plan ex_data = (Some ex_out, ex_errs).
Proof. vm_compute. reflexivity. Qed.
Example c02_bubble_resolve :
  let r := resolve (fun _ _ => false) ex_plan ex_data in
  r_errors r = ex_errs /\ r_data r = marshal ex_out /\ r_data_null r = false /\
  r_panic r = false /\ r_render_err r = false.
Proof. vm_compute. repeat split. Qed.
Example c02_bubble_conforms : conforms_b ex_plan ex_data [] ex_out = true.
Proof. vm_compute. reflexivity. Qed.
Example c02_bubble_not_welltyped : welltyped_b ex_plan ex_data [] = false.
Proof. vm_compute. reflexivity. Qed.

(* a denied, nullable, unresolvable object followed by a sibling: null + error, sibling printed *)
Definition ex_auth_plan : node :=
  NObj [] false [84] [] [] false
       [Fld [97] None None (Some {| au_parent_type := [84]; au_field := [97] |})
            (NObj [[97]] true [85] [] [] true []);
        Fld [98] None None None (NInt [[98]] true)].
Definition ex_auth_data : json := JObj [([97], JObj []); ([98], JNum [50])].
Definition ex_auth_out : json := JObj [([97], JNull); ([98], JNum [50])].
Definition ex_auth_errs : list gerr := [{| ge_kind := EK_UNAUTHORIZED; ge_path := [PName [97]] |}].
Example c02_denied_wf : root_wf ex_auth_plan = true.
Proof. vm_compute. reflexivity. Qed.
Example c02_denied_complete :
  complete_root (fun _ f => bytes_eqb f [97]) ex_auth_plan ex_auth_data = (Some ex_auth_out, ex_auth_errs).
Proof. vm_compute. reflexivity. Qed.
Example c02_denied_resolve :
  let r := resolve (fun _ f => bytes_eqb f [97]) ex_auth_plan ex_auth_data in
  r_errors r = ex_auth_errs /\ r_data r = marshal ex_auth_out /\ r_render_err r = false.
Proof. vm_compute. repeat split. Qed.
Example c02_denied_null :
  denied_null_b (fun _ f => bytes_eqb f [97]) ex_auth_plan ex_auth_data [] [] ex_auth_errs ex_auth_out = true.
Proof. vm_compute. reflexivity. Qed.
