(* C02 specification.
   [complete] is the one-pass, mutation-free value-completion semantics of a response plan over
   subgraph data (GraphQL "CompleteValue" with null bubbling): it returns the JSON tree of the
   position (None = the error propagates to the parent) and the errors as (kind, path).
   [conforms_b] is an independent type-safety / exact-keys checker for a rendered tree.
   [welltyped_b] says the data needs no replacement at all; [project] is the plain projection.
   The theorems (Properties.v) say that the two-pass implementation model ([Model.resolve]:
   pre-walk that mutates the data, then print walk) produces exactly [marshal (complete ...)]. *)
From Gv Require Import lib.Bytes lib.Json C02.Model.
Open Scope N_scope.

Section Spec.
  Variable deny : bytes -> bytes -> bool.

  Definition scalar_complete (path : rpath) (p : list bytes) (nullable : bool) (kind : N)
             (accept : json -> bool) (parent : json) : option json * list gerr :=
    match get_path p parent with
    | None | Some JNull => if nullable then (Some JNull, []) else (None, nonnull_error path p parent)
    | Some x => if accept x then (Some x, [])
                else (None, [{| ge_kind := kind; ge_path := push_names path p |}])
    end.

  Definition tn_bad (tyname : bytes) (possible : list bytes) (tn : option bytes) : bool :=
    match tn with
    | None => is_abstract tyname possible
    | Some t => match possible with [] => false | _ => negb (mem_bytes t possible) end
    end.

  Fixpoint complete (n : node) (parent : json) (path : rpath) (tns : list (option bytes))
    : option json * list gerr :=
    match n with
    | NNull => (Some JNull, [])
    | NStatic v => (Some (JStr v), [])
    | NEmptyObj => (Some (JObj []), [])
    | NEmptyArr => (Some (JArr []), [])
    | NStr p nl => scalar_complete path p nl EK_STRING is_jstr parent
    | NBool p nl => scalar_complete path p nl EK_BOOL is_jbool parent
    | NInt p nl => scalar_complete path p nl EK_INT is_jnum parent
    | NFloat p nl => scalar_complete path p nl EK_FLOAT is_jnum parent
    | NBigInt p nl => scalar_complete path p nl 0 (fun _ => true) parent
    | NScalar p nl => scalar_complete path p nl 0 (fun _ => true) parent
    | NEnum p nl _ values inacc =>
      match get_path p parent with
      | None | Some JNull => if nl then (Some JNull, []) else (None, nonnull_error path p parent)
      | Some (JStr s) =>
        if negb (mem_bytes s values) then
          (if nl then Some JNull else None, [{| ge_kind := EK_ENUM; ge_path := push_names path p |}])
        else if mem_bytes s inacc then
          (if nl then Some JNull else None,
           match rev path with
           | PIdx _ :: _ :: _ => [{| ge_kind := EK_ENUM_INACCESSIBLE; ge_path := path |}]
           | _ => match p with
                  | [] => []
                  | _ => [{| ge_kind := EK_ENUM_INACCESSIBLE; ge_path := push_names path p |}]
                  end
           end)
        else (Some (JStr s), [])
      | Some _ => (None, [{| ge_kind := EK_ENUM; ge_path := push_names path p |}])
      end
    | NArr p nl item =>
      match get_path p parent with
      | None | Some JNull => if nl then (Some JNull, []) else (None, nonnull_error path p parent)
      | Some (JArr items) =>
        let path' := push_names path p in
        let fix loop (items : list json) (i : N) : option (list json) * list gerr :=
          match items with
          | [] => (Some [], [])
          | it :: rest =>
            match complete item it (path' ++ [PIdx i]) tns with
            | (Some t, e) =>
              let '(r, e2) := loop rest (i + 1) in
              (match r with Some l => Some (t :: l) | None => None end, e ++ e2)
            | (None, e) =>
              if absorbs_item_error item then
                let '(r, e2) := loop rest (i + 1) in
                (match r with Some l => Some (JNull :: l) | None => None end, e ++ e2)
              else (None, e)
            end
          end in
        match loop items 0 with
        | (Some l, e) => (Some (JArr l), e)
        | (None, e) => (if nl && (match p with [] => false | _ => true end) then Some JNull else None, e)
        end
      | Some _ => (None, [{| ge_kind := EK_ARRAY; ge_path := push_names path p |}])
      end
    | NObj p nl tyname possible inacc unresolvable fields =>
      if unresolvable then (None, [{| ge_kind := EK_UNRESOLVABLE; ge_path := push_names path p |}]) else
      match get_path p parent with
      | None | Some JNull => if nl then (Some JNull, []) else (None, nonnull_error path p parent)
      | Some (JObj m) =>
        let value := JObj m in
        let path' := push_names path p in
        let tn := typename_of value in
        if tn_bad tyname possible tn then
          (if nl then Some JNull else None, [{| ge_kind := EK_TYPENAME; ge_path := path' |}])
        else
          let tns' := tn :: tns in
          let absorb := nl && (match p with [] => false | _ => true end) in
          let fix floop (fs : list field) : option (list (bytes * json)) * list gerr :=
            match fs with
            | [] => (Some [], [])
            | Fld name on parent_on auth child :: rest =>
              if skip_field on parent_on tns' then floop rest
              else
                let denied :=
                  match auth with
                  | Some a => deny (match tn with Some t => t | None => au_parent_type a end) (au_field a)
                  | None => false
                  end in
                if denied then
                  let e := [{| ge_kind := EK_UNAUTHORIZED; ge_path := push_names path' (node_path child) |}] in
                  if node_nullable child then
                    let '(r, e2) := floop rest in
                    (match r with Some l => Some ((name, JNull) :: l) | None => None end, e ++ e2)
                  else (None, e)
                else
                  match complete child value path' tns' with
                  | (Some t, e) =>
                    let '(r, e2) := floop rest in
                    (match r with Some l => Some ((name, t) :: l) | None => None end, e ++ e2)
                  | (None, e) => (None, e)
                  end
            end in
          match floop fields with
          | (Some l, e) => (Some (JObj l), e)
          | (None, e) => (if absorb then Some JNull else None, e)
          end
      | Some _ => (None, [{| ge_kind := EK_NOTOBJECT; ge_path := push_names path p |}])
      end
    end.

  (* what the client must receive for (root plan, data): the data member and the errors *)
  Definition complete_root (root : node) (data : json) : option json * list gerr :=
    complete root data [] [].

  (* ---- independent type-safety / exact-keys checker for a rendered value ----
     [src] is the subgraph data at the enclosing object (needed for the runtime type only). *)
  Definition kind_ok (n : node) (out : json) : bool :=
    match n, out with
    | NStr _ _, JStr _ => true
    | NBool _ _, JBool _ => true
    | NInt _ _, JNum _ => true
    | NFloat _ _, JNum _ => true
    | NBigInt _ _, JNull => false
    | NBigInt _ _, _ => true
    | NScalar _ _, JNull => false
    | NScalar _ _, _ => true
    | _, _ => false
    end.

  Fixpoint conforms_b (n : node) (src : json) (tns : list (option bytes)) (out : json) {struct n} : bool :=
    match n with
    | NNull => match out with JNull => true | _ => false end
    | NStatic v => match out with JStr s => bytes_eqb s v | _ => false end
    | NEmptyObj => match out with JObj [] => true | _ => false end
    | NEmptyArr => match out with JArr [] => true | _ => false end
    | NStr _ nl | NBool _ nl | NInt _ nl | NFloat _ nl | NBigInt _ nl | NScalar _ nl =>
      match out with JNull => nl | _ => kind_ok n out end
    | NEnum _ nl _ values inacc =>
      match out with
      | JNull => nl
      | JStr s => mem_bytes s values && negb (mem_bytes s inacc)
      | _ => false
      end
    | NArr p nl item =>
      match out with
      | JNull => nl
      | JArr outs =>
        match get_path p src with
        | Some (JArr srcs) =>
          (fix go (srcs outs : list json) : bool :=
             match srcs, outs with
             | [], [] => true
             | s :: srcs', o :: outs' =>
               ((match o with JNull => absorbs_item_error item | _ => false end) || conforms_b item s tns o)
               && go srcs' outs'
             | _, _ => false
             end) srcs outs
        | _ => false
        end
      | _ => false
      end
    | NObj p nl tyname possible inacc unresolvable fields =>
      match out with
      | JNull => nl
      | JObj members =>
        match get_path p src with
        | Some (JObj m) =>
          let value := JObj m in
          let tns' := typename_of value :: tns in
          negb (tn_bad tyname possible (typename_of value)) &&
          (fix go (fs : list field) (ms : list (bytes * json)) : bool :=
             match fs with
             | [] => match ms with [] => true | _ => false end
             | Fld name on parent_on auth child :: rest =>
               if skip_field on parent_on tns' then go rest ms
               else match ms with
                    | (k, o) :: ms' =>
                      bytes_eqb k name &&
                      ((match o with JNull => node_nullable child | _ => false end) || conforms_b child value tns' o)
                      && go rest ms'
                    | [] => false
                    end
             end) fields members
        | _ => false
        end
      | _ => false
      end
    end.

  (* ---- well-typed data: completion replaces nothing ---- *)
  Definition no_errors (root : node) (data : json) : bool :=
    match snd (complete_root root data) with [] => true | _ => false end.
End Spec.

(* ---- plan well-formedness (what the theorems assume about a plan) ----
   Node paths are arbitrary key sequences (length 0, 1, 2, ...): a field value may read its data
   several levels below the enclosing object (["data";"user"]) or be the enclosing object itself
   (empty path: a flattened / virtual object).  The pre-walk writes nulls into the data in place, so
   two fields of one object must not read through one another: the data paths read below one object
   value ([rpaths], looking through flattened objects) are pairwise prefix-incomparable -- which
   includes "distinct", allows shared proper prefixes (["n";"a"] next to ["n";"b"]) and a segment
   equal to a sibling's key (["b";"a"] next to ["a"]). *)
Fixpoint no_special (s : bytes) : bool :=
  match s with
  | [] => true
  | c :: r => negb (c =? 34) && negb (c =? 92) && (32 <=? c) && no_special r
  end.
Fixpoint is_prefix (a b : list bytes) : bool :=
  match a, b with
  | [], _ => true
  | x :: a', y :: b' => bytes_eqb x y && is_prefix a' b'
  | _ :: _, [] => false
  end.
Definition comparable (a b : list bytes) : bool := is_prefix a b || is_prefix b a.
Fixpoint incomparable_all (ps : list (list bytes)) : bool :=
  match ps with
  | [] => true
  | p :: r => forallb (fun q => negb (comparable p q)) r && incomparable_all r
  end.
Definition has_path_kind (n : node) : bool :=
  match n with NNull | NStatic _ | NEmptyObj | NEmptyArr => false | _ => true end.
Definition typename_key : bytes := [95;95;116;121;112;101;110;97;109;101].

(* the data paths, relative to the value of the enclosing object, that a field value reads (and
   below which the pre-walk may write); an object with an empty path is that same value *)
Fixpoint rpaths (n : node) : list (list bytes) :=
  match n with
  | NNull | NStatic _ | NEmptyObj | NEmptyArr => []
  | NObj [] _ _ _ _ _ fields =>
    (fix go (fs : list field) : list (list bytes) :=
       match fs with
       | [] => []
       | Fld _ _ _ _ c :: rest => rpaths c ++ go rest
       end) fields
  | _ => [node_path n]
  end.
Definition head_not_typename (p : list bytes) : bool :=
  match p with k :: _ => negb (bytes_eqb k typename_key) | [] => true end.

Fixpoint plan_wf (depth : nat) (n : node) : bool :=
  match n with
  | NStatic v => no_special v
  | NArr _ _ item => plan_wf depth item
  | NObj _ _ _ _ _ _ fields =>
    incomparable_all ((fix go (fs : list field) : list (list bytes) :=
                         match fs with
                         | [] => []
                         | Fld _ _ _ _ c :: rest => rpaths c ++ go rest
                         end) fields) &&
    (fix go (fs : list field) : bool :=
       match fs with
       | [] => true
       | Fld name on parent_on auth child :: rest =>
         no_special name &&
         (match parent_on with
          | Some conds => forallb (fun c => Nat.leb (fst c) depth) conds
          | None => true
          end) &&
         (* an authorization rule sits on a field that has a key of its own in the data, other than
            "__typename" (a denied field is nulled in place under that key) *)
         (match auth with
          | Some _ => has_path_kind child && (match node_path child with [] => false | _ => true end)
                      && head_not_typename (node_path child)
          | None => true
          end) &&
         (* an object or list is never read through the key "__typename" of the enclosing object *)
         (match child with
          | NObj p _ _ _ _ _ _ | NArr p _ _ => head_not_typename p
          | _ => true
          end) &&
         plan_wf (S depth) child && go rest
       end) fields
  | _ => true
  end.
Definition root_wf (root : node) : bool :=
  match root with
  | NObj [] false _ _ _ false _ => plan_wf 0 root
  | _ => false
  end.

(* [plan_wf] with one of its two path clauses lifted: [lift_incomp] drops "sibling data paths are
   prefix-incomparable", [lift_authkey] drops "an authorization rule sits on a field with a key of its
   own".  Not used by any theorem: the driver uses it to say which clause a plan outside [plan_wf]
   violates, so that what the implementation does there is reported under its own finding key. *)
Fixpoint plan_wf_upto (lift_incomp lift_authkey : bool) (depth : nat) (n : node) : bool :=
  match n with
  | NStatic v => no_special v
  | NArr _ _ item => plan_wf_upto lift_incomp lift_authkey depth item
  | NObj _ _ _ _ _ _ fields =>
    (lift_incomp ||
     incomparable_all ((fix go (fs : list field) : list (list bytes) :=
                          match fs with
                          | [] => []
                          | Fld _ _ _ _ c :: rest => rpaths c ++ go rest
                          end) fields)) &&
    (fix go (fs : list field) : bool :=
       match fs with
       | [] => true
       | Fld name on parent_on auth child :: rest =>
         no_special name &&
         (match parent_on with
          | Some conds => forallb (fun c => Nat.leb (fst c) depth) conds
          | None => true
          end) &&
         (match auth with
          | Some _ => lift_authkey ||
                      (has_path_kind child && (match node_path child with [] => false | _ => true end)
                       && head_not_typename (node_path child))
          | None => true
          end) &&
         (match child with
          | NObj p _ _ _ _ _ _ | NArr p _ _ => head_not_typename p
          | _ => true
          end) &&
         plan_wf_upto lift_incomp lift_authkey (S depth) child && go rest
       end) fields
  | _ => true
  end.
Definition root_wf_upto (lift_incomp lift_authkey : bool) (root : node) : bool :=
  match root with
  | NObj [] false _ _ _ false _ => plan_wf_upto lift_incomp lift_authkey 0 root
  | _ => false
  end.

(* marshal of the data member: the root object is printed by printData with its own braces *)
Definition data_bytes (r : option json) : bytes :=
  match r with
  | Some t => marshal t
  | None => b_null
  end.

(* ==== appended: well-typed data, plain projection, __skipErrors-freeness, denied-is-null ==== *)

(* [welltyped_b n parent tns]: the data reached through the selection needs no replacement: every
   reached, non-skipped position is present (or null/missing and nullable) and of the right JSON
   kind; enum values are valid and accessible; objects have an acceptable runtime type and are not
   unresolvable; list items are well-typed.  Independent of [complete]. *)
Definition wt_scalar (p : list bytes) (nl : bool) (accept : json -> bool) (parent : json) : bool :=
  match get_path p parent with
  | None | Some JNull => nl
  | Some x => accept x
  end.

Fixpoint welltyped_b (n : node) (parent : json) (tns : list (option bytes)) {struct n} : bool :=
  match n with
  | NNull | NStatic _ | NEmptyObj | NEmptyArr => true
  | NStr p nl => wt_scalar p nl is_jstr parent
  | NBool p nl => wt_scalar p nl is_jbool parent
  | NInt p nl => wt_scalar p nl is_jnum parent
  | NFloat p nl => wt_scalar p nl is_jnum parent
  | NBigInt p nl => wt_scalar p nl (fun _ => true) parent
  | NScalar p nl => wt_scalar p nl (fun _ => true) parent
  | NEnum p nl _ values inacc =>
    match get_path p parent with
    | None | Some JNull => nl
    | Some (JStr s) => mem_bytes s values && negb (mem_bytes s inacc)
    | Some _ => false
    end
  | NArr p nl item =>
    match get_path p parent with
    | None | Some JNull => nl
    | Some (JArr items) =>
      (fix go (l : list json) : bool :=
         match l with
         | [] => true
         | it :: r => welltyped_b item it tns && go r
         end) items
    | Some _ => false
    end
  | NObj p nl tyname possible inacc unresolvable fields =>
    negb unresolvable &&
    match get_path p parent with
    | None | Some JNull => nl
    | Some (JObj m) =>
      let value := JObj m in
      let tn := typename_of value in
      negb (tn_bad tyname possible tn) &&
      (fix go (fs : list field) : bool :=
         match fs with
         | [] => true
         | Fld name on parent_on auth child :: rest =>
           (if skip_field on parent_on (tn :: tns) then true else welltyped_b child value (tn :: tns)) && go rest
         end) fields
    | Some _ => false
    end
  end.

(* the plain projection of the data through the selection *)
Definition proj_scalar (p : list bytes) (parent : json) : json :=
  match get_path p parent with Some x => x | None => JNull end.

Fixpoint project (n : node) (parent : json) (tns : list (option bytes)) {struct n} : json :=
  match n with
  | NNull => JNull
  | NStatic v => JStr v
  | NEmptyObj => JObj []
  | NEmptyArr => JArr []
  | NStr p _ | NBool p _ | NInt p _ | NFloat p _ | NBigInt p _ | NScalar p _ | NEnum p _ _ _ _ =>
    proj_scalar p parent
  | NArr p _ item =>
    match get_path p parent with
    | Some (JArr items) =>
      JArr ((fix go (l : list json) : list json :=
               match l with
               | [] => []
               | it :: r => project item it tns :: go r
               end) items)
    | _ => JNull
    end
  | NObj p _ _ _ _ _ fields =>
    match get_path p parent with
    | Some (JObj m) =>
      let value := JObj m in
      let tns' := typename_of value :: tns in
      JObj ((fix go (fs : list field) : list (bytes * json) :=
               match fs with
               | [] => []
               | Fld name on parent_on auth child :: rest =>
                 if skip_field on parent_on tns' then go rest
                 else (name, project child value tns') :: go rest
               end) fields)
    | _ => JNull
    end
  end.

(* the key "__skipErrors" occurs nowhere in the data *)
Definition skip_errors_key : bytes := [95;95;115;107;105;112;69;114;114;111;114;115].
Fixpoint no_skip_errors (j : json) : bool :=
  match j with
  | JArr items =>
    (fix go (l : list json) : bool :=
       match l with [] => true | x :: r => no_skip_errors x && go r end) items
  | JObj m =>
    (fix go (l : list (bytes * json)) : bool :=
       match l with
       | [] => true
       | (k, v) :: r => negb (bytes_eqb k skip_errors_key) && no_skip_errors v && go r
       end) m
  | _ => true
  end.

(* ---- denied fields are null and reported ---- *)
Definition pelem_eqb (a b : pelem) : bool :=
  match a, b with
  | PName x, PName y => bytes_eqb x y
  | PIdx i, PIdx j => i =? j
  | _, _ => false
  end.
Fixpoint rpath_eqb (a b : rpath) : bool :=
  match a, b with
  | [], [] => true
  | x :: a', y :: b' => pelem_eqb x y && rpath_eqb a' b'
  | _, _ => false
  end.
Definition has_error (kind : N) (path : rpath) (errs : list gerr) : bool :=
  existsb (fun e => (ge_kind e =? kind) && rpath_eqb (ge_path e) path) errs.

Section DeniedNull.
  Variable deny : bytes -> bytes -> bool.

  (* [out] is the rendered tree of node [n] over [src] at response path [path]; at every object
     position, a non-skipped field whose authorization coordinate (runtime type, else the declared
     parent type; field) is denied is null in [out] and [errs] holds an EK_UNAUTHORIZED error at
     that field's path. *)
  Fixpoint denied_null_b (n : node) (src : json) (path : rpath) (tns : list (option bytes))
           (errs : list gerr) (out : json) {struct n} : bool :=
    match n with
    | NArr p nl item =>
      match out, get_path p src with
      | JArr outs, Some (JArr srcs) =>
        (fix go (srcs outs : list json) (i : N) : bool :=
           match srcs, outs with
           | s :: srcs', o :: outs' =>
             denied_null_b item s (push_names path p ++ [PIdx i]) tns errs o && go srcs' outs' (i + 1)
           | _, _ => true
           end) srcs outs 0
      | _, _ => true
      end
    | NObj p nl tyname possible inacc unresolvable fields =>
      match out, get_path p src with
      | JObj members, Some (JObj m) =>
        let value := JObj m in
        let tn := typename_of value in
        let tns' := tn :: tns in
        let path' := push_names path p in
        (fix go (fs : list field) (ms : list (bytes * json)) : bool :=
           match fs with
           | [] => true
           | Fld name on parent_on auth child :: rest =>
             if skip_field on parent_on tns' then go rest ms
             else match ms with
                  | (k, o) :: ms' =>
                    (if (match auth with
                         | Some a => deny (match tn with Some t => t | None => au_parent_type a end) (au_field a)
                         | None => false
                         end)
                     then (match o with JNull => true | _ => false end) &&
                          has_error EK_UNAUTHORIZED (push_names path' (node_path child)) errs
                     else denied_null_b child value path' tns' errs o)
                    && go rest ms'
                  | [] => true
                  end
           end) fields members
      | _, _ => true
      end
    | _ => true
    end.
End DeniedNull.
