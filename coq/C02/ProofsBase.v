(* C02 proofs, part 1: nested induction on plans, key/value lemmas on JSON objects, and the local
   loops of Model.v / Spec.v restated as top-level functions (equal to the originals by
   [reflexivity]). *)
From Coq Require Import Lia ZifyN ZifyBool.
From Gv Require Import lib.Bytes lib.Json C02.Model C02.Spec.
Open Scope N_scope.

Definition fval (f : field) : node := match f with Fld _ _ _ _ c => c end.

Section NodeInd.
  Variable P : node -> Prop.
  Hypothesis Hobj : forall p nl ty poss inacc unres fields,
      Forall (fun f => P (fval f)) fields -> P (NObj p nl ty poss inacc unres fields).
  Hypothesis Harr : forall p nl item, P item -> P (NArr p nl item).
  Hypothesis Hstr : forall p nl, P (NStr p nl).
  Hypothesis Hbool : forall p nl, P (NBool p nl).
  Hypothesis Hint : forall p nl, P (NInt p nl).
  Hypothesis Hfloat : forall p nl, P (NFloat p nl).
  Hypothesis Hbigint : forall p nl, P (NBigInt p nl).
  Hypothesis Hscalar : forall p nl, P (NScalar p nl).
  Hypothesis Henum : forall p nl ty vs inacc, P (NEnum p nl ty vs inacc).
  Hypothesis Hnull : P NNull.
  Hypothesis Hstatic : forall v, P (NStatic v).
  Hypothesis Hemptyobj : P NEmptyObj.
  Hypothesis Hemptyarr : P NEmptyArr.
  Fixpoint node_ind' (n : node) : P n :=
    match n with
    | NObj p nl ty poss inacc unres fields =>
      Hobj p nl ty poss inacc unres fields
           ((fix go (fs : list field) : Forall (fun f => P (fval f)) fs :=
               match fs with
               | [] => Forall_nil _
               | f :: r => Forall_cons f (match f return P (fval f) with Fld _ _ _ _ c => node_ind' c end) (go r)
               end) fields)
    | NArr p nl item => Harr p nl item (node_ind' item)
    | NStr p nl => Hstr p nl
    | NBool p nl => Hbool p nl
    | NInt p nl => Hint p nl
    | NFloat p nl => Hfloat p nl
    | NBigInt p nl => Hbigint p nl
    | NScalar p nl => Hscalar p nl
    | NEnum p nl ty vs inacc => Henum p nl ty vs inacc
    | NNull => Hnull
    | NStatic v => Hstatic v
    | NEmptyObj => Hemptyobj
    | NEmptyArr => Hemptyarr
    end.
End NodeInd.

(* ---- byte strings ---- *)
Lemma bytes_eqb_eq : forall a b, bytes_eqb a b = true <-> a = b.
Proof.
  induction a as [|x a IH]; destruct b as [|y b]; simpl; try (split; congruence).
  rewrite andb_true_iff, N.eqb_eq, IH. split; [intros [-> ->]; reflexivity | intros H; inversion H; auto].
Qed.
Lemma bytes_eqb_refl : forall a, bytes_eqb a a = true.
Proof. intros a. apply bytes_eqb_eq. reflexivity. Qed.
Lemma bytes_eqb_neq : forall a b, bytes_eqb a b = false <-> a <> b.
Proof.
  intros a b. destruct (bytes_eqb a b) eqn:E.
  - apply bytes_eqb_eq in E. split; [discriminate | congruence].
  - split; auto. intros _ H. apply bytes_eqb_eq in H. congruence.
Qed.
Lemma bytes_eq_dec : forall a b : bytes, {a = b} + {a <> b}.
Proof.
  intros a b. destruct (bytes_eqb a b) eqn:E.
  - left. apply bytes_eqb_eq. exact E.
  - right. apply bytes_eqb_neq. exact E.
Qed.

(* ---- objects ---- *)
Lemma obj_get_set_same : forall k v m, obj_get k (obj_set k v m) = Some v.
Proof.
  intros k v m. induction m as [|[k' v'] r IH]; simpl.
  - rewrite bytes_eqb_refl. reflexivity.
  - destruct (bytes_eqb k k') eqn:E; simpl; rewrite E; auto.
Qed.
Lemma obj_get_set_other : forall q k v m, q <> k -> obj_get q (obj_set k v m) = obj_get q m.
Proof.
  intros q k v m Hne. induction m as [|[k' v'] r IH]; simpl.
  - apply bytes_eqb_neq in Hne. rewrite Hne. reflexivity.
  - destruct (bytes_eqb k k') eqn:E; simpl.
    + apply bytes_eqb_eq in E. subst k'. apply bytes_eqb_neq in Hne. rewrite Hne. reflexivity.
    + rewrite IH. reflexivity.
Qed.
Lemma obj_get_set_some : forall q k v m, obj_get k m <> None ->
  (obj_get q (obj_set k v m) = None <-> obj_get q m = None).
Proof.
  intros q k v m Hk. destruct (bytes_eq_dec q k) as [->|Hne].
  - rewrite obj_get_set_same. split; [discriminate | intros H; congruence].
  - rewrite obj_get_set_other by exact Hne. tauto.
Qed.

Lemma get_path_nil : forall j, get_path [] j = Some j.
Proof. reflexivity. Qed.
Lemma get_path_one : forall q m, get_path [q] (JObj m) = obj_get q m.
Proof. intros q m. simpl. destruct (obj_get q m); reflexivity. Qed.
Lemma get_path_one_some : forall q j v, get_path [q] j = Some v -> exists m, j = JObj m /\ obj_get q m = Some v.
Proof.
  intros q j v H. destruct j; simpl in H; try discriminate.
  exists members. split; auto. destruct (obj_get q members); congruence.
Qed.
Lemma set_path_one : forall k v m, set_path [k] v (JObj m) = JObj (obj_set k v m).
Proof. reflexivity. Qed.

(* a mutation of an object at one present key *)
Definition mutk (k : bytes) (a b : json) : Prop :=
  exists m x, a = JObj m /\ obj_get k m <> None /\ b = JObj (obj_set k x m).

Lemma mutk_set : forall k x a v, get_path [k] a = Some v -> mutk k a (set_path [k] x a).
Proof.
  intros k x a v H. apply get_path_one_some in H. destruct H as [m [-> Hg]].
  exists m, x. repeat split; auto. congruence.
Qed.
Lemma mutk_get_other : forall k a b q, mutk k a b -> q <> k -> get_path [q] b = get_path [q] a.
Proof.
  intros k a b q [m [x [-> [_ ->]]]] Hne. rewrite !get_path_one. apply obj_get_set_other. exact Hne.
Qed.
Lemma mutk_get_same : forall k x a v, get_path [k] a = Some v -> get_path [k] (set_path [k] x a) = Some x.
Proof.
  intros k x a v H. apply get_path_one_some in H. destruct H as [m [-> Hg]].
  rewrite set_path_one, get_path_one. apply obj_get_set_same.
Qed.
Lemma mutk_typename : forall k a b, mutk k a b -> k <> typename_key -> typename_of b = typename_of a.
Proof.
  intros k a b [m [x [-> [_ ->]]]] Hne. unfold typename_of.
  change [95;95;116;121;112;101;110;97;109;101] with typename_key.
  rewrite obj_get_set_other by congruence. reflexivity.
Qed.
Lemma mutk_skip : forall k a b, mutk k a b -> has_skip_errors b = has_skip_errors a.
Proof.
  intros k a b [m [x [-> [Hk ->]]]]. unfold has_skip_errors.
  set (sk := [95;95;115;107;105;112;69;114;114;111;114;115]).
  pose proof (obj_get_set_some sk k x m Hk) as [H1 H2].
  destruct (obj_get sk (obj_set k x m)) eqn:E1; destruct (obj_get sk m) eqn:E2; auto.
  - specialize (H2 eq_refl). discriminate.
  - specialize (H1 eq_refl). discriminate.
Qed.
Lemma mutk_obj : forall k a b, mutk k a b -> exists m', b = JObj m'.
Proof. intros k a b [m [x [_ [_ ->]]]]. eauto. Qed.

(* ---- marshal with explicit separators ---- *)
Definition marshal_items : list json -> bytes :=
  fix go (l : list json) : bytes :=
    match l with
    | [] => []
    | [x] => marshal x
    | x :: r => marshal x ++ 44 :: go r
    end.
Definition marshal_members : list (bytes * json) -> bytes :=
  fix go (l : list (bytes * json)) : bytes :=
    match l with
    | [] => []
    | [(k, v)] => escape_string k ++ 58 :: marshal v
    | (k, v) :: r => escape_string k ++ 58 :: marshal v ++ 44 :: go r
    end.
Lemma marshal_arr_eq : forall l, marshal (JArr l) = 91 :: marshal_items l ++ [93].
Proof. reflexivity. Qed.
Lemma marshal_obj_eq : forall l, marshal (JObj l) = 123 :: marshal_members l ++ [125].
Proof. reflexivity. Qed.

Definition sep (first : bool) : bytes := if first then [] else [44].
Fixpoint items_bytes (first : bool) (l : list json) : bytes :=
  match l with
  | [] => []
  | x :: r => sep first ++ marshal x ++ items_bytes false r
  end.
Fixpoint members_bytes (comma : bool) (l : list (bytes * json)) : bytes :=
  match l with
  | [] => []
  | (k, v) :: r => (if comma then [44] else []) ++ escape_string k ++ 58 :: marshal v ++ members_bytes true r
  end.
Lemma marshal_items_bytes : forall l, marshal_items l = items_bytes true l.
Proof.
  induction l as [|x r IH]; [reflexivity|].
  destruct r as [|y r'].
  - simpl. rewrite app_nil_r. reflexivity.
  - change (marshal_items (x :: y :: r')) with (marshal x ++ 44 :: marshal_items (y :: r')).
    rewrite IH. simpl. reflexivity.
Qed.
Lemma marshal_members_bytes : forall l, marshal_members l = members_bytes false l.
Proof.
  induction l as [|[k v] r IH]; [reflexivity|].
  destruct r as [|[k2 v2] r'].
  - simpl. rewrite app_nil_r. reflexivity.
  - change (marshal_members ((k, v) :: (k2, v2) :: r'))
      with (escape_string k ++ 58 :: marshal v ++ 44 :: marshal_members ((k2, v2) :: r')).
    rewrite IH. simpl. reflexivity.
Qed.

Lemma escape_body_plain : forall s, no_special s = true -> escape_body s = s.
Proof.
  induction s as [|c r IH]; simpl; intros H; [reflexivity|].
  apply andb_true_iff in H. destruct H as [H Hr].
  apply andb_true_iff in H. destruct H as [H H3].
  apply andb_true_iff in H. destruct H as [H1 H2].
  apply negb_true_iff in H1. apply negb_true_iff in H2.
  rewrite H1, H2, H3, IH by exact Hr. reflexivity.
Qed.
Lemma escape_string_plain : forall s, no_special s = true -> escape_string s = 34 :: s ++ [34].
Proof. intros s H. unfold escape_string. rewrite escape_body_plain by exact H. reflexivity. Qed.

(* ---- the local loops as top-level functions ---- *)
Section Loops.
  Variable deny : bytes -> bytes -> bool.

  Definition pw_items (item : node) (path' : rpath) (tns : list (option bytes)) :=
    fix loop (items : list json) (i : N) : list json * list gerr * option wstatus :=
      match items with
      | [] => ([], [], None)
      | it :: rest =>
        let '(it', e, s) := prewalk deny item it (path' ++ [PIdx i]) tns in
        match s with
        | WPanic => (it' :: rest, e, Some WPanic)
        | WErr =>
          if absorbs_item_error item then
            let '(rest', e2, s2) := loop rest (i + 1) in (JNull :: rest', e ++ e2, s2)
          else (it' :: rest, e, Some WErr)
        | WOk =>
          let '(rest', e2, s2) := loop rest (i + 1) in (it' :: rest', e ++ e2, s2)
        end
      end.

  Definition pw_denied (auth : option authinfo) (value : json) : bool :=
    match auth with
    | Some a =>
      let t := match typename_of value with Some t => t | None => au_parent_type a end in
      deny t (au_field a)
    | None => false
    end.
  Definition pw_null_at (cp : list bytes) (value : json) : json :=
    match get_path cp value with
    | Some _ => set_path cp JNull value
    | None => value
    end.

  Definition pw_fields (nl : bool) (p : list bytes) (path' : rpath) (tns' : list (option bytes)) :=
    fix floop (fs : list field) (value : json) : json * list gerr * option (bool * wstatus) :=
      match fs with
      | [] => (value, [], None)
      | Fld name on parent_on auth child :: rest =>
        if skip_field on parent_on tns' then floop rest value
        else
          if pw_denied auth value then
            let e := [{| ge_kind := EK_UNAUTHORIZED; ge_path := push_names path' (node_path child) |}] in
            if node_nullable child then
              match node_path child with
              | [] => (value, e, Some (false, WPanic))
              | cp => let '(v2, e2, s2) := floop rest (pw_null_at cp value) in (v2, e ++ e2, s2)
              end
            else if nl && (match p with [] => false | _ => true end) then (value, e, Some (true, WOk))
            else (value, e, Some (false, WErr))
          else
          let '(value', e, s) := prewalk deny child value path' tns' in
          match s with
          | WPanic => (value', e, Some (false, WPanic))
          | WErr =>
            if nl && (match p with [] => false | _ => true end) then (value', e, Some (true, WOk))
            else (value', e, Some (false, WErr))
          | WOk => let '(v2, e2, s2) := floop rest value' in (v2, e ++ e2, s2)
          end
      end.

  Lemma prewalk_arr_eq : forall p nl item parent path tns,
    prewalk deny (NArr p nl item) parent path tns =
      let v := get_path p parent in
      if is_null_or_missing v then
        if nl then (parent, [], WOk) else (parent, nonnull_error path p parent, WErr)
      else
        let path' := push_names path p in
        match v with
        | Some (JArr items) =>
          let '(items', e, s) := pw_items item path' tns items 0 in
          match s with
          | None => (set_path p (JArr items') parent, e, WOk)
          | Some WPanic => (parent, e, WPanic)
          | Some _ =>
            if nl then
              match p with
              | [] => (set_path p (JArr items') parent, e, WErr)
              | _ => (set_path p JNull parent, e, WOk)
              end
            else (set_path p (JArr items') parent, e, WErr)
          end
        | _ => (parent, [{| ge_kind := EK_ARRAY; ge_path := path' |}], WErr)
        end.
  Proof. reflexivity. Qed.

  Lemma prewalk_obj_eq : forall p nl tyname possible inacc unresolvable fields parent path tns,
    prewalk deny (NObj p nl tyname possible inacc unresolvable fields) parent path tns =
      if unresolvable then (parent, [{| ge_kind := EK_UNRESOLVABLE; ge_path := push_names path p |}], WErr)
      else
      let v := get_path p parent in
      if is_null_or_missing v then
        if nl then (parent, [], WOk) else (parent, nonnull_error path p parent, WErr)
      else
        let path' := push_names path p in
        match v with
        | Some (JObj m) =>
          let value := JObj m in
          let tn := typename_of value in
          if tn_bad tyname possible tn then
            (parent, [{| ge_kind := EK_TYPENAME; ge_path := path' |}], if nl then WOk else WErr)
          else
            let '(value', e, s) := pw_fields nl p path' (tn :: tns) fields value in
            match s with
            | None => (set_path p value' parent, e, WOk)
            | Some (true, _) => (set_path p JNull parent, e, WOk)
            | Some (false, st) => (set_path p value' parent, e, st)
            end
        | _ => (parent, [{| ge_kind := EK_NOTOBJECT; ge_path := path' |}], WErr)
        end.
  Proof. reflexivity. Qed.

  (* ---- complete ---- *)
  Definition comp_items (item : node) (path' : rpath) (tns : list (option bytes)) :=
    fix loop (items : list json) (i : N) : option (list json) * list gerr :=
      match items with
      | [] => (Some [], [])
      | it :: rest =>
        match complete deny item it (path' ++ [PIdx i]) tns with
        | (Some t, e) =>
          let '(r, e2) := loop rest (i + 1) in
          (match r with Some l => Some (t :: l) | None => None end, e ++ e2)
        | (None, e) =>
          if absorbs_item_error item then
            let '(r, e2) := loop rest (i + 1) in
            (match r with Some l => Some (JNull :: l) | None => None end, e ++ e2)
          else (None, e)
        end
      end.

  Definition sp_denied (auth : option authinfo) (tn : option bytes) : bool :=
    match auth with
    | Some a => deny (match tn with Some t => t | None => au_parent_type a end) (au_field a)
    | None => false
    end.

  Definition comp_fields (value : json) (path' : rpath) (tns' : list (option bytes)) (tn : option bytes) :=
    fix floop (fs : list field) : option (list (bytes * json)) * list gerr :=
      match fs with
      | [] => (Some [], [])
      | Fld name on parent_on auth child :: rest =>
        if skip_field on parent_on tns' then floop rest
        else
          if sp_denied auth tn then
            let e := [{| ge_kind := EK_UNAUTHORIZED; ge_path := push_names path' (node_path child) |}] in
            if node_nullable child then
              let '(r, e2) := floop rest in
              (match r with Some l => Some ((name, JNull) :: l) | None => None end, e ++ e2)
            else (None, e)
          else
            match complete deny child value path' tns' with
            | (Some t, e) =>
              let '(r, e2) := floop rest in
              (match r with Some l => Some ((name, t) :: l) | None => None end, e ++ e2)
            | (None, e) => (None, e)
            end
      end.

  Lemma complete_arr_eq : forall p nl item parent path tns,
    complete deny (NArr p nl item) parent path tns =
      match get_path p parent with
      | None | Some JNull => if nl then (Some JNull, []) else (None, nonnull_error path p parent)
      | Some (JArr items) =>
        match comp_items item (push_names path p) tns items 0 with
        | (Some l, e) => (Some (JArr l), e)
        | (None, e) => (if nl && (match p with [] => false | _ => true end) then Some JNull else None, e)
        end
      | Some _ => (None, [{| ge_kind := EK_ARRAY; ge_path := push_names path p |}])
      end.
  Proof. reflexivity. Qed.

  Lemma complete_obj_eq : forall p nl tyname possible inacc unresolvable fields parent path tns,
    complete deny (NObj p nl tyname possible inacc unresolvable fields) parent path tns =
      if unresolvable then (None, [{| ge_kind := EK_UNRESOLVABLE; ge_path := push_names path p |}]) else
      match get_path p parent with
      | None | Some JNull => if nl then (Some JNull, []) else (None, nonnull_error path p parent)
      | Some (JObj m) =>
        let value := JObj m in
        let path' := push_names path p in
        let tn := typename_of value in
        if tn_bad tyname possible tn then
          (if nl then Some JNull else None, [{| ge_kind := EK_TYPENAME; ge_path := path' |}])
        else
          match comp_fields value path' (tn :: tns) tn fields with
          | (Some l, e) => (Some (JObj l), e)
          | (None, e) => (if nl && (match p with [] => false | _ => true end) then Some JNull else None, e)
          end
      | Some _ => (None, [{| ge_kind := EK_NOTOBJECT; ge_path := push_names path p |}])
      end.
  Proof. reflexivity. Qed.
End Loops.

(* ---- render ---- *)
Definition rd_items (item : node) (nl : bool) (p : list bytes) (tns : list (option bytes)) :=
  fix loop (items : list json) (first : bool) : bytes * option bool :=
    match items with
    | [] => ([], None)
    | it :: rest =>
      let sep := if first then [] else [44] in
      let '(b, err) := render item it tns false in
      if err then
        if absorbs_item_error item then
          let '(b2, s2) := loop rest false in (sep ++ b ++ b2, s2)
        else (sep ++ b, Some (nl && negb (match p with [] => true | _ => false end)))
      else let '(b2, s2) := loop rest false in (sep ++ b ++ b2, s2)
    end.

Definition rd_fields (nl : bool) (value : json) (tns' : list (option bytes)) :=
  fix floop (fs : list field) (add_comma : bool) : bytes * bool :=
    match fs with
    | [] => ([], false)
    | Fld name on parent_on auth child :: rest =>
      if skip_field on parent_on tns' then floop rest add_comma
      else
        let key := (if add_comma then [44] else []) ++ 34 :: name ++ [34; 58] in
        let '(b, err) := render child value tns' false in
        if err then
          if nl then let '(b2, e2) := floop rest true in (key ++ b ++ b_null ++ b2, e2)
          else (key ++ b ++ b_null, true)
        else let '(b2, e2) := floop rest true in (key ++ b ++ b2, e2)
    end.

Lemma render_arr_eq : forall p nl item parent tns is_root,
  render (NArr p nl item) parent tns is_root =
    let v := get_path p parent in
    if is_null_or_missing v then
      if nl then (b_null, false) else ([], true)
    else
      match v with
      | Some (JArr items) =>
        let '(b, s) := rd_items item nl p tns items true in
        match s with
        | None => (91 :: b ++ [93], false)
        | Some true => (91 :: b, false)
        | Some false => (91 :: b, true)
        end
      | _ => ([], true)
      end.
Proof. reflexivity. Qed.

Lemma render_obj_eq : forall p nl tyname possible inacc unresolvable fields parent tns is_root,
  render (NObj p nl tyname possible inacc unresolvable fields) parent tns is_root =
    let v := get_path p parent in
    if is_null_or_missing v then
      if nl then (b_null, false) else ([], true)
    else
      match v with
      | Some (JObj m) =>
        let value := JObj m in
        let tn := typename_of value in
        if tn_bad tyname possible tn then (b_null, false)
        else
          let '(b, err) := rd_fields nl value (tn :: tns) fields false in
          if err then ((if is_root then [] else [123]) ++ b, true)
          else ((if is_root then [] else [123]) ++ b ++ (if is_root then [] else [125]), false)
      | _ => ([], true)
      end.
Proof. reflexivity. Qed.

(* ---- conforms_b ---- *)
Definition cf_items (item : node) (tns : list (option bytes)) :=
  fix go (srcs outs : list json) : bool :=
    match srcs, outs with
    | [], [] => true
    | s :: srcs', o :: outs' =>
      ((match o with JNull => absorbs_item_error item | _ => false end) || conforms_b item s tns o)
      && go srcs' outs'
    | _, _ => false
    end.
Definition cf_fields (value : json) (tns' : list (option bytes)) :=
  fix go (fs : list field) (ms : list (bytes * json)) : bool :=
    match fs with
    | [] => match ms with [] => true | _ => false end
    | Fld name on parent_on auth child :: rest =>
      if skip_field on parent_on tns' then go rest ms
      else match ms with
           | (k, o) :: ms' =>
             bytes_eqb k name &&
             ((match o with JNull => node_nullable child | _ => false end) || conforms_b child value tns' o)
             && go rest ms'
           | [] => false
           end
    end.
Lemma conforms_arr_eq : forall p nl item src tns out,
  conforms_b (NArr p nl item) src tns out =
    match out with
    | JNull => nl
    | JArr outs =>
      match get_path p src with
      | Some (JArr srcs) => cf_items item tns srcs outs
      | _ => false
      end
    | _ => false
    end.
Proof. reflexivity. Qed.
Lemma conforms_obj_eq : forall p nl tyname possible inacc unresolvable fields src tns out,
  conforms_b (NObj p nl tyname possible inacc unresolvable fields) src tns out =
    match out with
    | JNull => nl
    | JObj members =>
      match get_path p src with
      | Some (JObj m) =>
        let value := JObj m in
        let tns' := typename_of value :: tns in
        negb (tn_bad tyname possible (typename_of value)) && cf_fields value tns' fields members
      | _ => false
      end
    | _ => false
    end.
Proof. reflexivity. Qed.

(* ---- plan well-formedness, unfolded ---- *)
Definition frpaths : list field -> list (list bytes) :=
  fix go (fs : list field) : list (list bytes) :=
    match fs with
    | [] => []
    | Fld _ _ _ _ c :: rest => rpaths c ++ go rest
    end.

Definition field_wf (depth : nat) (f : field) : bool :=
  match f with
  | Fld name on parent_on auth child =>
    no_special name &&
    (match parent_on with
     | Some conds => forallb (fun c => Nat.leb (fst c) depth) conds
     | None => true
     end) &&
    (match auth with
     | Some _ => has_path_kind child && (match node_path child with [] => false | _ => true end)
                 && head_not_typename (node_path child)
     | None => true
     end) &&
    (match child with
     | NObj p _ _ _ _ _ _ | NArr p _ _ => head_not_typename p
     | _ => true
     end) &&
    plan_wf (S depth) child
  end.
Definition fields_wf (depth : nat) : list field -> bool :=
  fix go (fs : list field) : bool :=
    match fs with
    | [] => true
    | f :: rest => field_wf depth f && go rest
    end.

Lemma plan_wf_obj_eq : forall depth p nl ty poss inacc unres fields,
  plan_wf depth (NObj p nl ty poss inacc unres fields) =
    incomparable_all (frpaths fields) && fields_wf depth fields.
Proof.
  intros. unfold plan_wf at 1; fold plan_wf. fold (frpaths fields).
  f_equal. induction fields as [|[name on pon auth child] rest IH]; [reflexivity|].
  simpl fields_wf. unfold field_wf. rewrite <- IH. rewrite <- !andb_assoc. reflexivity.
Qed.
Lemma plan_wf_arr_eq : forall depth p nl item,
  plan_wf depth (NArr p nl item) = plan_wf depth item.
Proof. reflexivity. Qed.
Lemma rpaths_obj_nil : forall nl ty poss inacc unres fields,
  rpaths (NObj [] nl ty poss inacc unres fields) = frpaths fields.
Proof. reflexivity. Qed.
Lemma frpaths_cons : forall name on pon auth child rest,
  frpaths (Fld name on pon auth child :: rest) = rpaths child ++ frpaths rest.
Proof. reflexivity. Qed.
