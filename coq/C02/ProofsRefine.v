(* C02 proofs, part 3: the pre-walk followed by the print walk refines the one-pass completion. *)
From Coq Require Import Lia ZifyN ZifyBool.
From Gv Require Import lib.Bytes lib.Json C02.Model C02.Spec C02.ProofsBase C02.ProofsExt.
Open Scope N_scope.

Lemma key_bytes : forall (c : bool) name x rest, no_special name = true ->
  ((if c then [44] else []) ++ 34 :: name ++ [34; 58]) ++ x ++ rest =
  (if c then [44] else []) ++ escape_string name ++ 58 :: x ++ rest.
Proof.
  intros c name x rest H. rewrite escape_string_plain by exact H.
  rewrite <- !app_assoc. f_equal. simpl. f_equal. rewrite <- !app_assoc. reflexivity.
Qed.

Lemma fpaths_cons : forall name on pon auth child rest,
  fpaths (Fld name on pon auth child :: rest) =
  if has_path_kind child then node_path child :: fpaths rest else fpaths rest.
Proof. intros. unfold fpaths. simpl. destruct (has_path_kind child); reflexivity. Qed.

Lemma fpaths_incl : forall f rest x, In x (fpaths rest) -> In x (fpaths (f :: rest)).
Proof.
  intros [name on pon auth child] rest x H. rewrite fpaths_cons.
  destruct (has_path_kind child); simpl; auto.
Qed.

(* what one field may do to the enclosing object *)
Definition step_frame (child : node) (a b : json) : Prop :=
  b = a \/ (has_path_kind child = true /\ exists k, node_path child = [k] /\ k <> typename_key /\ mutk k a b).

Lemma step_frame_props : forall child a b, step_frame child a b -> (exists m, a = JObj m) ->
  (exists m', b = JObj m') /\ typename_of b = typename_of a /\ has_skip_errors b = has_skip_errors a /\
  (forall q, (has_path_kind child = true -> [q] <> node_path child) -> get_path [q] b = get_path [q] a).
Proof.
  intros child a b [-> | [Hk [k [Hp [Hne Hm]]]]] Ha.
  - repeat split; auto.
  - split; [eapply mutk_obj; eauto|]. split; [eapply mutk_typename; eauto|].
    split; [eapply mutk_skip; eauto|].
    intros q Hq. eapply mutk_get_other; eauto. intros ->. apply (Hq Hk). congruence.
Qed.

Section Refine.
  Variable deny : bytes -> bytes -> bool.

  Definition refines (n : node) : Prop :=
    forall as_item depth, plan_wf as_item depth n = true ->
    forall parent path tns parent' errs st res errs',
      prewalk deny n parent path tns = (parent', errs, st) ->
      complete deny n parent path tns = (res, errs') ->
      errs = errs' /\ st <> WPanic /\ (st = WErr -> res = None) /\
      (st = WOk -> exists t, res = Some t /\ render n parent' tns false = (marshal t, false)) /\
      (as_item = false -> parent' = parent \/
         ((is_obj_node n || is_arr_node n) = true /\ exists k, node_path n = [k] /\ mutk k parent parent')).

  (* ---- unfolding equations for the loops ---- *)
  Lemma pw_items_cons : forall item path' tns it rest i,
    pw_items deny item path' tns (it :: rest) i =
      let '(it', e, s) := prewalk deny item it (path' ++ [PIdx i]) tns in
      match s with
      | WPanic => (it' :: rest, e, Some WPanic)
      | WErr =>
        if absorbs_item_error item then
          let '(rest', e2, s2) := pw_items deny item path' tns rest (i + 1) in (JNull :: rest', e ++ e2, s2)
        else (it' :: rest, e, Some WErr)
      | WOk =>
        let '(rest', e2, s2) := pw_items deny item path' tns rest (i + 1) in (it' :: rest', e ++ e2, s2)
      end.
  Proof. reflexivity. Qed.
  Lemma comp_items_cons : forall item path' tns it rest i,
    comp_items deny item path' tns (it :: rest) i =
      match complete deny item it (path' ++ [PIdx i]) tns with
      | (Some t, e) =>
        let '(r, e2) := comp_items deny item path' tns rest (i + 1) in
        (match r with Some l => Some (t :: l) | None => None end, e ++ e2)
      | (None, e) =>
        if absorbs_item_error item then
          let '(r, e2) := comp_items deny item path' tns rest (i + 1) in
          (match r with Some l => Some (JNull :: l) | None => None end, e ++ e2)
        else (None, e)
      end.
  Proof. reflexivity. Qed.
  Lemma rd_items_cons : forall item nl p tns it rest first,
    rd_items item nl p tns (it :: rest) first =
      let '(b, err) := render item it tns false in
      if err then
        if absorbs_item_error item then
          let '(b2, s2) := rd_items item nl p tns rest false in (sep first ++ b ++ b2, s2)
        else (sep first ++ b, Some (nl && negb (match p with [] => true | _ => false end)))
      else let '(b2, s2) := rd_items item nl p tns rest false in (sep first ++ b ++ b2, s2).
  Proof. reflexivity. Qed.

  Lemma items_ok : forall item nl p path' tns depth,
    refines item -> plan_wf true depth item = true ->
    forall items i items' errs s r errs',
      pw_items deny item path' tns items i = (items', errs, s) ->
      comp_items deny item path' tns items i = (r, errs') ->
      errs = errs' /\
      match s with
      | None => exists l, r = Some l /\
                forall first, rd_items item nl p tns items' first = (items_bytes first l, None)
      | Some st => r = None /\ st = WErr
      end.
  Proof.
    intros item nl p path' tns depth Hitem Hwf.
    induction items as [|it rest IH]; intros i items' errs s r errs' Hp Hc.
    - simpl in Hp, Hc. inversion Hp; inversion Hc; subst. split; [reflexivity|].
      exists []. split; [reflexivity|]. intros first. reflexivity.
    - rewrite pw_items_cons in Hp. rewrite comp_items_cons in Hc.
      destruct (prewalk deny item it (path' ++ [PIdx i]) tns) as [[it' e] s0] eqn:Hpw.
      destruct (complete deny item it (path' ++ [PIdx i]) tns) as [res0 e0] eqn:Hcp.
      destruct (Hitem true depth Hwf _ _ _ _ _ _ _ _ Hpw Hcp) as (He & Hnp & Herr & Hok & _).
      subst e0.
      destruct (pw_items deny item path' tns rest (i + 1)) as [[rest' e2] s2] eqn:Hpr.
      destruct (comp_items deny item path' tns rest (i + 1)) as [r2 e2'] eqn:Hcr.
      destruct (IH _ _ _ _ _ _ Hpr Hcr) as (He2 & Hs2). subst e2'.
      destruct s0.
      + destruct (Hok eq_refl) as (t & -> & Hrd).
        inversion Hp; inversion Hc; subst. split; [reflexivity|].
        destruct s.
        * destruct Hs2 as (-> & ->). auto.
        * destruct Hs2 as (l & -> & Hrest). exists (t :: l). split; [reflexivity|].
          intros first. rewrite rd_items_cons, Hrd, Hrest. reflexivity.
      + rewrite (Herr eq_refl) in Hc.
        destruct (absorbs_item_error item) eqn:Habs.
        * inversion Hp; inversion Hc; subst. split; [reflexivity|].
          destruct s.
          -- destruct Hs2 as (-> & ->). auto.
          -- destruct Hs2 as (l & -> & Hrest). exists (JNull :: l). split; [reflexivity|].
             intros first. rewrite rd_items_cons.
             assert (render item JNull tns false = (b_null, false)) as Hrd.
             { unfold absorbs_item_error in Habs. apply andb_true_iff in Habs. destruct Habs as [Hoa Hnl].
               assert (has_path_kind item = true) as Hk by (destruct item; try discriminate; reflexivity).
               apply render_nullish; auto.
               pose proof (plan_wf_path true depth item Hwf Hk) as Hpi. simpl in Hpi. rewrite Hpi. reflexivity. }
             rewrite Hrd, Hrest. reflexivity.
        * inversion Hp; inversion Hc; subst. auto.
      + congruence.
  Qed.

  (* ---- fields ---- *)
  Lemma pw_fields_cons : forall nl p path' tns' name on parent_on auth child rest value,
    pw_fields deny nl p path' tns' (Fld name on parent_on auth child :: rest) value =
      if skip_field on parent_on tns' then pw_fields deny nl p path' tns' rest value
      else
        if pw_denied deny auth value then
          let e := [{| ge_kind := EK_UNAUTHORIZED; ge_path := push_names path' (node_path child) |}] in
          if node_nullable child then
            let '(v2, e2, s2) := pw_fields deny nl p path' tns' rest (pw_null_child child value) in (v2, e ++ e2, s2)
          else if nl && (match p with [] => false | _ => true end) then (value, e, Some (true, WOk))
          else (value, e, Some (false, WErr))
        else
        let '(value', e, s) := prewalk deny child value path' tns' in
        match s with
        | WPanic => (value', e, Some (false, WPanic))
        | WErr =>
          if nl && (match p with [] => false | _ => true end) then (value', e, Some (true, WOk))
          else (value', e, Some (false, WErr))
        | WOk => let '(v2, e2, s2) := pw_fields deny nl p path' tns' rest value' in (v2, e ++ e2, s2)
        end.
  Proof. reflexivity. Qed.
  Lemma comp_fields_cons : forall value path' tns' tn name on parent_on auth child rest,
    comp_fields deny value path' tns' tn (Fld name on parent_on auth child :: rest) =
      if skip_field on parent_on tns' then comp_fields deny value path' tns' tn rest
      else
        if sp_denied deny auth tn then
          let e := [{| ge_kind := EK_UNAUTHORIZED; ge_path := push_names path' (node_path child) |}] in
          if node_nullable child then
            let '(r, e2) := comp_fields deny value path' tns' tn rest in
            (match r with Some l => Some ((name, JNull) :: l) | None => None end, e ++ e2)
          else (None, e)
        else
          match complete deny child value path' tns' with
          | (Some t, e) =>
            let '(r, e2) := comp_fields deny value path' tns' tn rest in
            (match r with Some l => Some ((name, t) :: l) | None => None end, e ++ e2)
          | (None, e) => (None, e)
          end.
  Proof. reflexivity. Qed.
  Lemma rd_fields_cons : forall nl value tns' name on parent_on auth child rest c,
    rd_fields nl value tns' (Fld name on parent_on auth child :: rest) c =
      if skip_field on parent_on tns' then rd_fields nl value tns' rest c
      else
        let key := (if c then [44] else []) ++ 34 :: name ++ [34; 58] in
        let '(b, err) := render child value tns' false in
        if err then
          if nl then let '(b2, e2) := rd_fields nl value tns' rest true in (key ++ b ++ b_null ++ b2, e2)
          else (key ++ b ++ b_null, true)
        else let '(b2, e2) := rd_fields nl value tns' rest true in (key ++ b ++ b2, e2).
  Proof. reflexivity. Qed.

  Lemma denied_same : forall auth value, pw_denied deny auth value = sp_denied deny auth (typename_of value).
  Proof. intros [a|] value; reflexivity. Qed.

  Lemma comp_fields_ext : forall depth path' tns' tn fs a b,
    fields_wf depth fs = true ->
    has_skip_errors a = has_skip_errors b ->
    (forall q, In [q] (fpaths fs) -> get_path [q] a = get_path [q] b) ->
    comp_fields deny a path' tns' tn fs = comp_fields deny b path' tns' tn fs.
  Proof.
    intros depth path' tns' tn fs a b. induction fs as [|[name on pon auth child] rest IH]; intros Hwf Hs Hg.
    - reflexivity.
    - simpl in Hwf. apply andb_true_iff in Hwf. destruct Hwf as [Hf Hwf].
      assert (comp_fields deny a path' tns' tn rest = comp_fields deny b path' tns' tn rest) as Hrest.
      { apply IH; auto. intros q Hq. apply Hg. apply fpaths_incl. exact Hq. }
      rewrite !comp_fields_cons, Hrest.
      assert (complete deny child a path' tns' = complete deny child b path' tns') as Hch.
      { unfold field_wf in Hf. apply andb_true_iff in Hf. destruct Hf as [_ Hcw].
        apply complete_ext_one; auto.
        - intros Hk. exact (plan_wf_path false _ _ Hcw Hk).
        - intros Hk. destruct (plan_wf_path false _ _ Hcw Hk) as [k Hp]. rewrite Hp. apply Hg.
          rewrite fpaths_cons, Hk, Hp. left. reflexivity. }
      rewrite Hch. reflexivity.
  Qed.

  Lemma field_wf_parts : forall depth name on pon auth child,
    field_wf depth (Fld name on pon auth child) = true ->
    no_special name = true /\
    (auth <> None -> has_path_kind child = true /\ forall k, node_path child = [k] -> k <> typename_key) /\
    ((is_obj_node child || is_arr_node child) = true -> forall k, node_path child = [k] -> k <> typename_key) /\
    plan_wf false (S depth) child = true.
  Proof.
    intros depth name on pon auth child H. unfold field_wf in H.
    apply andb_true_iff in H. destruct H as [H H5].
    apply andb_true_iff in H. destruct H as [H H4].
    apply andb_true_iff in H. destruct H as [H H3].
    apply andb_true_iff in H. destruct H as [H1 H2].
    split; [exact H1|]. split; [|split; [|exact H5]].
    - intros Ha. destruct auth as [a|]; [|congruence].
      apply andb_true_iff in H3. destruct H3 as [Hk Hn]. split; [exact Hk|].
      intros k Hp. rewrite Hp in Hn. apply negb_true_iff in Hn. apply bytes_eqb_neq. exact Hn.
    - intros Hoa k Hp. destruct child; try discriminate; cbn [node_path] in Hp; subst;
        apply negb_true_iff in H4; apply bytes_eqb_neq; exact H4.
  Qed.

  Lemma distinct_fpaths_tail : forall f rest,
    distinct_paths (fpaths (f :: rest)) = true -> distinct_paths (fpaths rest) = true.
  Proof.
    intros [name on pon auth child] rest H. rewrite fpaths_cons in H.
    destruct (has_path_kind child); auto. apply distinct_paths_notin in H. tauto.
  Qed.
  Lemma distinct_fpaths_head : forall name on pon auth child rest,
    distinct_paths (fpaths (Fld name on pon auth child :: rest)) = true ->
    has_path_kind child = true -> ~ In (node_path child) (fpaths rest).
  Proof.
    intros name on pon auth child rest H Hk. rewrite fpaths_cons, Hk in H.
    apply distinct_paths_notin in H. tauto.
  Qed.

  Definition fields_post (nl : bool) (p : list bytes) (tns' : list (option bytes)) (fs : list field)
             (value : json) (tn : option bytes) (value' : json) (errs : list gerr)
             (s : option (bool * wstatus)) (r : option (list (bytes * json))) (errs' : list gerr) : Prop :=
    errs = errs' /\
    (exists m', value' = JObj m') /\ typename_of value' = tn /\ has_skip_errors value' = has_skip_errors value /\
    (forall q, ~ In [q] (fpaths fs) -> get_path [q] value' = get_path [q] value) /\
    match s with
    | None => exists l, r = Some l /\
              forall fin c, (forall q, In [q] (fpaths fs) -> get_path [q] fin = get_path [q] value') ->
                 rd_fields nl fin tns' fs c = (members_bytes c l, false)
    | Some (nulled, st) =>
      r = None /\ nulled = (nl && match p with [] => false | _ => true end) /\ st = (if nulled then WOk else WErr)
    end.

  Lemma fields_step : forall nl p tns' depth name on pon auth child rest value value1 tn t e,
    skip_field on pon tns' = false ->
    field_wf depth (Fld name on pon auth child) = true ->
    distinct_paths (fpaths (Fld name on pon auth child :: rest)) = true ->
    (exists m, value = JObj m) -> typename_of value = tn ->
    step_frame child value value1 ->
    (forall fin, (has_path_kind child = true -> get_path (node_path child) fin = get_path (node_path child) value1) ->
                 render child fin tns' false = (marshal t, false)) ->
    forall v2 e2 s2 r2 e2',
      fields_post nl p tns' rest value1 tn v2 e2 s2 r2 e2' ->
      fields_post nl p tns' (Fld name on pon auth child :: rest) value tn v2 (e ++ e2) s2
                  (match r2 with Some l => Some ((name, t) :: l) | None => None end) (e ++ e2').
  Proof.
    intros nl p tns' depth name on pon auth child rest value value1 tn t e Hskip Hfw Hdist Hobj Htn Hstep Hrd
           v2 e2 s2 r2 e2' (He & Hobj2 & Htn2 & Hsk2 & Hfr2 & Hs2).
    destruct (step_frame_props _ _ _ Hstep Hobj) as (Hobj1 & Htn1 & Hsk1 & Hget1).
    destruct (field_wf_parts _ _ _ _ _ _ Hfw) as (Hname & _ & _ & Hcw).
    assert (forall q, ~ In [q] (fpaths (Fld name on pon auth child :: rest)) ->
                      ~ In [q] (fpaths rest) /\ (has_path_kind child = true -> [q] <> node_path child)) as Hsplit.
    { intros q Hq. rewrite fpaths_cons in Hq. destruct (has_path_kind child).
      - split; [intros Hi; apply Hq; right; exact Hi | intros _ Heq; apply Hq; left; auto].
      - split; [exact Hq | discriminate]. }
    split; [subst; reflexivity|]. split; [exact Hobj2|]. split; [exact Htn2|].
    split; [congruence|]. split.
    - intros q Hq. destruct (Hsplit q Hq) as [Hq1 Hq2]. rewrite (Hfr2 q Hq1). apply Hget1. exact Hq2.
    - destruct s2 as [[nulled st]|].
      + destruct Hs2 as (-> & Hn & Hst). auto.
      + destruct Hs2 as (l & -> & Hrest). exists ((name, t) :: l). split; [reflexivity|].
        intros fin c Hagree. rewrite rd_fields_cons, Hskip. cbv zeta.
        rewrite Hrd.
        * rewrite Hrest.
          -- cbn [members_bytes]. rewrite key_bytes by exact Hname. reflexivity.
          -- intros q Hq. apply Hagree. apply fpaths_incl. exact Hq.
        * intros Hk. destruct (plan_wf_path false _ _ Hcw Hk) as [k Hp]. rewrite Hp.
          rewrite (Hagree k) by (rewrite fpaths_cons, Hk, Hp; left; reflexivity).
          apply Hfr2. rewrite <- Hp. eapply distinct_fpaths_head; eauto.
  Qed.

  Lemma fields_post_skip : forall nl p tns' name on pon auth child rest value tn v2 e2 s2 r2 e2',
    skip_field on pon tns' = true ->
    fields_post nl p tns' rest value tn v2 e2 s2 r2 e2' ->
    fields_post nl p tns' (Fld name on pon auth child :: rest) value tn v2 e2 s2 r2 e2'.
  Proof.
    intros nl p tns' name on pon auth child rest value tn v2 e2 s2 r2 e2' Hskip
           (He & Hobj2 & Htn2 & Hsk2 & Hfr2 & Hs2).
    split; [exact He|]. split; [exact Hobj2|]. split; [exact Htn2|]. split; [exact Hsk2|]. split.
    - intros q Hq. apply Hfr2. intros Hi. apply Hq. apply fpaths_incl. exact Hi.
    - destruct s2 as [[nulled st]|]; [exact Hs2|].
      destruct Hs2 as (l & -> & Hrest). exists l. split; [reflexivity|].
      intros fin c Hagree. rewrite rd_fields_cons, Hskip. apply Hrest.
      intros q Hq. apply Hagree. apply fpaths_incl. exact Hq.
  Qed.

  Lemma fields_post_stop : forall nl p tns' fs value tn value1 e,
    (exists m, value = JObj m) -> typename_of value = tn ->
    (exists m', value1 = JObj m') -> typename_of value1 = typename_of value ->
    has_skip_errors value1 = has_skip_errors value ->
    (forall q, ~ In [q] (fpaths fs) -> get_path [q] value1 = get_path [q] value) ->
    fields_post nl p tns' fs value tn value1 e
      (Some (if nl && match p with [] => false | _ => true end then (true, WOk) else (false, WErr))) None e.
  Proof.
    intros nl p tns' fs value tn value1 e Hobj Htn Hobj1 Htn1 Hsk1 Hfr1.
    split; [reflexivity|]. split; [exact Hobj1|]. split; [congruence|]. split; [exact Hsk1|].
    split; [exact Hfr1|].
    destruct (nl && match p with [] => false | _ => true end); auto.
  Qed.

  Lemma fields_ok : forall nl p path' tns' depth fs,
    Forall (fun f => refines (fval f)) fs ->
    fields_wf depth fs = true -> distinct_paths (fpaths fs) = true ->
    forall value tn, typename_of value = tn -> (exists m, value = JObj m) ->
    forall value' errs s r errs',
      pw_fields deny nl p path' tns' fs value = (value', errs, s) ->
      comp_fields deny value path' tns' tn fs = (r, errs') ->
      fields_post nl p tns' fs value tn value' errs s r errs'.
  Proof.
    intros nl p path' tns' depth fs. induction fs as [|[name on pon auth child] rest IH];
      intros HF Hwf Hdist value tn Htn Hobj value' errs s r errs' Hp Hc.
    - simpl in Hp, Hc. inversion Hp; inversion Hc; subst.
      split; [reflexivity|]. split; [exact Hobj|]. split; [reflexivity|]. split; [reflexivity|].
      split; [reflexivity|]. exists []. split; [reflexivity|]. intros fin c _. reflexivity.
    - pose proof (Forall_inv HF) as Hchild. cbn [fval] in Hchild. pose proof (Forall_inv_tail HF) as HFrest.
      pose proof Hwf as Hwf0.
      change (field_wf depth (Fld name on pon auth child) && fields_wf depth rest = true) in Hwf.
      apply andb_true_iff in Hwf. destruct Hwf as [Hfw Hwfrest].
      pose proof (distinct_fpaths_tail _ _ Hdist) as Hdrest.
      destruct (field_wf_parts depth name on pon auth child Hfw) as (Hname & Hauthwf & Hoawf & Hcw).
      rewrite pw_fields_cons in Hp. rewrite comp_fields_cons in Hc.
      destruct (skip_field on pon tns') eqn:Hskip.
      { apply fields_post_skip; [exact Hskip|]. eapply IH; eauto. }
      rewrite denied_same, Htn in Hp.
      (* continuing with the remaining fields from a value that differs at this field's key only *)
      assert (forall value1 t e v2 e2 s2 r2 e2',
                 step_frame child value value1 ->
                 (forall fin, (has_path_kind child = true ->
                               get_path (node_path child) fin = get_path (node_path child) value1) ->
                              render child fin tns' false = (marshal t, false)) ->
                 pw_fields deny nl p path' tns' rest value1 = (v2, e2, s2) ->
                 comp_fields deny value path' tns' tn rest = (r2, e2') ->
                 fields_post nl p tns' (Fld name on pon auth child :: rest) value tn v2 (e ++ e2) s2
                   (match r2 with Some l => Some ((name, t) :: l) | None => None end) (e ++ e2')) as Hcont.
      { intros value1 t e v2 e2 s2 r2 e2' Hstep Hrd Hp2 Hc2.
        destruct (step_frame_props _ _ _ Hstep Hobj) as (Hobj1 & Htn1 & Hsk1 & Hget1).
        eapply fields_step; eauto.
        eapply IH; eauto; [congruence|].
        rewrite <- Hc2. apply comp_fields_ext with (depth := depth); auto.
        intros q Hq. apply Hget1. intros Hk Heq. rewrite Heq in Hq.
        exact (distinct_fpaths_head _ _ _ _ _ _ Hdist Hk Hq). }
      destruct (sp_denied deny auth tn) eqn:Hden.
      + assert (auth <> None) as Hauth by (destruct auth; [discriminate | discriminate Hden]).
        destruct (Hauthwf Hauth) as [Hk Hkey].
        destruct (plan_wf_path false _ _ Hcw Hk) as [k Hpk].
        destruct (node_nullable child) eqn:Hnl.
        * destruct (pw_fields deny nl p path' tns' rest (pw_null_child child value)) as [[v2 e2] s2] eqn:Hp2.
          destruct (comp_fields deny value path' tns' tn rest) as [r2 e2'] eqn:Hc2.
          cbv zeta in Hp, Hc. inversion Hp; inversion Hc; subst value' errs s r errs'.
          assert (step_frame child value (pw_null_child child value) /\
                  is_null_or_missing (get_path [k] (pw_null_child child value)) = true) as [Hstep Hnull].
          { unfold pw_null_child. rewrite Hpk. destruct (get_path [k] value) as [x|] eqn:Hg.
            - split.
              + right. split; [exact Hk|]. exists k. split; [exact Hpk|]. split; [apply Hkey; exact Hpk|].
                eapply mutk_set; eauto.
              + erewrite mutk_get_same by eauto. reflexivity.
            - split; [left; reflexivity | rewrite Hg; reflexivity]. }
          eapply (Hcont _ JNull [{| ge_kind := EK_UNAUTHORIZED; ge_path := push_names path' (node_path child) |}]); eauto.
          intros fin Hfin. apply render_nullish; auto. rewrite (Hfin Hk), Hpk. exact Hnull.
        * cbv zeta in Hp, Hc.
          assert ((value', errs, s) = (value, [{| ge_kind := EK_UNAUTHORIZED; ge_path := push_names path' (node_path child) |}],
                   Some (if nl && match p with [] => false | _ => true end then (true, WOk) else (false, WErr)))) as Hp'.
          { rewrite <- Hp. destruct (nl && match p with [] => false | _ => true end); reflexivity. }
          inversion Hp'; inversion Hc; subst value' errs s r errs'.
          apply fields_post_stop; auto.
      + destruct (prewalk deny child value path' tns') as [[value1 e] s0] eqn:Hpw.
        destruct (complete deny child value path' tns') as [res0 e0] eqn:Hcp.
        destruct (Hchild false (S depth) Hcw _ _ _ _ _ _ _ _ Hpw Hcp) as (He & Hnp & Herr & Hok & Hfr).
        subst e0.
        assert (step_frame child value value1) as Hstep.
        { destruct (Hfr eq_refl) as [-> | [Hoa [k [Hpk Hm]]]]; [left; reflexivity|].
          right. split; [destruct child; try discriminate; reflexivity|].
          exists k. split; [exact Hpk|]. split; [apply Hoawf; auto | exact Hm]. }
        destruct s0.
        * destruct (Hok eq_refl) as (t & -> & Hrd).
          destruct (pw_fields deny nl p path' tns' rest value1) as [[v2 e2] s2] eqn:Hp2.
          destruct (comp_fields deny value path' tns' tn rest) as [r2 e2'] eqn:Hc2.
          inversion Hp; inversion Hc; subst value' errs s r errs'.
          eapply Hcont; eauto.
          intros fin Hfin. rewrite <- Hrd. apply render_ext. exact Hfin.
        * rewrite (Herr eq_refl) in Hc.
          assert ((value', errs, s) = (value1, e,
                   Some (if nl && match p with [] => false | _ => true end then (true, WOk) else (false, WErr)))) as Hp'.
          { rewrite <- Hp. destruct (nl && match p with [] => false | _ => true end); reflexivity. }
          inversion Hp'; inversion Hc; subst value' errs s r errs'.
          destruct (step_frame_props _ _ _ Hstep Hobj) as (Hobj1 & Htn1 & Hsk1 & Hget1).
          apply fields_post_stop; auto.
          intros q Hq. apply Hget1. intros Hk Heq. apply Hq. rewrite fpaths_cons, Hk, Heq. left. reflexivity.
        * congruence.
  Qed.
End Refine.
