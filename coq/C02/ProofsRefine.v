(* C02 proofs, part 3: the pre-walk followed by the print walk refines the one-pass completion. *)
From Coq Require Import Lia ZifyN ZifyBool.
From Gv Require Import lib.Bytes lib.Json C02.Model C02.Spec C02.ProofsBase C02.ProofsPaths C02.ProofsExt.
Open Scope N_scope.

Lemma key_bytes : forall (c : bool) name x rest, no_special name = true ->
  ((if c then [44] else []) ++ 34 :: name ++ [34; 58]) ++ x ++ rest =
  (if c then [44] else []) ++ escape_string name ++ 58 :: x ++ rest.
Proof.
  intros c name x rest H. rewrite escape_string_plain by exact H.
  rewrite <- !app_assoc. f_equal. simpl. f_equal. rewrite <- !app_assoc. reflexivity.
Qed.

Lemma frpaths_incl : forall f rest, incl (frpaths rest) (frpaths (f :: rest)).
Proof. intros [name on pon auth child] rest x H. rewrite frpaths_cons. apply in_or_app. right. exact H. Qed.
Lemma frpaths_incl_head : forall name on pon auth child rest,
  incl (rpaths child) (frpaths (Fld name on pon auth child :: rest)).
Proof. intros name on pon auth child rest x H. rewrite frpaths_cons. apply in_or_app. left. exact H. Qed.

(* an object or list in field position is not read through the key "__typename" *)
Definition tn_ok (n : node) : Prop :=
  match n with
  | NObj p _ _ _ _ _ _ | NArr p _ _ => head_not_typename p = true
  | _ => True
  end.

(* what the pre-walk of a field value may do to the value of the enclosing object *)
Definition frame (n : node) (parent parent' : json) : Prop :=
  (exists m, parent = JObj m) -> tn_ok n -> rewrites (rpaths n) parent parent'.

Lemma head_not_typename_cons : forall k r, head_not_typename (k :: r) = true -> k <> typename_key.
Proof. intros k r H. cbn [head_not_typename] in H. apply negb_true_iff in H. apply bytes_eqb_neq. exact H. Qed.

Section Refine.
  Variable deny : bytes -> bytes -> bool.

  Definition refines (n : node) : Prop :=
    forall depth, plan_wf depth n = true ->
    forall parent path tns parent' errs st res errs',
      prewalk deny n parent path tns = (parent', errs, st) ->
      complete deny n parent path tns = (res, errs') ->
      errs = errs' /\ st <> WPanic /\ (st = WErr -> res = None) /\
      (st = WOk -> exists t, res = Some t /\ render n parent' tns false = (marshal t, false)) /\
      frame n parent parent'.

  (* ---- unfolding equations for the loops ---- *)
  Lemma pw_items_cons : forall item path' tns it rest i,
    pw_items deny item path' tns (it :: rest) i =
      let '(it', e, s) := prewalk deny item it (path' ++ [PIdx i]) tns in
      match s with
      | WPanic => (it' :: rest, e, Some WPanic)
      | WErr =>
        if absorbs_item_error item then
          let '(rest', e2, s2) := pw_items deny item path' tns rest (i + 1) in (JNull :: rest', e ++ e2, s2)
        else (it' :: rest, e, Some WErr)
      | WOk =>
        let '(rest', e2, s2) := pw_items deny item path' tns rest (i + 1) in (it' :: rest', e ++ e2, s2)
      end.
  Proof. reflexivity. Qed.
  Lemma comp_items_cons : forall item path' tns it rest i,
    comp_items deny item path' tns (it :: rest) i =
      match complete deny item it (path' ++ [PIdx i]) tns with
      | (Some t, e) =>
        let '(r, e2) := comp_items deny item path' tns rest (i + 1) in
        (match r with Some l => Some (t :: l) | None => None end, e ++ e2)
      | (None, e) =>
        if absorbs_item_error item then
          let '(r, e2) := comp_items deny item path' tns rest (i + 1) in
          (match r with Some l => Some (JNull :: l) | None => None end, e ++ e2)
        else (None, e)
      end.
  Proof. reflexivity. Qed.
  Lemma rd_items_cons : forall item nl p tns it rest first,
    rd_items item nl p tns (it :: rest) first =
      let '(b, err) := render item it tns false in
      if err then
        if absorbs_item_error item then
          let '(b2, s2) := rd_items item nl p tns rest false in (sep first ++ b ++ b2, s2)
        else (sep first ++ b, Some (nl && negb (match p with [] => true | _ => false end)))
      else let '(b2, s2) := rd_items item nl p tns rest false in (sep first ++ b ++ b2, s2).
  Proof. reflexivity. Qed.

  Lemma items_ok : forall item nl p path' tns depth,
    refines item -> plan_wf depth item = true ->
    forall items i items' errs s r errs',
      pw_items deny item path' tns items i = (items', errs, s) ->
      comp_items deny item path' tns items i = (r, errs') ->
      errs = errs' /\
      match s with
      | None => exists l, r = Some l /\
                forall first, rd_items item nl p tns items' first = (items_bytes first l, None)
      | Some st => r = None /\ st = WErr
      end.
  Proof.
    intros item nl p path' tns depth Hitem Hwf.
    induction items as [|it rest IH]; intros i items' errs s r errs' Hp Hc.
    - simpl in Hp, Hc. inversion Hp; inversion Hc; subst. split; [reflexivity|].
      exists []. split; [reflexivity|]. intros first. reflexivity.
    - rewrite pw_items_cons in Hp. rewrite comp_items_cons in Hc.
      destruct (prewalk deny item it (path' ++ [PIdx i]) tns) as [[it' e] s0] eqn:Hpw.
      destruct (complete deny item it (path' ++ [PIdx i]) tns) as [res0 e0] eqn:Hcp.
      destruct (Hitem depth Hwf _ _ _ _ _ _ _ _ Hpw Hcp) as (He & Hnp & Herr & Hok & _).
      subst e0.
      destruct (pw_items deny item path' tns rest (i + 1)) as [[rest' e2] s2] eqn:Hpr.
      destruct (comp_items deny item path' tns rest (i + 1)) as [r2 e2'] eqn:Hcr.
      destruct (IH _ _ _ _ _ _ Hpr Hcr) as (He2 & Hs2). subst e2'.
      destruct s0.
      + destruct (Hok eq_refl) as (t & -> & Hrd).
        inversion Hp; inversion Hc; subst. split; [reflexivity|].
        destruct s.
        * destruct Hs2 as (-> & ->). auto.
        * destruct Hs2 as (l & -> & Hrest). exists (t :: l). split; [reflexivity|].
          intros first. rewrite rd_items_cons, Hrd, Hrest. reflexivity.
      + rewrite (Herr eq_refl) in Hc.
        destruct (absorbs_item_error item) eqn:Habs.
        * inversion Hp; inversion Hc; subst. split; [reflexivity|].
          destruct s.
          -- destruct Hs2 as (-> & ->). auto.
          -- destruct Hs2 as (l & -> & Hrest). exists (JNull :: l). split; [reflexivity|].
             intros first. rewrite rd_items_cons.
             assert (render item JNull tns false = (b_null, false)) as Hrd.
             { unfold absorbs_item_error in Habs. apply andb_true_iff in Habs. destruct Habs as [Hoa Hnl].
               assert (has_path_kind item = true) as Hk by (destruct item; try discriminate; reflexivity).
               apply render_nullish; auto. apply get_path_null. }
             rewrite Hrd, Hrest. reflexivity.
        * inversion Hp; inversion Hc; subst. auto.
      + congruence.
  Qed.

  (* ---- fields ---- *)
  Lemma pw_fields_cons : forall nl p path' tns' name on parent_on auth child rest value,
    pw_fields deny nl p path' tns' (Fld name on parent_on auth child :: rest) value =
      if skip_field on parent_on tns' then pw_fields deny nl p path' tns' rest value
      else
        if pw_denied deny auth value then
          let e := [{| ge_kind := EK_UNAUTHORIZED; ge_path := push_names path' (node_path child) |}] in
          if node_nullable child then
            match node_path child with
            | [] => (value, e, Some (false, WPanic))
            | cp => let '(v2, e2, s2) := pw_fields deny nl p path' tns' rest (pw_null_at cp value) in (v2, e ++ e2, s2)
            end
          else if nl && (match p with [] => false | _ => true end) then (value, e, Some (true, WOk))
          else (value, e, Some (false, WErr))
        else
        let '(value', e, s) := prewalk deny child value path' tns' in
        match s with
        | WPanic => (value', e, Some (false, WPanic))
        | WErr =>
          if nl && (match p with [] => false | _ => true end) then (value', e, Some (true, WOk))
          else (value', e, Some (false, WErr))
        | WOk => let '(v2, e2, s2) := pw_fields deny nl p path' tns' rest value' in (v2, e ++ e2, s2)
        end.
  Proof. reflexivity. Qed.
  Lemma comp_fields_cons : forall value path' tns' tn name on parent_on auth child rest,
    comp_fields deny value path' tns' tn (Fld name on parent_on auth child :: rest) =
      if skip_field on parent_on tns' then comp_fields deny value path' tns' tn rest
      else
        if sp_denied deny auth tn then
          let e := [{| ge_kind := EK_UNAUTHORIZED; ge_path := push_names path' (node_path child) |}] in
          if node_nullable child then
            let '(r, e2) := comp_fields deny value path' tns' tn rest in
            (match r with Some l => Some ((name, JNull) :: l) | None => None end, e ++ e2)
          else (None, e)
        else
          match complete deny child value path' tns' with
          | (Some t, e) =>
            let '(r, e2) := comp_fields deny value path' tns' tn rest in
            (match r with Some l => Some ((name, t) :: l) | None => None end, e ++ e2)
          | (None, e) => (None, e)
          end.
  Proof. reflexivity. Qed.
  Lemma rd_fields_cons : forall nl value tns' name on parent_on auth child rest c,
    rd_fields nl value tns' (Fld name on parent_on auth child :: rest) c =
      if skip_field on parent_on tns' then rd_fields nl value tns' rest c
      else
        let key := (if c then [44] else []) ++ 34 :: name ++ [34; 58] in
        let '(b, err) := render child value tns' false in
        if err then
          if nl then let '(b2, e2) := rd_fields nl value tns' rest true in (key ++ b ++ b_null ++ b2, e2)
          else (key ++ b ++ b_null, true)
        else let '(b2, e2) := rd_fields nl value tns' rest true in (key ++ b ++ b2, e2).
  Proof. reflexivity. Qed.

  Lemma denied_same : forall auth value, pw_denied deny auth value = sp_denied deny auth (typename_of value).
  Proof. intros [a|] value; reflexivity. Qed.

  (* the completion of the remaining fields does not see what one field's pre-walk wrote *)
  Lemma comp_fields_frame : forall path' tns' tn fs ws a b,
    rewrites ws a b -> (exists m, a = JObj m) ->
    (forall w q, In w ws -> In q (frpaths fs) -> comparable w q = false) ->
    comp_fields deny b path' tns' tn fs = comp_fields deny a path' tns' tn fs.
  Proof.
    intros path' tns' tn fs ws a b Hrw Hobj Hcross.
    apply comp_fields_ext.
    - apply Forall_forall. intros f _. apply complete_ext_gen.
    - eapply rewrites_same_head; eauto.
    - intros q Hq.
      assert (forall w, In w ws -> comparable q w = false) as Hqw.
      { intros w Hw. rewrite comparable_sym. apply Hcross; auto. }
      split; [eapply rewrites_get; eauto | intros pth; eapply rewrites_nonnull; eauto].
  Qed.

  Lemma field_wf_parts : forall depth name on pon auth child,
    field_wf depth (Fld name on pon auth child) = true ->
    no_special name = true /\
    (auth <> None -> has_path_kind child = true /\
                     exists k r, node_path child = k :: r /\ k <> typename_key) /\
    tn_ok child /\
    plan_wf (S depth) child = true.
  Proof.
    intros depth name on pon auth child H. unfold field_wf in H.
    apply andb_true_iff in H. destruct H as [H H5].
    apply andb_true_iff in H. destruct H as [H H4].
    apply andb_true_iff in H. destruct H as [H H3].
    apply andb_true_iff in H. destruct H as [H1 H2].
    split; [exact H1|]. split; [|split; [|exact H5]].
    - intros Ha. destruct auth as [a|]; [|congruence].
      apply andb_true_iff in H3. destruct H3 as [H3 Hn].
      apply andb_true_iff in H3. destruct H3 as [Hk Hne]. split; [exact Hk|].
      destruct (node_path child) as [|k r]; [discriminate Hne|].
      exists k, r. split; [reflexivity|]. eapply head_not_typename_cons; eauto.
    - destruct child; cbn [tn_ok]; auto.
  Qed.

  Definition fields_post (nl : bool) (p : list bytes) (tns' : list (option bytes)) (fs : list field)
             (value value' : json) (errs : list gerr)
             (s : option (bool * wstatus)) (r : option (list (bytes * json))) (errs' : list gerr) : Prop :=
    errs = errs' /\
    rewrites (frpaths fs) value value' /\
    match s with
    | None => exists l, r = Some l /\
              forall fin c, same_head fin value' ->
                 (forall q, In q (frpaths fs) -> get_path q fin = get_path q value') ->
                 rd_fields nl fin tns' fs c = (members_bytes c l, false)
    | Some (nulled, st) =>
      r = None /\ nulled = (nl && match p with [] => false | _ => true end) /\ st = (if nulled then WOk else WErr)
    end.

  Lemma fields_step : forall nl p tns' depth name on pon auth child rest value value1 t e,
    skip_field on pon tns' = false ->
    field_wf depth (Fld name on pon auth child) = true ->
    (forall w q, In w (rpaths child) -> In q (frpaths rest) -> comparable w q = false) ->
    (exists m, value = JObj m) ->
    rewrites (rpaths child) value value1 ->
    (forall fin, same_head fin value1 ->
                 (forall q, In q (rpaths child) -> get_path q fin = get_path q value1) ->
                 render child fin tns' false = (marshal t, false)) ->
    forall v2 e2 s2 r2 e2',
      fields_post nl p tns' rest value1 v2 e2 s2 r2 e2' ->
      fields_post nl p tns' (Fld name on pon auth child :: rest) value v2 (e ++ e2) s2
                  (match r2 with Some l => Some ((name, t) :: l) | None => None end) (e ++ e2').
  Proof.
    intros nl p tns' depth name on pon auth child rest value value1 t e Hskip Hfw Hcross Hobj Hstep Hrd
           v2 e2 s2 r2 e2' (He & Hrw2 & Hs2).
    destruct (field_wf_parts _ _ _ _ _ _ Hfw) as (Hname & _ & _ & Hcw).
    assert (exists m1, value1 = JObj m1) as Hobj1 by (eapply rewrites_obj; eauto).
    split; [subst; reflexivity|]. split.
    - eapply rewrites_trans.
      + eapply rewrites_mono; [apply frpaths_incl_head | exact Hstep].
      + eapply rewrites_mono; [apply frpaths_incl | exact Hrw2].
    - destruct s2 as [[nulled st]|].
      + destruct Hs2 as (-> & Hn & Hst). auto.
      + destruct Hs2 as (l & -> & Hrest). exists ((name, t) :: l). split; [reflexivity|].
        intros fin c Hhead Hagree. rewrite rd_fields_cons, Hskip. cbv zeta.
        rewrite Hrd.
        * rewrite Hrest.
          -- cbn [members_bytes]. rewrite key_bytes by exact Hname. reflexivity.
          -- exact Hhead.
          -- intros q Hq. apply Hagree. apply frpaths_incl. exact Hq.
        * eapply same_head_trans; [exact Hhead|]. eapply rewrites_same_head; eauto.
        * intros q Hq. rewrite (Hagree q) by (apply frpaths_incl_head; exact Hq).
          eapply rewrites_get; eauto.
  Qed.

  Lemma fields_post_skip : forall nl p tns' name on pon auth child rest value v2 e2 s2 r2 e2',
    skip_field on pon tns' = true ->
    fields_post nl p tns' rest value v2 e2 s2 r2 e2' ->
    fields_post nl p tns' (Fld name on pon auth child :: rest) value v2 e2 s2 r2 e2'.
  Proof.
    intros nl p tns' name on pon auth child rest value v2 e2 s2 r2 e2' Hskip (He & Hrw2 & Hs2).
    split; [exact He|]. split.
    - eapply rewrites_mono; [apply frpaths_incl | exact Hrw2].
    - destruct s2 as [[nulled st]|]; [exact Hs2|].
      destruct Hs2 as (l & -> & Hrest). exists l. split; [reflexivity|].
      intros fin c Hhead Hagree. rewrite rd_fields_cons, Hskip. apply Hrest; auto.
      intros q Hq. apply Hagree. apply frpaths_incl. exact Hq.
  Qed.

  Lemma fields_post_stop : forall nl p tns' fs value value1 e,
    rewrites (frpaths fs) value value1 ->
    fields_post nl p tns' fs value value1 e
      (Some (if nl && match p with [] => false | _ => true end then (true, WOk) else (false, WErr))) None e.
  Proof.
    intros nl p tns' fs value value1 e Hrw.
    split; [reflexivity|]. split; [exact Hrw|].
    destruct (nl && match p with [] => false | _ => true end); auto.
  Qed.

  Lemma fields_ok : forall nl p path' tns' depth fs,
    Forall (fun f => refines (fval f)) fs ->
    fields_wf depth fs = true -> incomparable_all (frpaths fs) = true ->
    forall value tn, typename_of value = tn -> (exists m, value = JObj m) ->
    forall value' errs s r errs',
      pw_fields deny nl p path' tns' fs value = (value', errs, s) ->
      comp_fields deny value path' tns' tn fs = (r, errs') ->
      fields_post nl p tns' fs value value' errs s r errs'.
  Proof.
    intros nl p path' tns' depth fs. induction fs as [|[name on pon auth child] rest IH];
      intros HF Hwf Hdist value tn Htn Hobj value' errs s r errs' Hp Hc.
    - simpl in Hp, Hc. inversion Hp; inversion Hc; subst.
      split; [reflexivity|]. split; [apply rw_refl|].
      exists []. split; [reflexivity|]. intros fin c _ _. reflexivity.
    - pose proof (Forall_inv HF) as Hchild. cbn [fval] in Hchild. pose proof (Forall_inv_tail HF) as HFrest.
      change (field_wf depth (Fld name on pon auth child) && fields_wf depth rest = true) in Hwf.
      apply andb_true_iff in Hwf. destruct Hwf as [Hfw Hwfrest].
      rewrite frpaths_cons in Hdist.
      destruct (incomparable_all_app _ _ Hdist) as (_ & Hdrest & Hcross).
      destruct (field_wf_parts depth name on pon auth child Hfw) as (Hname & Hauthwf & Htnok & Hcw).
      rewrite pw_fields_cons in Hp. rewrite comp_fields_cons in Hc.
      destruct (skip_field on pon tns') eqn:Hskip.
      { apply fields_post_skip; [exact Hskip|]. eapply IH; eauto. }
      rewrite denied_same, Htn in Hp.
      (* continuing with the remaining fields from a value rewritten below this field's paths only *)
      assert (forall value1 t e v2 e2 s2 r2 e2',
                 rewrites (rpaths child) value value1 ->
                 (forall fin, same_head fin value1 ->
                              (forall q, In q (rpaths child) -> get_path q fin = get_path q value1) ->
                              render child fin tns' false = (marshal t, false)) ->
                 pw_fields deny nl p path' tns' rest value1 = (v2, e2, s2) ->
                 comp_fields deny value path' tns' tn rest = (r2, e2') ->
                 fields_post nl p tns' (Fld name on pon auth child :: rest) value v2 (e ++ e2) s2
                   (match r2 with Some l => Some ((name, t) :: l) | None => None end) (e ++ e2')) as Hcont.
      { intros value1 t e v2 e2 s2 r2 e2' Hstep Hrd Hp2 Hc2.
        eapply fields_step; eauto.
        assert (typename_of value1 = tn) as Htn1 by (rewrite (rewrites_typename _ _ _ Hstep); exact Htn).
        assert (exists m1, value1 = JObj m1) as Hobj1 by (eapply rewrites_obj; eauto).
        apply (IH HFrest Hwfrest Hdrest value1 tn Htn1 Hobj1 _ _ _ _ _ Hp2).
        rewrite <- Hc2. eapply comp_fields_frame; eauto. }
      destruct (sp_denied deny auth tn) eqn:Hden.
      + assert (auth <> None) as Hauth by (destruct auth; [discriminate | discriminate Hden]).
        destruct (Hauthwf Hauth) as (Hk & k & pr & Hpk & Hkne).
        assert (rpaths child = [k :: pr]) as Hrp.
        { rewrite <- Hpk. apply rpaths_own; auto. rewrite Hpk. discriminate. }
        destruct (node_nullable child) eqn:Hnl.
        * rewrite Hpk in Hp.
          destruct (pw_fields deny nl p path' tns' rest (pw_null_at (k :: pr) value)) as [[v2 e2] s2] eqn:Hp2.
          destruct (comp_fields deny value path' tns' tn rest) as [r2 e2'] eqn:Hc2.
          cbv zeta in Hp, Hc. inversion Hp; inversion Hc; subst value' errs s r errs'.
          assert (rewrites (rpaths child) value (pw_null_at (k :: pr) value) /\
                  is_null_or_missing (get_path (k :: pr) (pw_null_at (k :: pr) value)) = true) as [Hstep Hnull].
          { unfold pw_null_at. destruct (get_path (k :: pr) value) as [x|] eqn:Hg.
            - split.
              + apply rewrites_one; [rewrite Hrp; left; reflexivity | exact Hkne | congruence].
              + rewrite get_set_same by congruence. reflexivity.
            - split; [apply rw_refl | rewrite Hg; reflexivity]. }
          rewrite <- Hpk.
          eapply (Hcont _ JNull [{| ge_kind := EK_UNAUTHORIZED; ge_path := push_names path' (node_path child) |}]); eauto.
          intros fin _ Hfin. apply render_nullish; auto.
          rewrite Hpk, (Hfin (k :: pr)) by (rewrite Hrp; left; reflexivity). exact Hnull.
        * cbv zeta in Hp, Hc.
          assert ((value', errs, s) = (value, [{| ge_kind := EK_UNAUTHORIZED; ge_path := push_names path' (node_path child) |}],
                   Some (if nl && match p with [] => false | _ => true end then (true, WOk) else (false, WErr)))) as Hp'.
          { rewrite <- Hp. destruct (nl && match p with [] => false | _ => true end); reflexivity. }
          inversion Hp'; inversion Hc; subst value' errs s r errs'.
          apply fields_post_stop. apply rw_refl.
      + destruct (prewalk deny child value path' tns') as [[value1 e] s0] eqn:Hpw.
        destruct (complete deny child value path' tns') as [res0 e0] eqn:Hcp.
        destruct (Hchild (S depth) Hcw _ _ _ _ _ _ _ _ Hpw Hcp) as (He & Hnp & Herr & Hok & Hfr).
        subst e0.
        pose proof (Hfr Hobj Htnok) as Hstep.
        destruct s0.
        * destruct (Hok eq_refl) as (t & -> & Hrd).
          destruct (pw_fields deny nl p path' tns' rest value1) as [[v2 e2] s2] eqn:Hp2.
          destruct (comp_fields deny value path' tns' tn rest) as [r2 e2'] eqn:Hc2.
          inversion Hp; inversion Hc; subst value' errs s r errs'.
          eapply Hcont; eauto.
          intros fin Hhead Hfin. rewrite <- Hrd. apply render_ext_gen; auto.
        * rewrite (Herr eq_refl) in Hc.
          assert ((value', errs, s) = (value1, e,
                   Some (if nl && match p with [] => false | _ => true end then (true, WOk) else (false, WErr)))) as Hp'.
          { rewrite <- Hp. destruct (nl && match p with [] => false | _ => true end); reflexivity. }
          inversion Hp'; inversion Hc; subst value' errs s r errs'.
          apply fields_post_stop.
          eapply rewrites_mono; [apply frpaths_incl_head | exact Hstep].
        * congruence.
  Qed.
End Refine.
