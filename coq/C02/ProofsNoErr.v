(* C02 proofs, part 7: without authorization and without "__skipErrors" keys in the data, an
   empty error list means the data is well-typed. *)
From Coq Require Import Lia ZifyN ZifyBool.
From Gv Require Import lib.Bytes lib.Json C02.Model C02.Spec C02.ProofsBase C02.ProofsPaths C02.ProofsExt C02.ProofsRefine
     C02.ProofsWelltyped.
Open Scope N_scope.

(* ---- "__skipErrors" nowhere ---- *)
Definition nse_items :=
  fix go (l : list json) : bool :=
    match l with [] => true | x :: r => no_skip_errors x && go r end.
Definition nse_members :=
  fix go (l : list (bytes * json)) : bool :=
    match l with
    | [] => true
    | (k, v) :: r => negb (bytes_eqb k skip_errors_key) && no_skip_errors v && go r
    end.
Lemma nse_arr_eq : forall l, no_skip_errors (JArr l) = nse_items l.
Proof. reflexivity. Qed.
Lemma nse_obj_eq : forall m, no_skip_errors (JObj m) = nse_members m.
Proof. reflexivity. Qed.

Lemma nse_members_get : forall m k v, nse_members m = true -> obj_get k m = Some v -> no_skip_errors v = true.
Proof.
  induction m as [|[k' v'] r IH]; intros k v H Hg; [discriminate Hg|].
  cbn [nse_members] in H. apply andb_true_iff in H. destruct H as [H Hr].
  apply andb_true_iff in H. destruct H as [_ Hv].
  cbn [obj_get] in Hg. destruct (bytes_eqb k k'); [injection Hg as <-; exact Hv | eauto].
Qed.
Lemma nse_members_noskip : forall m, nse_members m = true -> obj_get skip_errors_key m = None.
Proof.
  induction m as [|[k' v'] r IH]; intros H; [reflexivity|].
  cbn [nse_members] in H. apply andb_true_iff in H. destruct H as [H Hr].
  apply andb_true_iff in H. destruct H as [Hk _]. apply negb_true_iff in Hk.
  cbn [obj_get]. destruct (bytes_eqb skip_errors_key k') eqn:E; [|auto].
  apply bytes_eqb_eq in E. subst k'. rewrite bytes_eqb_refl in Hk. discriminate Hk.
Qed.
Lemma nse_get_path : forall p j v, no_skip_errors j = true -> get_path p j = Some v -> no_skip_errors v = true.
Proof.
  induction p as [|k r IH]; intros j v H Hg.
  - injection Hg as <-. exact H.
  - destruct j; try discriminate Hg. cbn [get_path] in Hg.
    destruct (obj_get k members) as [c|] eqn:Hc; [|discriminate Hg].
    rewrite nse_obj_eq in H. eapply IH; [|exact Hg]. eapply nse_members_get; eauto.
Qed.
Lemma nse_has_skip : forall j, no_skip_errors j = true -> has_skip_errors j = false.
Proof.
  intros j H. destruct j; try reflexivity. rewrite nse_obj_eq in H. unfold has_skip_errors.
  change [95;95;115;107;105;112;69;114;114;111;114;115] with skip_errors_key.
  rewrite (nse_members_noskip _ H). reflexivity.
Qed.

Lemma nonnull_error_nonempty : forall path p parent,
  no_skip_errors parent = true -> nonnull_error path p parent <> [].
Proof.
  intros path p parent H. rewrite nonnull_error_skip_at.
  destruct p as [|k r]; [discriminate|].
  unfold skip_at. destruct (get_path (removelast (k :: r)) parent) as [anc|] eqn:Hg; [|discriminate].
  rewrite (nse_has_skip anc) by (eapply nse_get_path; eauto). discriminate.
Qed.

(* ---- response paths of list items ---- *)
Definition item_path_ok (path : rpath) : bool :=
  match rev path with PIdx _ :: _ :: _ => true | _ => false end.
Lemma item_path_ok_snoc : forall q i, q <> [] -> item_path_ok (q ++ [PIdx i]) = true.
Proof.
  intros q i Hq. unfold item_path_ok. rewrite rev_app_distr. cbn [rev app].
  destruct (rev q) eqn:E; [|reflexivity].
  apply (f_equal (@rev pelem)) in E. rewrite rev_involutive in E. contradiction.
Qed.
Lemma item_path_ok_nonempty : forall path, item_path_ok path = true -> path <> [].
Proof. intros path H ->. discriminate H. Qed.

Lemma app_nil_both : forall (a b : list gerr), a ++ b = [] -> a = [] /\ b = [].
Proof. intros a b H. apply app_eq_nil in H. exact H. Qed.

(* the value a node is walked on is an object (a field value) or the response path ends in a list
   index below a named position (a list item) *)
Definition pos_ok (parent : json) (path : rpath) : Prop :=
  (exists m, parent = JObj m) \/ item_path_ok path = true.

(* ---- no error -> well-typed ---- *)
Definition noerr_wt (n : node) : Prop :=
  forall depth, plan_wf depth n = true ->
  forall parent path tns,
    (is_obj_node n = false -> pos_ok parent path) ->
    no_skip_errors parent = true ->
    snd (complete nd n parent path tns) = [] -> welltyped_b n parent tns = true.

Lemma scalar_noerr : forall path p nl kind accept parent,
  no_skip_errors parent = true ->
  snd (scalar_complete path p nl kind accept parent) = [] -> wt_scalar p nl accept parent = true.
Proof.
  intros path p nl kind accept parent Hn H. unfold scalar_complete, wt_scalar in *.
  pose proof (nonnull_error_nonempty path p parent Hn) as Hne.
  destruct (get_path p parent) as [x|]; [destruct x|];
    try (destruct nl; [reflexivity | cbn [snd] in H; contradiction]);
    match type of H with context [if ?c then _ else _] => destruct c end; auto; discriminate H.
Qed.

Lemma items_noerr : forall item path' tns depth,
  noerr_wt item -> plan_wf depth item = true -> path' <> [] ->
  forall items i, nse_items items = true ->
    snd (comp_items nd item path' tns items i) = [] -> wt_items item tns items = true.
Proof.
  intros item path' tns depth IH Hwf Hpne. induction items as [|it rest IHr]; intros i Hn H; [reflexivity|].
  cbn [nse_items] in Hn. apply andb_true_iff in Hn. destruct Hn as [Hn1 Hn2].
  rewrite comp_items_cons in H. cbn [wt_items].
  assert (snd (complete nd item it (path' ++ [PIdx i]) tns) = [] -> welltyped_b item it tns = true) as Hit.
  { apply (IH depth Hwf); auto. intros _. right. apply item_path_ok_snoc. exact Hpne. }
  destruct (complete nd item it (path' ++ [PIdx i]) tns) as [r0 e0] eqn:Hc. cbn [snd] in Hit.
  assert (e0 = [] /\ snd (comp_items nd item path' tns rest (i + 1)) = []) as [He0 Hrest].
  { destruct r0 as [t|].
    - destruct (comp_items nd item path' tns rest (i + 1)) as [r2 e2]. cbn [snd] in *. apply app_nil_both. exact H.
    - destruct (absorbs_item_error item).
      + destruct (comp_items nd item path' tns rest (i + 1)) as [r2 e2]. cbn [snd] in *. apply app_nil_both. exact H.
      + cbn [snd] in H. subst e0. specialize (Hit eq_refl).
        rewrite (wt_complete_all item it _ _ Hit) in Hc. discriminate Hc. }
  rewrite (Hit He0). cbn [andb]. eapply IHr; eauto.
Qed.

Lemma fields_noerr : forall m path' tns' tn depth fs,
  Forall (fun f => noerr_wt (fval f)) fs -> fields_wf depth fs = true ->
  no_skip_errors (JObj m) = true ->
  snd (comp_fields nd (JObj m) path' tns' tn fs) = [] -> wt_fields (JObj m) tns' fs = true.
Proof.
  intros m path' tns' tn depth fs. induction fs as [|[name on pon auth child] rest IHr];
    intros HF Hwf Hn H; [reflexivity|].
  pose proof (Forall_inv HF) as Hch. cbn [fval] in Hch. pose proof (Forall_inv_tail HF) as HFr.
  change (field_wf depth (Fld name on pon auth child) && fields_wf depth rest = true) in Hwf.
  apply andb_true_iff in Hwf. destruct Hwf as [Hfw Hwfr].
  destruct (field_wf_parts depth name on pon auth child Hfw) as (_ & _ & _ & Hcw).
  rewrite comp_fields_cons in H. cbn [wt_fields].
  destruct (skip_field on pon tns'); [cbn [andb]; auto|].
  rewrite sp_denied_nd in H.
  assert (snd (complete nd child (JObj m) path' tns') = [] -> welltyped_b child (JObj m) tns' = true) as Hc1.
  { apply (Hch (S depth) Hcw); auto. intros _. left. eauto. }
  destruct (complete nd child (JObj m) path' tns') as [r0 e0] eqn:Hc. cbn [snd] in Hc1.
  assert (e0 = [] /\ snd (comp_fields nd (JObj m) path' tns' tn rest) = []) as [He0 Hrest].
  { destruct r0 as [t|].
    - destruct (comp_fields nd (JObj m) path' tns' tn rest) as [r2 e2]. cbn [snd] in *. apply app_nil_both. exact H.
    - cbn [snd] in H. subst e0. specialize (Hc1 eq_refl).
      rewrite (wt_complete_all child (JObj m) _ _ Hc1) in Hc. discriminate Hc. }
  rewrite (Hc1 He0). cbn [andb]. auto.
Qed.

Theorem noerr_wt_all : forall n, noerr_wt n.
Proof.
  induction n using node_ind'; intros depth Hwf parent path tns Hpath Hn He.
  - rewrite plan_wf_obj_eq in Hwf. apply andb_true_iff in Hwf. destruct Hwf as [_ Hfwf].
    pose proof (nonnull_error_nonempty path p parent Hn) as Hne.
    rewrite complete_obj_eq in He. rewrite welltyped_obj_eq. cbv zeta in He.
    destruct unres; [discriminate He|]. cbn [negb andb].
    destruct (get_path p parent) as [x|] eqn:Hg; [destruct x|];
      try (destruct nl; [reflexivity | cbn [snd] in He; contradiction]);
      try discriminate He.
    destruct (tn_bad ty poss (typename_of (JObj members))) eqn:Htb; [discriminate He|]. cbn [negb andb].
    apply (fields_noerr members (push_names path p) (typename_of (JObj members) :: tns)
                        (typename_of (JObj members)) depth fields H Hfwf).
    + eapply nse_get_path; eauto.
    + destruct (comp_fields nd (JObj members) (push_names path p) (typename_of (JObj members) :: tns)
                            (typename_of (JObj members)) fields) as [[l|] e]; exact He.
  - rewrite plan_wf_arr_eq in Hwf.
    pose proof (nonnull_error_nonempty path p parent Hn) as Hne.
    rewrite complete_arr_eq in He. rewrite welltyped_arr_eq.
    destruct (get_path p parent) as [x|] eqn:Hg; [destruct x|];
      try (destruct nl; [reflexivity | cbn [snd] in He; contradiction]);
      try discriminate He.
    assert (push_names path p <> []) as Hpne.
    { unfold push_names. destruct p as [|k r].
      - cbn [map]. rewrite app_nil_r. cbn [get_path] in Hg. injection Hg as ->.
        destruct (Hpath eq_refl) as [[m Hm]|Hok]; [discriminate Hm|].
        apply item_path_ok_nonempty. exact Hok.
      - cbn [map]. intros E. apply app_eq_nil in E. destruct E; discriminate. }
    apply (items_noerr n (push_names path p) tns depth IHn Hwf Hpne items 0).
    + pose proof (nse_get_path _ _ _ Hn Hg) as Hni. rewrite nse_arr_eq in Hni. exact Hni.
    + destruct (comp_items nd n (push_names path p) tns items 0) as [[l|] e]; exact He.
  - cbn [complete] in He. cbn [welltyped_b]. eapply scalar_noerr; eauto.
  - cbn [complete] in He. cbn [welltyped_b]. eapply scalar_noerr; eauto.
  - cbn [complete] in He. cbn [welltyped_b]. eapply scalar_noerr; eauto.
  - cbn [complete] in He. cbn [welltyped_b]. eapply scalar_noerr; eauto.
  - cbn [complete] in He. cbn [welltyped_b]. eapply scalar_noerr; eauto.
  - cbn [complete] in He. cbn [welltyped_b]. eapply scalar_noerr; eauto.
  - pose proof (nonnull_error_nonempty path p parent Hn) as Hne.
    cbn [complete] in He. cbn [welltyped_b].
    destruct (get_path p parent) as [x|] eqn:Hg; [destruct x|];
      try (destruct nl; [reflexivity | cbn [snd] in He; contradiction]);
      try discriminate He.
    destruct (mem_bytes s vs) eqn:Hv; cbn [negb] in He; [|discriminate He].
    destruct (mem_bytes s inacc) eqn:Hi; [|reflexivity].
    exfalso. cbn [snd] in He.
    destruct p as [|k r].
    + cbn [get_path] in Hg. injection Hg as ->.
      destruct (Hpath eq_refl) as [[m Hm]|Hok]; [discriminate Hm|].
      unfold item_path_ok in Hok.
      destruct (rev path) as [|[nm|ix] [|y r]]; try discriminate Hok. discriminate He.
    + destruct (rev path) as [|[nm|ix] [|y r']]; discriminate He.
  - reflexivity.
  - reflexivity.
  - reflexivity.
  - reflexivity.
Qed.

Theorem errors_iff_not_welltyped_lemma : forall root data,
  root_wf root = true -> no_skip_errors data = true ->
  (snd (complete_root (fun _ _ => false) root data) = [] <-> welltyped_b root data [] = true).
Proof.
  intros root data Hwf Hn. split.
  - intros He. destruct root; try discriminate Hwf.
    assert (plan_wf 0 (NObj path nullable tyname possible inaccessible unresolvable fields) = true) as Hp.
    { unfold root_wf in Hwf. destruct path; [|discriminate Hwf]. destruct nullable; [discriminate Hwf|].
      destruct unresolvable; [discriminate Hwf|]. exact Hwf. }
    apply (noerr_wt_all _ 0%nat Hp data [] []); auto; intros Hf; discriminate Hf.
  - intros Hw. rewrite (welltyped_projection_lemma root data Hwf Hw). reflexivity.
Qed.
