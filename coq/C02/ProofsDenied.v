(* C02 proofs, part 8: a denied field is null in the completion result and reported. *)
From Coq Require Import Lia ZifyN ZifyBool.
From Gv Require Import lib.Bytes lib.Json C02.Model C02.Spec C02.ProofsBase C02.ProofsExt C02.ProofsRefine.
Open Scope N_scope.

Lemma pelem_eqb_refl : forall a, pelem_eqb a a = true.
Proof. intros [n|i]; simpl; [apply bytes_eqb_refl | apply N.eqb_refl]. Qed.
Lemma rpath_eqb_refl : forall a, rpath_eqb a a = true.
Proof. induction a as [|x a IH]; simpl; [reflexivity|]. rewrite pelem_eqb_refl, IH. reflexivity. Qed.
Lemma has_error_in : forall kind path errs,
  In {| ge_kind := kind; ge_path := path |} errs -> has_error kind path errs = true.
Proof.
  intros kind path errs H. unfold has_error. apply existsb_exists.
  exists {| ge_kind := kind; ge_path := path |}. split; [exact H|].
  cbn [ge_kind ge_path]. rewrite N.eqb_refl, rpath_eqb_refl. reflexivity.
Qed.

Section Denied.
  Variable deny : bytes -> bytes -> bool.

  Definition dn_items (item : node) (path' : rpath) (tns : list (option bytes)) (errs : list gerr) :=
    fix go (srcs outs : list json) (i : N) : bool :=
      match srcs, outs with
      | s :: srcs', o :: outs' =>
        denied_null_b deny item s (path' ++ [PIdx i]) tns errs o && go srcs' outs' (i + 1)
      | _, _ => true
      end.
  Definition dn_fields (value : json) (path' : rpath) (tns' : list (option bytes)) (tn : option bytes)
             (errs : list gerr) :=
    fix go (fs : list field) (ms : list (bytes * json)) : bool :=
      match fs with
      | [] => true
      | Fld name on parent_on auth child :: rest =>
        if skip_field on parent_on tns' then go rest ms
        else match ms with
             | (k, o) :: ms' =>
               (if sp_denied deny auth tn
                then (match o with JNull => true | _ => false end) &&
                     has_error EK_UNAUTHORIZED (push_names path' (node_path child)) errs
                else denied_null_b deny child value path' tns' errs o)
               && go rest ms'
             | [] => true
             end
      end.
  Lemma denied_arr_eq : forall p nl item src path tns errs out,
    denied_null_b deny (NArr p nl item) src path tns errs out =
      match out, get_path p src with
      | JArr outs, Some (JArr srcs) => dn_items item (push_names path p) tns errs srcs outs 0
      | _, _ => true
      end.
  Proof. reflexivity. Qed.
  Lemma denied_obj_eq : forall p nl ty poss inacc unres fields src path tns errs out,
    denied_null_b deny (NObj p nl ty poss inacc unres fields) src path tns errs out =
      match out, get_path p src with
      | JObj members, Some (JObj m) =>
        dn_fields (JObj m) (push_names path p) (typename_of (JObj m) :: tns) (typename_of (JObj m)) errs
                  fields members
      | _, _ => true
      end.
  Proof. reflexivity. Qed.

  Lemma denied_null_out : forall n src path tns errs, denied_null_b deny n src path tns errs JNull = true.
  Proof. intros n src path tns errs. destruct n; reflexivity. Qed.

  Definition dn_ok (n : node) : Prop :=
    forall parent path tns t e errs,
      complete deny n parent path tns = (Some t, e) -> incl e errs ->
      denied_null_b deny n parent path tns errs t = true.

  Lemma incl_app_l : forall (a b c : list gerr), incl (a ++ b) c -> incl a c.
  Proof. intros a b c H x Hx. apply H. apply in_or_app. left. exact Hx. Qed.
  Lemma incl_app_r : forall (a b c : list gerr), incl (a ++ b) c -> incl b c.
  Proof. intros a b c H x Hx. apply H. apply in_or_app. right. exact Hx. Qed.

  Lemma items_dn : forall item path' tns errs, dn_ok item ->
    forall items i l e, comp_items deny item path' tns items i = (Some l, e) -> incl e errs ->
      dn_items item path' tns errs items l i = true.
  Proof.
    intros item path' tns errs IH. induction items as [|it rest IHr]; intros i l e H Hi.
    - reflexivity.
    - rewrite comp_items_cons in H.
      destruct (complete deny item it (path' ++ [PIdx i]) tns) as [[t|] e0] eqn:Hc.
      + destruct (comp_items deny item path' tns rest (i + 1)) as [[l2|] e2] eqn:Hr; [|discriminate H].
        injection H as <- <-. cbn [dn_items].
        rewrite (IH _ _ _ _ _ _ Hc (incl_app_l _ _ _ Hi)). cbn [andb].
        apply (IHr (i + 1) l2 e2 Hr). exact (incl_app_r _ _ _ Hi).
      + destruct (absorbs_item_error item); [|discriminate H].
        destruct (comp_items deny item path' tns rest (i + 1)) as [[l2|] e2] eqn:Hr; [|discriminate H].
        injection H as <- <-. cbn [dn_items]. rewrite denied_null_out. cbn [andb].
        apply (IHr (i + 1) l2 e2 Hr). exact (incl_app_r _ _ _ Hi).
  Qed.

  Lemma fields_dn : forall value path' tns' tn errs fs,
    Forall (fun f => dn_ok (fval f)) fs ->
    forall l e, comp_fields deny value path' tns' tn fs = (Some l, e) -> incl e errs ->
      dn_fields value path' tns' tn errs fs l = true.
  Proof.
    intros value path' tns' tn errs fs. induction fs as [|[name on pon auth child] rest IHr]; intros HF l e H Hi.
    - reflexivity.
    - pose proof (Forall_inv HF) as Hch. cbn [fval] in Hch. pose proof (Forall_inv_tail HF) as HFr.
      rewrite comp_fields_cons in H.
      destruct (skip_field on pon tns') eqn:Hs; [cbn [dn_fields]; rewrite Hs; eauto|].
      destruct (sp_denied deny auth tn) eqn:Hd.
      + cbv zeta in H. destruct (node_nullable child); [|discriminate H].
        destruct (comp_fields deny value path' tns' tn rest) as [[l2|] e2] eqn:Hr; [|discriminate H].
        injection H as <- <-. cbn [dn_fields]. rewrite Hs, Hd.
        rewrite has_error_in by (apply Hi; left; reflexivity). cbn [andb].
        apply (IHr HFr l2 e2 eq_refl). intros y Hy. apply Hi. simpl. right. exact Hy.
      + destruct (complete deny child value path' tns') as [[t|] e0] eqn:Hc; [|discriminate H].
        destruct (comp_fields deny value path' tns' tn rest) as [[l2|] e2] eqn:Hr; [|discriminate H].
        injection H as <- <-. cbn [dn_fields]. rewrite Hs, Hd.
        rewrite (Hch _ _ _ _ _ _ Hc (incl_app_l _ _ _ Hi)). cbn [andb].
        apply (IHr HFr l2 e2 eq_refl). exact (incl_app_r _ _ _ Hi).
  Qed.

  Theorem dn_ok_all : forall n, dn_ok n.
  Proof.
    induction n using node_ind'; intros parent path tns t e errs Hcm Hi; try reflexivity.
    - rewrite complete_obj_eq in Hcm. rewrite denied_obj_eq. cbv zeta in Hcm.
      destruct unres; [discriminate Hcm|].
      destruct (get_path p parent) as [x|] eqn:Hg; [destruct x|];
        try discriminate Hcm;
        try (destruct nl; [injection Hcm as <- _; reflexivity | discriminate Hcm]).
      destruct (tn_bad ty poss (typename_of (JObj members))).
      + destruct nl; [injection Hcm as <- _; reflexivity | discriminate Hcm].
      + destruct (comp_fields deny (JObj members) (push_names path p) (typename_of (JObj members) :: tns)
                              (typename_of (JObj members)) fields) as [[l|] e0] eqn:Hcf.
        * injection Hcm as <- <-. eapply fields_dn; eauto.
        * destruct (nl && match p with [] => false | _ => true end); [|discriminate Hcm].
          injection Hcm as <- _. reflexivity.
    - rewrite complete_arr_eq in Hcm. rewrite denied_arr_eq.
      destruct (get_path p parent) as [x|] eqn:Hg; [destruct x|];
        try discriminate Hcm;
        try (destruct nl; [injection Hcm as <- _; reflexivity | discriminate Hcm]).
      destruct (comp_items deny n (push_names path p) tns items 0) as [[l|] e0] eqn:Hci.
      + injection Hcm as <- <-. eapply items_dn; eauto.
      + destruct (nl && match p with [] => false | _ => true end); [|discriminate Hcm].
        injection Hcm as <- _. reflexivity.
  Qed.

  Theorem denied_is_null_lemma : forall root data t,
    root_wf root = true -> fst (complete_root deny root data) = Some t ->
    denied_null_b deny root data [] [] (snd (complete_root deny root data)) t = true.
  Proof.
    intros root data t _ H. unfold complete_root in *.
    destruct (complete deny root data [] []) as [res e] eqn:Hc. cbn [fst snd] in *. subst res.
    eapply dn_ok_all; eauto. apply incl_refl.
  Qed.
End Denied.
