(* C02 proofs, part 1b: multi-segment data paths.  [get_path] / [set_path] algebra for paths of any
   length, prefix (in)comparability, and the frame relation [rewrites]: what the pre-walk of one
   field value may do to the value of the enclosing object (replace present sub-trees at the
   field's own data paths, never under the key "__typename"). *)
From Coq Require Import Lia ZifyN ZifyBool.
From Gv Require Import lib.Bytes lib.Json C02.Model C02.Spec C02.ProofsBase.
Open Scope N_scope.

(* ---- prefixes ---- *)
Lemma is_prefix_refl : forall a, is_prefix a a = true.
Proof. induction a as [|x a IH]; simpl; [reflexivity|]. rewrite bytes_eqb_refl, IH. reflexivity. Qed.
Lemma comparable_sym : forall a b, comparable a b = comparable b a.
Proof. intros a b. unfold comparable. apply orb_comm. Qed.
Lemma comparable_refl : forall a, comparable a a = true.
Proof. intros a. unfold comparable. rewrite is_prefix_refl. reflexivity. Qed.
Lemma comparable_nil_l : forall a, comparable [] a = true.
Proof. reflexivity. Qed.
Lemma comparable_cons : forall x a y b,
  comparable (x :: a) (y :: b) = bytes_eqb x y && comparable a b.
Proof.
  intros x a y b. unfold comparable. simpl.
  destruct (bytes_eqb x y) eqn:E.
  - apply bytes_eqb_eq in E. subst y. rewrite bytes_eqb_refl. reflexivity.
  - assert (bytes_eqb y x = false) as E'.
    { apply bytes_eqb_neq. apply bytes_eqb_neq in E. congruence. }
    rewrite E'. reflexivity.
Qed.
Lemma incomparable_not_prefix : forall q w, comparable q w = false -> is_prefix w q = false.
Proof. intros q w H. unfold comparable in H. apply orb_false_iff in H. tauto. Qed.
Lemma is_prefix_removelast : forall p q, is_prefix p (removelast q) = true -> is_prefix p q = true.
Proof.
  induction p as [|x p IH]; intros q H; [reflexivity|].
  destruct q as [|y q]; [discriminate H|].
  destruct q as [|z q]; [discriminate H|].
  change (removelast (y :: z :: q)) with (y :: removelast (z :: q)) in H.
  cbn [is_prefix] in *. apply andb_true_iff in H. destruct H as [H1 H2].
  rewrite H1. cbn [andb]. apply IH. exact H2.
Qed.

(* ---- get / set ---- *)
Lemma get_path_cons : forall k r m,
  get_path (k :: r) (JObj m) = match obj_get k m with Some v => get_path r v | None => None end.
Proof. reflexivity. Qed.
Lemma get_path_cons_some : forall k r j v, get_path (k :: r) j = Some v ->
  exists m c, j = JObj m /\ obj_get k m = Some c /\ get_path r c = Some v.
Proof.
  intros k r j v H. destruct j; try discriminate H. rewrite get_path_cons in H.
  destruct (obj_get k members) as [c|] eqn:E; [|discriminate H]. eauto.
Qed.
Lemma get_path_present : forall k r j, get_path (k :: r) j <> None ->
  exists m c, j = JObj m /\ obj_get k m = Some c /\ get_path r c <> None.
Proof.
  intros k r j H. destruct (get_path (k :: r) j) as [v|] eqn:E; [|congruence].
  destruct (get_path_cons_some _ _ _ _ E) as (m & c & -> & Hc & Hr). exists m, c.
  repeat split; auto. congruence.
Qed.
Lemma set_path_cons : forall k r x m c, obj_get k m = Some c ->
  set_path (k :: r) x (JObj m) = JObj (obj_set k (set_path r x c) m).
Proof. intros k r x m c H. destruct r as [|k2 r]; simpl; [reflexivity|]. rewrite H. reflexivity. Qed.
Lemma set_path_not_obj : forall k r x j, (forall m, j <> JObj m) -> set_path (k :: r) x j = j.
Proof. intros k r x j H. destruct j; try (destruct r; reflexivity). exfalso. eapply H. reflexivity. Qed.

Lemma get_set_same : forall p x j, get_path p j <> None -> get_path p (set_path p x j) = Some x.
Proof.
  induction p as [|k r IH]; intros x j H; [reflexivity|].
  destruct (get_path_present _ _ _ H) as (m & c & -> & Hc & Hr).
  rewrite (set_path_cons _ _ _ _ _ Hc), get_path_cons, obj_get_set_same. apply IH. exact Hr.
Qed.

Lemma get_path_empty_obj : forall q, q <> [] -> get_path q (JObj []) = None.
Proof. intros [|k r] H; [congruence | reflexivity]. Qed.

Lemma get_set_incomp : forall p q x j, get_path p j <> None -> comparable q p = false ->
  get_path q (set_path p x j) = get_path q j.
Proof.
  induction p as [|k r IH]; intros q x j Hp Hc.
  - rewrite comparable_sym in Hc. discriminate Hc.
  - destruct q as [|k' q']; [discriminate Hc|].
    destruct (get_path_present _ _ _ Hp) as (m & c & -> & Hk & Hr).
    rewrite (set_path_cons _ _ _ _ _ Hk), !get_path_cons.
    rewrite comparable_cons in Hc.
    destruct (bytes_eq_dec k' k) as [->|Hne].
    + rewrite bytes_eqb_refl in Hc. cbn [andb] in Hc.
      rewrite obj_get_set_same, Hk. apply IH; auto.
    + rewrite obj_get_set_other by exact Hne. reflexivity.
Qed.

Lemma set_path_is_obj : forall k r x m, exists m', set_path (k :: r) x (JObj m) = JObj m'.
Proof.
  intros k r x m. destruct r as [|k2 r]; simpl; [eauto|].
  destruct (obj_get k m); eauto.
Qed.
Lemma set_path_typename : forall k r x j, get_path (k :: r) j <> None -> k <> typename_key ->
  typename_of (set_path (k :: r) x j) = typename_of j.
Proof.
  intros k r x j Hp Hne. destruct (get_path_present _ _ _ Hp) as (m & c & -> & Hk & _).
  rewrite (set_path_cons _ _ _ _ _ Hk). unfold typename_of.
  change [95;95;116;121;112;101;110;97;109;101] with typename_key.
  rewrite obj_get_set_other by congruence. reflexivity.
Qed.

(* the "__skipErrors" flag of the object at a path *)
Definition skip_at (r : list bytes) (j : json) : bool :=
  match get_path r j with Some anc => has_skip_errors anc | None => false end.
Lemma nonnull_error_skip_at : forall path fp parent,
  nonnull_error path fp parent =
    if (match fp with [] => false | _ => skip_at (removelast fp) parent end) then []
    else [{| ge_kind := EK_NONNULL; ge_path := push_names path fp |}].
Proof. intros path [|k r] parent; reflexivity. Qed.

Lemma has_skip_set : forall k v m, obj_get k m <> None ->
  has_skip_errors (JObj (obj_set k v m)) = has_skip_errors (JObj m).
Proof.
  intros k v m Hk. unfold has_skip_errors.
  set (sk := [95;95;115;107;105;112;69;114;114;111;114;115]).
  pose proof (obj_get_set_some sk k v m Hk) as [H1 H2].
  destruct (obj_get sk (obj_set k v m)) eqn:E1; destruct (obj_get sk m) eqn:E2; auto.
  - specialize (H2 eq_refl). discriminate.
  - specialize (H1 eq_refl). discriminate.
Qed.

Lemma skip_at_set : forall p x j r, get_path p j <> None -> is_prefix p r = false ->
  skip_at r (set_path p x j) = skip_at r j.
Proof.
  induction p as [|k pr IH]; intros x j r Hp Hpre; [discriminate Hpre|].
  destruct (get_path_present _ _ _ Hp) as (m & c & -> & Hk & Hr).
  rewrite (set_path_cons _ _ _ _ _ Hk).
  destruct r as [|k' rr].
  - unfold skip_at. cbn [get_path]. apply has_skip_set. congruence.
  - unfold skip_at. rewrite !get_path_cons.
    destruct (bytes_eq_dec k' k) as [->|Hne].
    + cbn [is_prefix] in Hpre. rewrite bytes_eqb_refl in Hpre. cbn [andb] in Hpre.
      rewrite obj_get_set_same, Hk. apply (IH x c rr Hr Hpre).
    + rewrite obj_get_set_other by exact Hne. reflexivity.
Qed.

Lemma nonnull_error_set : forall p x j q pth, get_path p j <> None -> is_prefix p q = false ->
  nonnull_error pth q (set_path p x j) = nonnull_error pth q j.
Proof.
  intros p x j q pth Hp Hpre. rewrite !nonnull_error_skip_at.
  destruct q as [|k r]; [reflexivity|].
  rewrite skip_at_set; auto.
  destruct (is_prefix p (removelast (k :: r))) eqn:E; [|reflexivity].
  apply is_prefix_removelast in E. congruence.
Qed.

Lemma get_path_null : forall p, is_null_or_missing (get_path p JNull) = true.
Proof. intros [|k r]; reflexivity. Qed.

(* ---- the frame relation ---- *)
Inductive rewrites (ws : list (list bytes)) : json -> json -> Prop :=
| rw_refl : forall a, rewrites ws a a
| rw_step : forall a b k r x, rewrites ws a b -> In (k :: r) ws -> k <> typename_key ->
    get_path (k :: r) b <> None -> rewrites ws a (set_path (k :: r) x b).

Lemma rewrites_mono : forall ws ws' a b, incl ws ws' -> rewrites ws a b -> rewrites ws' a b.
Proof. intros ws ws' a b Hi H. induction H; [apply rw_refl | apply rw_step; auto]. Qed.
Lemma rewrites_trans : forall ws a b c, rewrites ws a b -> rewrites ws b c -> rewrites ws a c.
Proof. intros ws a b c H1 H2. induction H2; [exact H1 | apply rw_step; auto]. Qed.
Lemma rewrites_one : forall ws a k r x, In (k :: r) ws -> k <> typename_key -> get_path (k :: r) a <> None ->
  rewrites ws a (set_path (k :: r) x a).
Proof. intros. apply rw_step; auto. apply rw_refl. Qed.

Lemma rewrites_obj : forall ws a b, rewrites ws a b -> (exists m, a = JObj m) -> exists m', b = JObj m'.
Proof.
  intros ws a b H Ha. induction H; [exact Ha|].
  destruct (IHrewrites Ha) as [m' ->]. destruct (set_path_is_obj k r x m') as [m2 E]. eauto.
Qed.
Lemma rewrites_typename : forall ws a b, rewrites ws a b -> typename_of b = typename_of a.
Proof.
  intros ws a b H. induction H; [reflexivity|].
  rewrite set_path_typename; auto.
Qed.
Lemma rewrites_get : forall ws a b, rewrites ws a b ->
  forall q, (forall w, In w ws -> comparable q w = false) -> get_path q b = get_path q a.
Proof.
  intros ws a b H q Hq. induction H; [reflexivity|].
  rewrite get_set_incomp; auto.
Qed.
Lemma rewrites_nonnull : forall ws a b, rewrites ws a b ->
  forall q, (forall w, In w ws -> comparable q w = false) ->
  forall pth, nonnull_error pth q b = nonnull_error pth q a.
Proof.
  intros ws a b H q Hq pth. induction H; [reflexivity|].
  rewrite nonnull_error_set; auto. apply incomparable_not_prefix. auto.
Qed.

(* two values a field walk cannot tell apart at the top: equal, or objects of one runtime type *)
Definition same_head (a b : json) : Prop :=
  a = b \/ (exists m m', a = JObj m /\ b = JObj m' /\ typename_of a = typename_of b).
Lemma same_head_refl : forall a, same_head a a.
Proof. intros a. left. reflexivity. Qed.
Lemma same_head_sym : forall a b, same_head a b -> same_head b a.
Proof. intros a b [->|(m & m' & -> & -> & H)]; [left; reflexivity | right; eauto 6]. Qed.
Lemma same_head_trans : forall a b c, same_head a b -> same_head b c -> same_head a c.
Proof.
  intros a b c [->|(m & m' & -> & -> & H)] H2; [exact H2|].
  destruct H2 as [<-|(m2 & m3 & E & -> & H2)]; [right; eauto 6|].
  right. exists m, m3. repeat split; congruence.
Qed.
Lemma rewrites_same_head : forall ws a b, rewrites ws a b -> (exists m, a = JObj m) -> same_head b a.
Proof.
  intros ws a b H Ha. destruct (rewrites_obj _ _ _ H Ha) as [m' ->]. destruct Ha as [m ->].
  right. exists m', m. repeat split; auto. eapply rewrites_typename; eauto.
Qed.

(* ---- pairwise incomparability ---- *)
Lemma incomparable_all_app : forall a b, incomparable_all (a ++ b) = true ->
  incomparable_all a = true /\ incomparable_all b = true /\
  (forall p q, In p a -> In q b -> comparable p q = false).
Proof.
  induction a as [|x a IH]; intros b H.
  - simpl in H. repeat split; auto. intros p q [].
  - simpl in H. apply andb_true_iff in H. destruct H as [Hx H].
    destruct (IH b H) as (Ha & Hb & Hab).
    rewrite forallb_app in Hx. apply andb_true_iff in Hx. destruct Hx as [Hxa Hxb].
    split; [simpl; rewrite Hxa, Ha; reflexivity|]. split; [exact Hb|].
    intros p q [<-|Hp] Hq; [|auto].
    rewrite forallb_forall in Hxb. specialize (Hxb q Hq). apply negb_true_iff in Hxb. exact Hxb.
Qed.

(* a node with a key of its own reads exactly its path *)
Lemma rpaths_own : forall n, has_path_kind n = true -> node_path n <> [] -> rpaths n = [node_path n].
Proof.
  intros n Hk Hp. destruct n; try discriminate Hk; try reflexivity.
  cbn [node_path] in Hp. destruct path; [congruence | reflexivity].
Qed.
Lemma rpaths_not_flat : forall n, has_path_kind n = true ->
  (forall nl ty poss inacc unres fields, n <> NObj [] nl ty poss inacc unres fields) ->
  rpaths n = [node_path n].
Proof.
  intros n Hk Hn. destruct n; try discriminate Hk; try reflexivity.
  destruct path; [exfalso; eapply Hn; reflexivity | reflexivity].
Qed.

(* the classification helper of Spec.v agrees with [plan_wf] when nothing is lifted *)
Lemma plan_wf_upto_ff : forall n depth, plan_wf_upto false false depth n = plan_wf depth n.
Proof.
  induction n using node_ind'; intros depth; try reflexivity.
  - cbn [plan_wf_upto plan_wf]. cbn [orb]. f_equal.
    revert depth. induction fields as [|[name on pon auth child] rest IH]; intros depth; [reflexivity|].
    pose proof (Forall_inv H) as Hc. cbn [fval] in Hc. pose proof (Forall_inv_tail H) as Hr.
    rewrite Hc, (IH Hr). destruct auth; reflexivity.
  - cbn [plan_wf_upto plan_wf]. apply IHn.
Qed.
Lemma root_wf_upto_ff : forall root, root_wf_upto false false root = root_wf root.
Proof.
  intros root. destruct root; try reflexivity. unfold root_wf_upto, root_wf.
  destruct path; [|reflexivity]. destruct nullable; [reflexivity|]. destruct unresolvable; [reflexivity|].
  apply plan_wf_upto_ff.
Qed.
