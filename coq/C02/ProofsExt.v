(* C02 proofs, part 2: every walk reads its parent only through [get_path (node_path n)] (and the
   __skipErrors flag of the enclosing object); scalar positions. *)
From Coq Require Import Lia ZifyN ZifyBool.
From Gv Require Import lib.Bytes lib.Json C02.Model C02.Spec C02.ProofsBase C02.ProofsPaths.
Open Scope N_scope.

Lemma render_ext : forall n a b tns r,
  (has_path_kind n = true -> get_path (node_path n) a = get_path (node_path n) b) ->
  render n a tns r = render n b tns r.
Proof.
  intros n a b tns r H. destruct n; try reflexivity; specialize (H eq_refl); cbn [node_path] in H;
    try (cbn [render]; unfold scalar_render; rewrite H; reflexivity).
Qed.

Lemma nonnull_error_one : forall path k a b,
  has_skip_errors a = has_skip_errors b -> nonnull_error path [k] a = nonnull_error path [k] b.
Proof. intros path k a b H. unfold nonnull_error. simpl. rewrite H. reflexivity. Qed.
Lemma nonnull_error_nil : forall path a b, nonnull_error path [] a = nonnull_error path [] b.
Proof. reflexivity. Qed.

Section Ext.
  Variable deny : bytes -> bytes -> bool.

  Lemma complete_ext : forall n a b path tns,
    (has_path_kind n = true -> get_path (node_path n) a = get_path (node_path n) b) ->
    (has_path_kind n = true -> forall pth, nonnull_error pth (node_path n) a = nonnull_error pth (node_path n) b) ->
    complete deny n a path tns = complete deny n b path tns.
  Proof.
    intros n a b path tns H Hnn. destruct n; try reflexivity;
      specialize (H eq_refl); specialize (Hnn eq_refl); cbn [node_path] in H, Hnn;
      try (cbn [complete]; unfold scalar_complete; rewrite H, Hnn; reflexivity).
  Qed.

  Lemma complete_ext_one : forall n a b path tns,
    (has_path_kind n = true -> exists k, node_path n = [k]) ->
    (has_path_kind n = true -> get_path (node_path n) a = get_path (node_path n) b) ->
    has_skip_errors a = has_skip_errors b ->
    complete deny n a path tns = complete deny n b path tns.
  Proof.
    intros n a b path tns Hp Hg Hs. apply complete_ext; auto.
    intros Hk pth. destruct (Hp Hk) as [k ->]. apply nonnull_error_one; exact Hs.
  Qed.
End Ext.

(* a nullable position whose value is null or missing prints null *)
Lemma render_nullish : forall n a tns r,
  has_path_kind n = true -> node_nullable n = true ->
  is_null_or_missing (get_path (node_path n) a) = true ->
  render n a tns r = (b_null, false).
Proof.
  intros n a tns r Hk Hn Hm. destruct n; try discriminate; cbn [node_path node_nullable] in *; subst;
    try (cbn [render]; unfold scalar_render; rewrite Hm; reflexivity).
Qed.

(* scalar positions *)
Lemma scalar_ok : forall path p nl kind accept accept' parent e s res e',
  (forall x, accept x = true -> accept' x = true) ->
  scalar_prewalk path p nl kind accept parent = (e, s) ->
  scalar_complete path p nl kind accept parent = (res, e') ->
  e = e' /\ s <> WPanic /\ (s = WErr -> res = None) /\
  (s = WOk -> exists t, res = Some t /\ scalar_render p nl accept' parent = (marshal t, false)).
Proof.
  intros path p nl kind accept accept' parent e s res e' Hacc Hp Hc.
  unfold scalar_prewalk, scalar_complete, scalar_render in *.
  destruct (get_path p parent) as [x|] eqn:Hg.
  - destruct (accept x) eqn:Ha.
    + pose proof (Hacc x Ha) as Ha'. rewrite Ha'.
      destruct x; cbn [is_null_or_missing] in *; destruct nl;
        inversion Hp; inversion Hc; subst;
        repeat split; try congruence; try (intros _; eexists; split; reflexivity).
    + destruct x; cbn [is_null_or_missing] in *; destruct nl;
        inversion Hp; inversion Hc; subst;
        repeat split; try congruence; try (intros _; eexists; split; reflexivity).
  - cbn [is_null_or_missing] in *. destruct nl; inversion Hp; inversion Hc; subst;
      repeat split; try congruence; try (intros _; eexists; split; reflexivity).
Qed.

(* ---- the same, looking through flattened objects (empty path): a walk reads the enclosing value
   only at the node's [rpaths], plus -- for a flattened object -- its being an object and its
   runtime type ---- *)
Lemma in_rpaths_own : forall n, has_path_kind n = true ->
  (forall nl ty poss inacc unres fields, n <> NObj [] nl ty poss inacc unres fields) ->
  In (node_path n) (rpaths n).
Proof. intros n Hk Hn. rewrite rpaths_not_flat by assumption. left. reflexivity. Qed.

Definition render_ext_at (n : node) : Prop :=
  forall a b tns r, same_head a b ->
    (forall q, In q (rpaths n) -> get_path q a = get_path q b) ->
    render n a tns r = render n b tns r.

Lemma rd_fields_ext : forall nl tns' fs,
  Forall (fun f => render_ext_at (fval f)) fs ->
  forall a b, same_head a b -> (forall q, In q (frpaths fs) -> get_path q a = get_path q b) ->
  forall c, rd_fields nl a tns' fs c = rd_fields nl b tns' fs c.
Proof.
  intros nl tns' fs. induction fs as [|[name on pon auth child] rest IH]; intros HF a b Hh Hg c; [reflexivity|].
  pose proof (Forall_inv HF) as Hch. cbn [fval] in Hch. pose proof (Forall_inv_tail HF) as HFr.
  rewrite frpaths_cons in Hg.
  assert (forall c, rd_fields nl a tns' rest c = rd_fields nl b tns' rest c) as Hrest.
  { apply IH; auto. intros q Hq. apply Hg. apply in_or_app. right. exact Hq. }
  assert (render child a tns' false = render child b tns' false) as Hc.
  { apply Hch; auto. intros q Hq. apply Hg. apply in_or_app. left. exact Hq. }
  cbn [rd_fields]. fold (rd_fields nl a tns'). fold (rd_fields nl b tns').
  rewrite !Hrest, Hc. reflexivity.
Qed.

Theorem render_ext_gen : forall n, render_ext_at n.
Proof.
  induction n using node_ind'; intros a b tns r Hh Hg;
    try reflexivity;
    try (specialize (Hg _ (or_introl eq_refl)); cbn [node_path] in Hg;
         cbn [render]; unfold scalar_render; rewrite Hg; reflexivity).
  - (* object *)
    destruct p as [|k pr].
    + rewrite rpaths_obj_nil in Hg. rewrite !render_obj_eq. cbv zeta. cbn [get_path].
      destruct Hh as [->|(m & m' & -> & -> & Htn)]; [reflexivity|].
      cbn [is_null_or_missing]. rewrite Htn.
      destruct (tn_bad ty poss (typename_of (JObj m'))); [reflexivity|].
      rewrite (rd_fields_ext nl (typename_of (JObj m') :: tns) fields H (JObj m) (JObj m')); auto.
      right. eauto 6.
    + apply render_ext. intros _. apply Hg. left. reflexivity.
Qed.

Section ExtGen.
  Variable deny : bytes -> bytes -> bool.

  Definition complete_ext_at (n : node) : Prop :=
    forall a b path tns, same_head a b ->
      (forall q, In q (rpaths n) -> (get_path q a = get_path q b) /\
          (forall pth, nonnull_error pth q a = nonnull_error pth q b)) ->
      complete deny n a path tns = complete deny n b path tns.

  Lemma comp_fields_ext : forall path' tns' tn fs,
    Forall (fun f => complete_ext_at (fval f)) fs ->
    forall a b, same_head a b ->
      (forall q, In q (frpaths fs) -> (get_path q a = get_path q b) /\
          (forall pth, nonnull_error pth q a = nonnull_error pth q b)) ->
      comp_fields deny a path' tns' tn fs = comp_fields deny b path' tns' tn fs.
  Proof.
    intros path' tns' tn fs. induction fs as [|[name on pon auth child] rest IH]; intros HF a b Hh Hg; [reflexivity|].
    pose proof (Forall_inv HF) as Hch. cbn [fval] in Hch. pose proof (Forall_inv_tail HF) as HFr.
    rewrite frpaths_cons in Hg.
    assert (comp_fields deny a path' tns' tn rest = comp_fields deny b path' tns' tn rest) as Hrest.
    { apply IH; auto. intros q Hq. apply Hg. apply in_or_app. right. exact Hq. }
    assert (complete deny child a path' tns' = complete deny child b path' tns') as Hc.
    { apply Hch; auto. intros q Hq. apply Hg. apply in_or_app. left. exact Hq. }
    cbn [comp_fields]. fold (comp_fields deny a path' tns' tn). fold (comp_fields deny b path' tns' tn).
    rewrite Hrest, Hc. reflexivity.
  Qed.

  Theorem complete_ext_gen : forall n, complete_ext_at n.
  Proof.
    induction n using node_ind'; intros a b path tns Hh Hg;
      try reflexivity;
      try (apply complete_ext; intros _; [apply (Hg _ (or_introl eq_refl)) | apply (Hg _ (or_introl eq_refl))]).
    destruct p as [|k pr].
    - rewrite rpaths_obj_nil in Hg. rewrite !complete_obj_eq. cbv zeta. cbn [get_path].
      destruct unres; [reflexivity|].
      destruct Hh as [->|(m & m' & -> & -> & Htn)]; [reflexivity|].
      rewrite Htn.
      destruct (tn_bad ty poss (typename_of (JObj m'))); [reflexivity|].
      rewrite (comp_fields_ext (push_names path []) (typename_of (JObj m') :: tns) (typename_of (JObj m')) fields H
                               (JObj m) (JObj m')); auto.
      right. eauto 6.
    - apply complete_ext; intros _; [apply (Hg _ (or_introl eq_refl)) | apply (Hg _ (or_introl eq_refl))].
  Qed.
End ExtGen.
