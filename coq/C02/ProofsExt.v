(* C02 proofs, part 2: every walk reads its parent only through [get_path (node_path n)] (and the
   __skipErrors flag of the enclosing object); scalar positions. *)
From Coq Require Import Lia ZifyN ZifyBool.
From Gv Require Import lib.Bytes lib.Json C02.Model C02.Spec C02.ProofsBase.
Open Scope N_scope.

Lemma render_ext : forall n a b tns r,
  (has_path_kind n = true -> get_path (node_path n) a = get_path (node_path n) b) ->
  render n a tns r = render n b tns r.
Proof.
  intros n a b tns r H. destruct n; try reflexivity; specialize (H eq_refl); cbn [node_path] in H;
    try (cbn [render]; unfold scalar_render; rewrite H; reflexivity).
Qed.

Lemma nonnull_error_one : forall path k a b,
  has_skip_errors a = has_skip_errors b -> nonnull_error path [k] a = nonnull_error path [k] b.
Proof. intros path k a b H. unfold nonnull_error. simpl. rewrite H. reflexivity. Qed.
Lemma nonnull_error_nil : forall path a b, nonnull_error path [] a = nonnull_error path [] b.
Proof. reflexivity. Qed.

Section Ext.
  Variable deny : bytes -> bytes -> bool.

  Lemma complete_ext : forall n a b path tns,
    (has_path_kind n = true -> get_path (node_path n) a = get_path (node_path n) b) ->
    (has_path_kind n = true -> forall pth, nonnull_error pth (node_path n) a = nonnull_error pth (node_path n) b) ->
    complete deny n a path tns = complete deny n b path tns.
  Proof.
    intros n a b path tns H Hnn. destruct n; try reflexivity;
      specialize (H eq_refl); specialize (Hnn eq_refl); cbn [node_path] in H, Hnn;
      try (cbn [complete]; unfold scalar_complete; rewrite H, Hnn; reflexivity).
  Qed.

  Lemma complete_ext_one : forall n a b path tns,
    (has_path_kind n = true -> exists k, node_path n = [k]) ->
    (has_path_kind n = true -> get_path (node_path n) a = get_path (node_path n) b) ->
    has_skip_errors a = has_skip_errors b ->
    complete deny n a path tns = complete deny n b path tns.
  Proof.
    intros n a b path tns Hp Hg Hs. apply complete_ext; auto.
    intros Hk pth. destruct (Hp Hk) as [k ->]. apply nonnull_error_one; exact Hs.
  Qed.
End Ext.

(* a nullable position whose value is null or missing prints null *)
Lemma render_nullish : forall n a tns r,
  has_path_kind n = true -> node_nullable n = true ->
  is_null_or_missing (get_path (node_path n) a) = true ->
  render n a tns r = (b_null, false).
Proof.
  intros n a tns r Hk Hn Hm. destruct n; try discriminate; cbn [node_path node_nullable] in *; subst;
    try (cbn [render]; unfold scalar_render; rewrite Hm; reflexivity).
Qed.

(* scalar positions *)
Lemma scalar_ok : forall path p nl kind accept accept' parent e s res e',
  (forall x, accept x = true -> accept' x = true) ->
  scalar_prewalk path p nl kind accept parent = (e, s) ->
  scalar_complete path p nl kind accept parent = (res, e') ->
  e = e' /\ s <> WPanic /\ (s = WErr -> res = None) /\
  (s = WOk -> exists t, res = Some t /\ scalar_render p nl accept' parent = (marshal t, false)).
Proof.
  intros path p nl kind accept accept' parent e s res e' Hacc Hp Hc.
  unfold scalar_prewalk, scalar_complete, scalar_render in *.
  destruct (get_path p parent) as [x|] eqn:Hg.
  - destruct (accept x) eqn:Ha.
    + pose proof (Hacc x Ha) as Ha'. rewrite Ha'.
      destruct x; cbn [is_null_or_missing] in *; destruct nl;
        inversion Hp; inversion Hc; subst;
        repeat split; try congruence; try (intros _; eexists; split; reflexivity).
    + destruct x; cbn [is_null_or_missing] in *; destruct nl;
        inversion Hp; inversion Hc; subst;
        repeat split; try congruence; try (intros _; eexists; split; reflexivity).
  - cbn [is_null_or_missing] in *. destruct nl; inversion Hp; inversion Hc; subst;
      repeat split; try congruence; try (intros _; eexists; split; reflexivity).
Qed.

(* shape of well-formed plans *)
Lemma plan_wf_path : forall as_item depth n,
  plan_wf as_item depth n = true -> has_path_kind n = true ->
  if as_item then node_path n = [] else exists k, node_path n = [k].
Proof.
  intros as_item depth n H Hk.
  assert ((if as_item then match node_path n with [] => true | _ => false end
           else single_key (node_path n)) = true) as Hp.
  { destruct n; try discriminate;
      (rewrite plan_wf_obj_eq in H || rewrite plan_wf_arr_eq in H || simpl in H);
      apply andb_true_iff in H; destruct H as [H _]; exact H. }
  destruct as_item; destruct (node_path n) as [|k [|k2 r]]; try discriminate; eauto.
Qed.
