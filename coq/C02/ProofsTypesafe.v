(* C02 proofs, part 5: the completion result is type-safe and has exactly the selected keys. *)
From Coq Require Import Lia ZifyN ZifyBool.
From Gv Require Import lib.Bytes lib.Json C02.Model C02.Spec C02.ProofsBase C02.ProofsExt C02.ProofsRefine.
Open Scope N_scope.

Section Typesafe.
  Variable deny : bytes -> bytes -> bool.

  Definition typesafe (n : node) : Prop :=
    forall parent path tns t e, complete deny n parent path tns = (Some t, e) -> conforms_b n parent tns t = true.

  Lemma scalar_typesafe : forall path p nl kind accept parent t e,
    scalar_complete path p nl kind accept parent = (Some t, e) ->
    match t with JNull => nl = true | _ => accept t = true end.
  Proof.
    intros path p nl kind accept parent t e H. unfold scalar_complete in H.
    destruct (get_path p parent) as [x|].
    - destruct x; try (destruct nl; [injection H as <- _; reflexivity | discriminate H]);
        match type of H with (if ?c then _ else _) = _ => destruct c eqn:Ha end;
        try discriminate H; injection H as <- _; exact Ha.
    - destruct nl; [injection H as <- _; reflexivity | discriminate H].
  Qed.

  Lemma items_typesafe : forall item path' tns, typesafe item ->
    forall items i l e, comp_items deny item path' tns items i = (Some l, e) -> cf_items item tns items l = true.
  Proof.
    intros item path' tns IH. induction items as [|it rest IHr]; intros i l e H.
    - simpl in H. injection H as <- _. reflexivity.
    - rewrite comp_items_cons in H.
      destruct (complete deny item it (path' ++ [PIdx i]) tns) as [[t|] e0] eqn:Hc.
      + destruct (comp_items deny item path' tns rest (i + 1)) as [[l2|] e2] eqn:Hr; [|discriminate H].
        injection H as <- _. cbn [cf_items]. rewrite (IH _ _ _ _ _ Hc), orb_true_r. cbn [andb]. eauto.
      + destruct (absorbs_item_error item) eqn:Ha; [|discriminate H].
        destruct (comp_items deny item path' tns rest (i + 1)) as [[l2|] e2] eqn:Hr; [|discriminate H].
        injection H as <- _. cbn [cf_items]. rewrite Ha. cbn [orb andb]. eauto.
  Qed.

  Lemma fields_typesafe : forall value path' tns' tn fs,
    Forall (fun f => typesafe (fval f)) fs ->
    forall l e, comp_fields deny value path' tns' tn fs = (Some l, e) -> cf_fields value tns' fs l = true.
  Proof.
    intros value path' tns' tn fs. induction fs as [|[name on pon auth child] rest IHr]; intros HF l e H.
    - simpl in H. injection H as <- _. reflexivity.
    - pose proof (Forall_inv HF) as Hch. cbn [fval] in Hch. pose proof (Forall_inv_tail HF) as HFr.
      rewrite comp_fields_cons in H.
      destruct (skip_field on pon tns') eqn:Hs; [cbn [cf_fields]; rewrite Hs; eauto|].
      destruct (sp_denied deny auth tn).
      + cbv zeta in H. destruct (node_nullable child) eqn:Hn; [|discriminate H].
        destruct (comp_fields deny value path' tns' tn rest) as [[l2|] e2] eqn:Hr; [|discriminate H].
        injection H as <- _. cbn [cf_fields]. rewrite Hs, bytes_eqb_refl, Hn. cbn [orb andb]. eauto.
      + destruct (complete deny child value path' tns') as [[t|] e0] eqn:Hc; [|discriminate H].
        destruct (comp_fields deny value path' tns' tn rest) as [[l2|] e2] eqn:Hr; [|discriminate H].
        injection H as <- _. cbn [cf_fields]. rewrite Hs, bytes_eqb_refl, (Hch _ _ _ _ _ Hc), orb_true_r. cbn [andb]. eauto.
  Qed.

  Ltac scalar_case Hc tt :=
    apply scalar_typesafe in Hc; cbn [conforms_b kind_ok];
    destruct tt; try exact Hc; try discriminate Hc; try reflexivity.

  Theorem typesafe_all : forall n, typesafe n.
  Proof.
    induction n using node_ind'; intros parent path tns t e Hcm.
    - rewrite complete_obj_eq in Hcm. rewrite conforms_obj_eq. cbv zeta in *.
      destruct unres; [discriminate Hcm|].
      destruct (get_path p parent) as [x|] eqn:Hg;
        [destruct x as [| b | raw | s | items | m]|];
        try discriminate Hcm;
        try (destruct nl; [injection Hcm as <- _; reflexivity | discriminate Hcm]).
      destruct (tn_bad ty poss (typename_of (JObj m))) eqn:Htb.
      + destruct nl; [injection Hcm as <- _; reflexivity | discriminate Hcm].
      + destruct (comp_fields deny (JObj m) (push_names path p) (typename_of (JObj m) :: tns)
                              (typename_of (JObj m)) fields) as [[l|] e0] eqn:Hcf.
        * injection Hcm as <- _. cbn [negb andb]. eapply fields_typesafe; eauto.
        * destruct nl; cbn [andb] in Hcm; [|discriminate Hcm].
          destruct p; [discriminate Hcm|]. injection Hcm as <- _. reflexivity.
    - rewrite complete_arr_eq in Hcm. rewrite conforms_arr_eq.
      destruct (get_path p parent) as [x|] eqn:Hg;
        [destruct x as [| b | raw | s | items | m]|];
        try discriminate Hcm;
        try (destruct nl; [injection Hcm as <- _; reflexivity | discriminate Hcm]).
      destruct (comp_items deny n (push_names path p) tns items 0) as [[l|] e0] eqn:Hci.
      + injection Hcm as <- _. eapply items_typesafe; eauto.
      + destruct nl; cbn [andb] in Hcm; [|discriminate Hcm].
        destruct p; [discriminate Hcm|]. injection Hcm as <- _. reflexivity.
    - cbn [complete] in Hcm. scalar_case Hcm t.
    - cbn [complete] in Hcm. scalar_case Hcm t.
    - cbn [complete] in Hcm. scalar_case Hcm t.
    - cbn [complete] in Hcm. scalar_case Hcm t.
    - cbn [complete] in Hcm. scalar_case Hcm t.
    - cbn [complete] in Hcm. scalar_case Hcm t.
    - cbn [complete] in Hcm. cbn [conforms_b].
      destruct (get_path p parent) as [x|] eqn:Hg;
        [destruct x as [| b | raw | s | items | m]|];
        try discriminate Hcm;
        try (destruct nl; [injection Hcm as <- _; reflexivity | discriminate Hcm]).
      destruct (mem_bytes s vs) eqn:Hv; cbn [negb] in Hcm.
      + destruct (mem_bytes s inacc) eqn:Hi.
        * destruct nl; [injection Hcm as <- _; reflexivity | discriminate Hcm].
        * injection Hcm as <- _. rewrite Hv, Hi. reflexivity.
      + destruct nl; [injection Hcm as <- _; reflexivity | discriminate Hcm].
    - injection Hcm as <- _. reflexivity.
    - injection Hcm as <- _. cbn [conforms_b]. apply bytes_eqb_refl.
    - injection Hcm as <- _. reflexivity.
    - injection Hcm as <- _. reflexivity.
  Qed.

  Theorem complete_typesafe_lemma : forall root data t,
    root_wf root = true -> fst (complete_root deny root data) = Some t -> conforms_b root data [] t = true.
  Proof.
    intros root data t _ H. unfold complete_root in H.
    destruct (complete deny root data [] []) as [res e] eqn:Hc. cbn [fst] in H. subst res.
    eapply typesafe_all; eauto.
  Qed.
End Typesafe.
