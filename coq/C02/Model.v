(* C02: executable model of v2/pkg/engine/resolve/resolvable.go (default options, non-defer mode):
   the validation pre-walk that mutates the data and collects errors, and the print walk.
   Mirrors the Go branches one to one; astjson Get/SetNull/SetArrayItem/MarshalTo are modelled
   on [json] trees.  Error wording is not modelled: an error is (kind, path).
   Authorization (post-fetch mode) is included as a decision function so that C14 can reuse the
   model; with [deny := fun _ _ => false] it is the plain renderer. *)
From Gv Require Import lib.Bytes lib.Json.
Open Scope N_scope.

Inductive pelem := PName (n : bytes) | PIdx (i : N).
Definition rpath := list pelem.

(* error kinds *)
Definition EK_NONNULL : N := 1.
Definition EK_NOTOBJECT : N := 2.
Definition EK_TYPENAME : N := 3.
Definition EK_STRING : N := 4.
Definition EK_BOOL : N := 5.
Definition EK_INT : N := 6.
Definition EK_FLOAT : N := 7.
Definition EK_ENUM : N := 8.
Definition EK_ENUM_INACCESSIBLE : N := 9.
Definition EK_ARRAY : N := 10.
Definition EK_UNRESOLVABLE : N := 11.
Definition EK_UNAUTHORIZED : N := 12.

Record gerr := { ge_kind : N; ge_path : rpath }.

Record authinfo := { au_parent_type : bytes; au_field : bytes }.

Inductive node :=
| NObj (path : list bytes) (nullable : bool) (tyname : bytes) (possible inaccessible : list bytes)
       (unresolvable : bool) (fields : list field)
| NArr (path : list bytes) (nullable : bool) (item : node)
| NStr (path : list bytes) (nullable : bool)
| NBool (path : list bytes) (nullable : bool)
| NInt (path : list bytes) (nullable : bool)
| NFloat (path : list bytes) (nullable : bool)
| NBigInt (path : list bytes) (nullable : bool)
| NScalar (path : list bytes) (nullable : bool)
| NEnum (path : list bytes) (nullable : bool) (tyname : bytes) (values inaccessible : list bytes)
| NNull
| NStatic (v : bytes)
| NEmptyObj
| NEmptyArr
with field :=
| Fld (name : bytes) (on : option (list bytes)) (parent_on : option (list (nat * list bytes)))
      (auth : option authinfo) (value : node).

Definition node_path (n : node) : list bytes :=
  match n with
  | NObj p _ _ _ _ _ _ | NArr p _ _ | NStr p _ | NBool p _ | NInt p _ | NFloat p _
  | NBigInt p _ | NScalar p _ | NEnum p _ _ _ _ => p
  | _ => []
  end.
Definition node_nullable (n : node) : bool :=
  match n with
  | NObj _ b _ _ _ _ _ | NArr _ b _ | NStr _ b | NBool _ b | NInt _ b | NFloat _ b
  | NBigInt _ b | NScalar _ b | NEnum _ b _ _ _ => b
  | NNull => true
  | _ => false
  end.
Definition is_obj_node (n : node) : bool := match n with NObj _ _ _ _ _ _ _ => true | _ => false end.
Definition is_arr_node (n : node) : bool := match n with NArr _ _ _ => true | _ => false end.
(* walkArray: a failing item is replaced by null when it is a nullable object or a nullable list *)
Definition absorbs_item_error (item : node) : bool :=
  (is_obj_node item || is_arr_node item) && node_nullable item.

(* ---- astjson on trees ---- *)
(* Value.Get(keys...): objects by first matching key; anything else (incl. arrays: the generator
   never uses numeric keys) -> nil *)
Fixpoint get_path (p : list bytes) (j : json) : option json :=
  match p with
  | [] => Some j
  | k :: r => match j with
              | JObj m => match obj_get k m with Some v => get_path r v | None => None end
              | _ => None
              end
  end.
Definition is_null_or_missing (o : option json) : bool :=
  match o with None => true | Some JNull => true | _ => false end.

(* Object.Set: replace the first entry with that key, else append *)
Fixpoint obj_set (k : bytes) (v : json) (m : list (bytes * json)) : list (bytes * json) :=
  match m with
  | [] => [(k, v)]
  | (k', v') :: r => if bytes_eqb k k' then (k', v) :: r else (k', v') :: obj_set k v r
  end.
(* SetValue(v, value, path...) for a non-empty path; intermediate missing objects are created;
   a non-object on the way makes it a no-op. *)
Fixpoint set_path (p : list bytes) (nv : json) (j : json) : json :=
  match p with
  | [] => nv
  | [k] => match j with JObj m => JObj (obj_set k nv m) | _ => j end
  | k :: r =>
    match j with
    | JObj m =>
      match obj_get k m with
      | Some c => JObj (obj_set k (set_path r nv c) m)
      | None => JObj (obj_set k (set_path r nv (JObj [])) m)
      end
    | _ => j
    end
  end.

Definition typename_of (v : json) : option bytes :=
  match v with
  | JObj m => match obj_get [95;95;116;121;112;101;110;97;109;101] m with Some (JStr s) => Some s | _ => None end
  | _ => None
  end.
Definition has_skip_errors (v : json) : bool :=
  match v with
  | JObj m => match obj_get [95;95;115;107;105;112;69;114;114;111;114;115] m with Some _ => true | None => false end
  | _ => false
  end.

(* isAbstract *)
Definition is_abstract (tyname : bytes) (possible : list bytes) : bool :=
  match possible with
  | [] => false
  | [p] => negb (bytes_eqb p tyname)
  | _ => true
  end.

(* shouldSkipFieldByTypeCondition; [tns] is the runtime type-name stack, innermost first *)
Fixpoint skip_parent_on (conds : list (nat * list bytes)) (tns : list (option bytes)) : bool :=
  match conds with
  | [] => false
  | (depth, names) :: r =>
    match nth_error tns depth with
    | Some (Some tn) => if mem_bytes tn names then skip_parent_on r tns else true
    | _ => true
    end
  end.
Definition skip_on (names : list bytes) (tns : list (option bytes)) : bool :=
  match tns with
  | Some tn :: _ => negb (mem_bytes tn names)
  | _ => true
  end.
Definition skip_field (on : option (list bytes)) (parent_on : option (list (nat * list bytes)))
           (tns : list (option bytes)) : bool :=
  (match parent_on with Some c => skip_parent_on c tns | None => false end)
  || (match on with Some names => skip_on names tns | None => false end).

Definition push_names (path : rpath) (p : list bytes) : rpath := path ++ map PName p.

(* addNonNullableFieldError: suppressed when the enclosing object has "__skipErrors" *)
Definition nonnull_error (path : rpath) (field_path : list bytes) (parent : json) : list gerr :=
  let suppressed :=
    match field_path with
    | [] => false     (* fieldPath == nil: no ancestor test *)
    | _ => match get_path (removelast field_path) parent with
           | Some anc => has_skip_errors anc
           | None => false
           end
    end in
  if suppressed then [] else [{| ge_kind := EK_NONNULL; ge_path := push_names path field_path |}].

(* result of walking: the (possibly mutated) enclosing value, new errors, status *)
Inductive wstatus := WOk | WErr | WPanic.

Section Walk.
  (* post-fetch authorization decision: deny (runtime-or-declared parent type) (field name) *)
  Variable deny : bytes -> bytes -> bool.

  Definition scalar_prewalk (path : rpath) (p : list bytes) (nullable : bool) (kind : N)
             (accept : json -> bool) (parent : json) : list gerr * wstatus :=
    let v := get_path p parent in
    if is_null_or_missing v then
      if nullable then ([], WOk) else (nonnull_error path p parent, WErr)
    else
      match v with
      | Some x => if accept x then ([], WOk)
                  else ([{| ge_kind := kind; ge_path := push_names path p |}], WErr)
      | None => ([], WOk)
      end.

  Definition is_jstr (j : json) := match j with JStr _ => true | _ => false end.
  Definition is_jbool (j : json) := match j with JBool _ => true | _ => false end.
  Definition is_jnum (j : json) := match j with JNum _ => true | _ => false end.

  (* The pre-walk.  [parent] is the value the Go walkNode receives; the node reads
     parent.Get(path).  Returns the new [parent]. *)
  Fixpoint prewalk (n : node) (parent : json) (path : rpath) (tns : list (option bytes))
    : json * list gerr * wstatus :=
    match n with
    | NNull | NStatic _ | NEmptyObj | NEmptyArr => (parent, [], WOk)
    | NStr p nl => let '(e, s) := scalar_prewalk path p nl EK_STRING is_jstr parent in (parent, e, s)
    | NBool p nl => let '(e, s) := scalar_prewalk path p nl EK_BOOL is_jbool parent in (parent, e, s)
    | NInt p nl => let '(e, s) := scalar_prewalk path p nl EK_INT is_jnum parent in (parent, e, s)
    | NFloat p nl => let '(e, s) := scalar_prewalk path p nl EK_FLOAT is_jnum parent in (parent, e, s)
    | NBigInt p nl => let '(e, s) := scalar_prewalk path p nl 0 (fun _ => true) parent in (parent, e, s)
    | NScalar p nl => let '(e, s) := scalar_prewalk path p nl 0 (fun _ => true) parent in (parent, e, s)
    | NEnum p nl _ values inacc =>
      let v := get_path p parent in
      if is_null_or_missing v then
        if nl then (parent, [], WOk) else (parent, nonnull_error path p parent, WErr)
      else
        match v with
        | Some (JStr s) =>
          if negb (mem_bytes s values) then
            (parent, [{| ge_kind := EK_ENUM; ge_path := push_names path p |}], if nl then WOk else WErr)
          else if mem_bytes s inacc then
            (* renderInaccessibleEnumValueError, default options *)
            let errs :=
              match rev path with
              | PIdx _ :: _ :: _ => [{| ge_kind := EK_ENUM_INACCESSIBLE; ge_path := path |}]
              | _ => match p with
                     | [] => []
                     | _ => [{| ge_kind := EK_ENUM_INACCESSIBLE; ge_path := push_names path p |}]
                     end
              end in
            (parent, errs, if nl then WOk else WErr)
          else (parent, [], WOk)
        | _ => (parent, [{| ge_kind := EK_ENUM; ge_path := push_names path p |}], WErr)
        end
    | NArr p nl item =>
      let v := get_path p parent in
      if is_null_or_missing v then
        if nl then (parent, [], WOk) else (parent, nonnull_error path p parent, WErr)
      else
        let path' := push_names path p in
        match v with
        | Some (JArr items) =>
          (* the item loop; returns the new item list *)
          let fix loop (items : list json) (i : N) : list json * list gerr * option wstatus :=
            match items with
            | [] => ([], [], None)
            | it :: rest =>
              let '(it', e, s) := prewalk item it (path' ++ [PIdx i]) tns in
              match s with
              | WPanic => (it' :: rest, e, Some WPanic)
              | WErr =>
                if absorbs_item_error item then
                  let '(rest', e2, s2) := loop rest (i + 1) in (JNull :: rest', e ++ e2, s2)
                else (it' :: rest, e, Some WErr)
              | WOk =>
                let '(rest', e2, s2) := loop rest (i + 1) in (it' :: rest', e ++ e2, s2)
              end
            end in
          let '(items', e, s) := loop items 0 in
          match s with
          | None => (set_path p (JArr items') parent, e, WOk)
          | Some WPanic => (parent, e, WPanic)
          | Some _ =>
            if nl then
              match p with
              | [] => (set_path p (JArr items') parent, e, WErr)   (* nested list: the enclosing list nulls this item *)
              | _ => (set_path p JNull parent, e, WOk)
              end
            else (set_path p (JArr items') parent, e, WErr)
          end
        | _ =>
          (parent, [{| ge_kind := EK_ARRAY; ge_path := path' |}], WErr)
        end
    | NObj p nl tyname possible inacc unresolvable fields =>
      if unresolvable then (parent, [{| ge_kind := EK_UNRESOLVABLE; ge_path := push_names path p |}], WErr)
      else
      let v := get_path p parent in
      if is_null_or_missing v then
        if nl then (parent, [], WOk) else (parent, nonnull_error path p parent, WErr)
      else
        let path' := push_names path p in
        match v with
        | Some (JObj m) =>
          let value := JObj m in
          let tn := typename_of value in
          let tn_bad :=
            match tn with
            | None => is_abstract tyname possible
            | Some t => match possible with [] => false | _ => negb (mem_bytes t possible) end
            end in
          if tn_bad then
            (parent, [{| ge_kind := EK_TYPENAME; ge_path := path' |}], if nl then WOk else WErr)
          else
            let tns' := tn :: tns in
            (* walkFields; result: Some status when the loop returned early, with [nulled] telling
               that the object nulled itself in its parent *)
            let fix floop (fs : list field) (value : json) : json * list gerr * option (bool * wstatus) :=
              match fs with
              | [] => (value, [], None)
              | Fld name on parent_on auth child :: rest =>
                if skip_field on parent_on tns' then floop rest value
                else
                  let denied :=
                    match auth with
                    | Some a =>
                      let t := match typename_of value with Some t => t | None => au_parent_type a end in
                      deny t (au_field a)
                    | None => false
                    end in
                  if denied then
                    let e := [{| ge_kind := EK_UNAUTHORIZED; ge_path := push_names path' (node_path child) |}] in
                    if node_nullable child then
                      match node_path child with
                      | [] =>
                        (* value.Get() with no key is the enclosing object itself (never nil), and
                           astjson.SetNull with an empty path indexes path[-1]: the walk panics *)
                        (value, e, Some (false, WPanic))
                      | cp =>
                        let value' := match get_path cp value with
                                      | Some _ => set_path cp JNull value
                                      | None => value
                                      end in
                        let '(v2, e2, s2) := floop rest value' in (v2, e ++ e2, s2)
                      end
                    else if nl && (match p with [] => false | _ => true end) then (value, e, Some (true, WOk))
                    else (value, e, Some (false, WErr))
                  else
                  let '(value', e, s) := prewalk child value path' tns' in
                  match s with
                  | WPanic => (value', e, Some (false, WPanic))
                  | WErr =>
                    if nl && (match p with [] => false | _ => true end) then (value', e, Some (true, WOk))
                    else (value', e, Some (false, WErr))
                  | WOk => let '(v2, e2, s2) := floop rest value' in (v2, e ++ e2, s2)
                  end
              end in
            let '(value', e, s) := floop fields value in
            match s with
            | None => (set_path p value' parent, e, WOk)
            | Some (true, _) => (set_path p JNull parent, e, WOk)
            | Some (false, st) => (set_path p value' parent, e, st)
            end
        | _ =>
          (parent, [{| ge_kind := EK_NOTOBJECT; ge_path := path' |}], WErr)
        end
    end.

  (* ---- the print walk ---- *)
  Definition hexd (n : N) : byte := if n <? 10 then 48 + n else 87 + n.
  (* astjson escapeString *)
  Fixpoint escape_body (s : bytes) : bytes :=
    match s with
    | [] => []
    | c :: r =>
      (if c =? 34 then [92; 34]
       else if c =? 92 then [92; 92]
       else if 32 <=? c then [c]
       else if c =? 8 then [92; 98]
       else if c =? 9 then [92; 116]
       else if c =? 10 then [92; 110]
       else if c =? 12 then [92; 102]
       else if c =? 13 then [92; 114]
       else [92; 117; 48; 48; hexd (c / 16); hexd (c mod 16)]) ++ escape_body r
    end.
  Definition escape_string (s : bytes) : bytes := 34 :: escape_body s ++ [34].

  Definition b_null : bytes := [110;117;108;108].
  Definition b_true : bytes := [116;114;117;101].
  Definition b_false : bytes := [102;97;108;115;101].

  (* Value.MarshalTo *)
  Fixpoint marshal (j : json) : bytes :=
    match j with
    | JNull => b_null
    | JBool true => b_true
    | JBool false => b_false
    | JNum raw => raw
    | JStr s => escape_string s
    | JArr items =>
      91 :: (fix go (l : list json) : bytes :=
               match l with
               | [] => []
               | [x] => marshal x
               | x :: r => marshal x ++ 44 :: go r
               end) items ++ [93]
    | JObj m =>
      123 :: (fix go (l : list (bytes * json)) : bytes :=
                match l with
                | [] => []
                | [(k, v)] => escape_string k ++ 58 :: marshal v
                | (k, v) :: r => escape_string k ++ 58 :: marshal v ++ 44 :: go r
                end) m ++ [125]
    end.

  Definition scalar_render (p : list bytes) (nullable : bool) (accept : json -> bool) (parent : json)
    : bytes * bool :=
    let v := get_path p parent in
    if is_null_or_missing v then
      if nullable then (b_null, false) else ([], true)
    else
      match v with
      | Some x => if accept x then (marshal x, false) else ([], true)
      | None => ([], true)
      end.

  (* returns (bytes printed, hasError) *)
  Fixpoint render (n : node) (parent : json) (tns : list (option bytes)) (is_root : bool) : bytes * bool :=
    match n with
    | NNull => (b_null, false)
    | NStatic v => (34 :: v ++ [34], false)
    | NEmptyObj => ([123; 125], false)
    | NEmptyArr => ([91; 93], false)
    | NStr p nl => scalar_render p nl is_jstr parent
    | NBool p nl => scalar_render p nl is_jbool parent
    | NInt p nl => scalar_render p nl is_jnum parent
    | NFloat p nl => scalar_render p nl (fun _ => true) parent     (* the kind test is pre-walk only *)
    | NBigInt p nl => scalar_render p nl (fun _ => true) parent
    | NScalar p nl => scalar_render p nl (fun _ => true) parent
    | NEnum p nl _ values inacc =>
      let v := get_path p parent in
      if is_null_or_missing v then
        if nl then (b_null, false) else ([], true)
      else
        match v with
        | Some (JStr s) =>
          if negb (mem_bytes s values) || mem_bytes s inacc then
            if nl then (b_null, false) else ([], true)
          else (marshal (JStr s), false)
        | _ => ([], true)
        end
    | NArr p nl item =>
      let v := get_path p parent in
      if is_null_or_missing v then
        if nl then (b_null, false) else ([], true)
      else
        match v with
        | Some (JArr items) =>
          let fix loop (items : list json) (first : bool) : bytes * option bool :=
            match items with
            | [] => ([], None)
            | it :: rest =>
              let sep := if first then [] else [44] in
              let '(b, err) := render item it tns false in
              if err then
                if absorbs_item_error item then
                  let '(b2, s2) := loop rest false in (sep ++ b ++ b2, s2)
                else (sep ++ b, Some (nl && negb (match p with [] => true | _ => false end)))
              else let '(b2, s2) := loop rest false in (sep ++ b ++ b2, s2)
            end in
          let '(b, s) := loop items true in
          match s with
          | None => (91 :: b ++ [93], false)
          | Some true => (91 :: b, false)      (* nullable array: returns false without the bracket *)
          | Some false => (91 :: b, true)
          end
        | _ => ([], true)
        end
    | NObj p nl tyname possible inacc unresolvable fields =>
      (* the unresolvable test is pre-walk only: the print walk renders what the pre-walk left *)
      let v := get_path p parent in
      if is_null_or_missing v then
        if nl then (b_null, false) else ([], true)
      else
        match v with
        | Some (JObj m) =>
          let value := JObj m in
          let tn := typename_of value in
          let tn_bad :=
            match tn with
            | None => is_abstract tyname possible
            | Some t => match possible with [] => false | _ => negb (mem_bytes t possible) end
            end in
          if tn_bad then (b_null, false)
          else
            let tns' := tn :: tns in
            let fix floop (fs : list field) (add_comma : bool) : bytes * bool :=
              match fs with
              | [] => ([], false)
              | Fld name on parent_on auth child :: rest =>
                if skip_field on parent_on tns' then floop rest add_comma
                else
                  let key := (if add_comma then [44] else []) ++ 34 :: name ++ [34; 58] in
                  let '(b, err) := render child value tns' false in
                  if err then
                    if nl then let '(b2, e2) := floop rest true in (key ++ b ++ b_null ++ b2, e2)
                    else (key ++ b ++ b_null, true)
                  else let '(b2, e2) := floop rest true in (key ++ b ++ b2, e2)
              end in
            let '(b, err) := floop fields false in
            if err then ((if is_root then [] else [123]) ++ b, true)
            else ((if is_root then [] else [123]) ++ b ++ (if is_root then [] else [125]), false)
        | _ => ([], true)
        end
    end.

  (* Resolve(): errors (kind,path), whether data is null, the bytes of the data member, panic *)
  Record resolved := { r_errors : list gerr; r_data_null : bool; r_data : bytes; r_panic : bool;
                       r_render_err : bool }.
  Definition resolve (root : node) (data : json) : resolved :=
    let '(data', errs, st) := prewalk root data [] [] in
    match st with
    | WPanic => {| r_errors := errs; r_data_null := false; r_data := []; r_panic := true; r_render_err := false |}
    | WErr => {| r_errors := errs; r_data_null := true; r_data := b_null; r_panic := false; r_render_err := false |}
    | WOk =>
      let '(b, err) := render root data' [] true in
      {| r_errors := errs; r_data_null := false; r_data := 123 :: b ++ [125]; r_panic := false; r_render_err := err |}
    end.

  (* the full response text, with each error abstracted to a fixed placeholder object *)
  Definition envelope (r : resolved) (errors_text : bytes) : bytes :=
    123 :: (match r_errors r with [] => [] | _ => [34;101;114;114;111;114;115;34;58] ++ errors_text ++ [44] end)
        ++ [34;100;97;116;97;34;58] ++ r_data r ++ [125].
End Walk.
