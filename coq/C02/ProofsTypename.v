(* C02 proofs, part 9: the abstract-type guard ([is_abstract], Go Object.isAbstract) and the
   `__typename` leaf (Go String{IsTypeName:true}; with default options -- no type renames -- walkString
   treats it exactly like any String, so it is the model node [NStr]).

   [possible] is the list of the keys of the Go map PossibleTypes (duplicate free), so its length is
   len(o.PossibleTypes) and [In ty possible] is the map lookup. *)
From Coq Require Import Lia.
From Gv Require Import lib.Bytes lib.Json C02.Model C02.Spec.
Open Scope N_scope.

Lemma bytes_eqb_true_iff : forall a b, bytes_eqb a b = true <-> a = b.
Proof.
  induction a as [|x a IH]; destruct b as [|y b]; simpl; split; intro H; try reflexivity; try discriminate H.
  - apply andb_prop in H. destruct H as [H1 H2]. apply N.eqb_eq in H1. apply IH in H2. subst. reflexivity.
  - injection H as -> ->. rewrite N.eqb_refl. simpl. apply IH. reflexivity.
Qed.

(* isAbstract(): more than one possible type, or exactly one that is not the object's own type name *)
Lemma is_abstract_exact_lemma : forall ty possible,
  is_abstract ty possible = true <->
  (1 < length possible)%nat \/ (length possible = 1%nat /\ ~ In ty possible).
Proof.
  intros ty possible. destruct possible as [|p [|q r]]; simpl.
  - split; [discriminate | intros [H | [H _]]; [lia | discriminate H]].
  - split.
    + intro H. right. split; [reflexivity|]. intros [E | []]. subst p.
      assert (bytes_eqb ty ty = true) as E by (apply bytes_eqb_true_iff; reflexivity).
      rewrite E in H. discriminate H.
    + intros [H | [_ H]]; [lia|]. destruct (bytes_eqb p ty) eqn:E; [|reflexivity].
      apply bytes_eqb_true_iff in E. exfalso. apply H. left. exact E.
  - split; [intros _; left; lia | reflexivity].
Qed.

(* an entity interface -- its own name listed next to at least one implementer -- is abstract *)
Lemma entity_interface_is_abstract_lemma : forall ty possible,
  In ty possible -> (1 < length possible)%nat -> is_abstract ty possible = true.
Proof. intros ty possible _ H. apply is_abstract_exact_lemma. left. exact H. Qed.

Section Typename.
  Variable deny : bytes -> bytes -> bool.

  (* an object at an abstract position whose data has no string "__typename" is never rendered: the
     position is null (nullable) or the error propagates, with one EK_TYPENAME error at its path --
     in the completion semantics, in the pre-walk and in the print walk *)
  Lemma abstract_without_typename_lemma : forall p nl ty possible inacc fields parent m path tns,
    is_abstract ty possible = true ->
    get_path p parent = Some (JObj m) ->
    typename_of (JObj m) = None ->
    complete deny (NObj p nl ty possible inacc false fields) parent path tns
      = (if nl then Some JNull else None, [{| ge_kind := EK_TYPENAME; ge_path := push_names path p |}]) /\
    prewalk deny (NObj p nl ty possible inacc false fields) parent path tns
      = (parent, [{| ge_kind := EK_TYPENAME; ge_path := push_names path p |}], if nl then WOk else WErr) /\
    forall is_root, render (NObj p nl ty possible inacc false fields) parent tns is_root = (b_null, false).
  Proof.
    intros p nl ty possible inacc fields parent m path tns Ha Hg Ht.
    cbn [typename_of] in Ht.
    repeat split; intros; cbn [complete prewalk render]; rewrite Hg; cbn [is_null_or_missing typename_of];
      unfold tn_bad; rewrite Ht, Ha; reflexivity.
  Qed.

  (* the `__typename` leaf (any String leaf): what is rendered is the string found in the data, or null
     at a nullable leaf; there is no error then *)
  Lemma typename_leaf_string_lemma : forall p nl parent path tns t e,
    complete deny (NStr p nl) parent path tns = (Some t, e) ->
    e = [] /\ ((t = JNull /\ nl = true) \/ exists s, t = JStr s /\ get_path p parent = Some (JStr s)).
  Proof.
    intros p nl parent path tns t e H. cbn [complete] in H. unfold scalar_complete in H.
    destruct (get_path p parent) as [x|].
    - destruct x; try (destruct nl; [injection H as <- <-; split; [reflexivity | left; split; reflexivity] | discriminate H]);
        cbn [is_jstr] in H; try discriminate H.
      injection H as <- <-. split; [reflexivity|]. right. eexists. split; reflexivity.
    - destruct nl; [injection H as <- <-; split; [reflexivity | left; split; reflexivity] | discriminate H].
  Qed.

  (* a number / boolean / object / array under the leaf is never copied into the response: one EK_STRING
     error at the leaf's path and the error propagates to the parent, whatever the nullability; the print
     walk does not print it either *)
  Lemma typename_leaf_nonstring_lemma : forall p nl parent path tns x,
    get_path p parent = Some x -> x <> JNull -> is_jstr x = false ->
    complete deny (NStr p nl) parent path tns = (None, [{| ge_kind := EK_STRING; ge_path := push_names path p |}]) /\
    prewalk deny (NStr p nl) parent path tns = (parent, [{| ge_kind := EK_STRING; ge_path := push_names path p |}], WErr) /\
    forall is_root, render (NStr p nl) parent tns is_root = ([], true).
  Proof.
    intros p nl parent path tns x Hg Hn Hs.
    repeat split; intros; cbn [complete prewalk render];
      unfold scalar_complete, scalar_prewalk, scalar_render; rewrite Hg;
      destruct x; try (exfalso; apply Hn; reflexivity); try discriminate Hs; reflexivity.
  Qed.
End Typename.
